import Lean.Data.Json
import Efp.Models
/-!
Line-protocol driver: one JSON request per input line, one JSON answer per output line.
Run with `lake env lean --run Driver.lean < requests.jsonl`.
Anything that cannot be parsed is answered `{"bad":…}` — never defaulted.
-/
open Lean Efp

abbrev P := Except String

def parseInt (s : String) : P Int :=
  match s.toInt? with
  | some i => pure i
  | none => throw s!"bad int {s}"

def parseRat (s : String) : P Rat :=
  match s.splitOn "/" with
  | [n] => do pure ((← parseInt n) : Rat)
  | [n, d] => do
    let d' ← parseInt d
    if d' = 0 then throw "zero den" else pure (((← parseInt n) : Rat) / (d' : Rat))
  | _ => throw s!"bad rat {s}"

def ratStr (r : Rat) : String :=
  if r.den = 1 then toString r.num else s!"{r.num}/{r.den}"

def jInt (j : Json) : P Int :=
  match j with
  | .num n => if n.exponent = 0 then pure n.mantissa else throw "non-integer number"
  | .str s => parseInt s
  | _ => throw "int expected"

def jRat (j : Json) : P Rat :=
  match j with
  | .str s => parseRat s
  | .num n => if n.exponent = 0 then pure (n.mantissa : Rat) else throw "non-integer number (use a string n/d)"
  | _ => throw "rat expected"

def jStr (j : Json) : P String :=
  match j with
  | .str s => pure s
  | _ => throw "string expected"

def jArr (j : Json) : P (Array Json) :=
  match j with
  | .arr a => pure a
  | _ => throw "array expected"

def fld (j : Json) (k : String) : P Json :=
  match j.getObjVal? k with
  | .ok v => pure v
  | .error _ => throw s!"missing field {k}"

def fldOpt (j : Json) (k : String) : Option Json :=
  match j.getObjVal? k with
  | .ok .null => none
  | .ok v => some v
  | .error _ => none

def jUnit (j : Json) : P Efp.Unit := do
  let s ← jRat (← fld j "s")
  let d ← jArr (← fld j "d")
  if d.size ≠ 5 then throw "dim must have 5 entries"
  let di ← d.toList.mapM jInt
  match di with
  | [a, b, c, e, f] => pure ⟨s, ⟨a, b, c, e, f⟩⟩
  | _ => throw "dim"

def jSeries (j : Json) : P Series := do
  match fldOpt j "k0" with
  | some k0 =>
    let k ← jInt k0
    let vs ← (← jArr (← fld j "vs")).toList.mapM jRat
    pure (Series.ofList k vs)
  | none =>
    let ks ← (← jArr (← fld j "ks")).toList.mapM jInt
    let vs ← (← jArr (← fld j "vs")).toList.mapM jRat
    if ks.length ≠ vs.length then throw "ks/vs length"
    pure (ks.zip vs)

def jVal (j : Json) : P Val :=
  match j with
  | .null => pure .empty
  | _ =>
    match fldOpt j "q" with
    | some q => do pure (.q ⟨← jRat q, ← jUnit (← fld j "u")⟩)
    | none => do pure (.h ⟨← jSeries j, ← jUnit (← fld j "u")⟩)

def unitJson (u : Efp.Unit) : Json :=
  Json.mkObj [("s", ratStr u.scale),
    ("d", Json.arr #[.num u.dim.time, .num u.dim.length, .num u.dim.mass, .num u.dim.cpu, .num u.dim.gpu])]

def valJson : Val → Json
  | .empty => .null
  | .q x => Json.mkObj [("q", ratStr x.mag), ("u", unitJson x.unit)]
  | .h x => Json.mkObj [("ks", Json.arr (x.vals.map (fun p => Json.num p.1)).toArray),
                        ("vs", Json.arr (x.vals.map (fun p => Json.str (ratStr p.2))).toArray),
                        ("u", unitJson x.unit)]

def jZone (j : Json) : P Zone := do
  let init ← jInt (← fld j "init")
  let tr ← (← jArr (← fld j "tr")).toList.mapM (fun p => do
    let a ← jArr p
    if a.size ≠ 2 then throw "transition pair"
    pure (← jInt a[0]!, ← jInt a[1]!))
  let east := match fldOpt j "east" with | some (.bool b) => b | _ => true
  pure ⟨init, tr, east⟩

def fv (j : Json) (k : String) : P Val :=
  match fldOpt j k with
  | some v => jVal v
  | none => pure .empty

def fs (j : Json) (k : String) : P String := do jStr (← fld j k)
def fsl (j : Json) (k : String) : P (List String) := do (← jArr (← fld j k)).toList.mapM jStr
def fl (j : Json) (k : String) : P (List Json) := do pure (← jArr (← fld j k)).toList

def jSpec (j : Json) : P Spec := do
  let storages ← (← fl j "storages").mapM (fun o => do
    pure { name := ← fs o "name", cfPerCap := ← fv o "carbon_footprint_fabrication_per_storage_capacity",
           powerPerCap := ← fv o "power_per_storage_capacity", lifespan := ← fv o "lifespan",
           idlePower := ← fv o "idle_power", capacity := ← fv o "storage_capacity",
           replication := ← fv o "data_replication_factor", duration := ← fv o "data_storage_duration",
           baseNeed := ← fv o "base_storage_need", fixed := ← fv o "fixed_nb_of_instances" : StorageS })
  let servers ← (← fl j "servers").mapM (fun o => do
    let svcR ← match fldOpt o "svc_base_ram" with
      | some a => (do (← jArr a).toList.mapM jVal) | none => pure []
    let svcC ← match fldOpt o "svc_base_compute" with
      | some a => (do (← jArr a).toList.mapM jVal) | none => pure []
    pure { name := ← fs o "name", gpu := (← fs o "cls") == "GPUServer", serverType := ← fs o "server_type",
           cfFab := ← fv o "carbon_footprint_fabrication", power := ← fv o "power",
           idlePower := ← fv o "idle_power", ram := ← fv o "ram", lifespan := ← fv o "lifespan",
           compute := ← fv o "compute", pue := ← fv o "power_usage_effectiveness",
           aci := ← fv o "average_carbon_intensity", util := ← fv o "server_utilization_rate",
           baseRam := ← fv o "base_ram_consumption", baseCompute := ← fv o "base_compute_consumption",
           fixed := ← fv o "fixed_nb_of_instances", storage := ← fs o "storage",
           gpuPower := ← fv o "gpu_power", gpuIdlePower := ← fv o "gpu_idle_power",
           ramPerGpu := ← fv o "ram_per_gpu", cfPerGpu := ← fv o "carbon_footprint_fabrication_per_gpu",
           cfWithoutGpu := ← fv o "carbon_footprint_fabrication_without_gpu",
           svcBaseRam := svcR, svcBaseCompute := svcC : ServerS })
  let jobs ← (← fl j "jobs").mapM (fun o => do
    pure { name := ← fs o "name", server := ← fs o "server", dataTransferred := ← fv o "data_transferred",
           dataStored := ← fv o "data_stored", requestDuration := ← fv o "request_duration",
           computeNeeded := ← fv o "compute_needed", ramNeeded := ← fv o "ram_needed" : JobS })
  let steps ← (← fl j "steps").mapM (fun o => do
    pure { name := ← fs o "name", time := ← fv o "user_time_spent", jobs := ← fsl o "jobs" : StepS })
  let journeys ← (← fl j "journeys").mapM (fun o => do
    pure { name := ← fs o "name", steps := ← fsl o "uj_steps" : JourneyS })
  let devices ← (← fl j "devices").mapM (fun o => do
    pure { name := ← fs o "name", cfFab := ← fv o "carbon_footprint_fabrication", power := ← fv o "power",
           lifespan := ← fv o "lifespan", fraction := ← fv o "fraction_of_usage_time" : DeviceS })
  let networks ← (← fl j "networks").mapM (fun o => do
    pure { name := ← fs o "name", bei := ← fv o "bandwidth_energy_intensity" : NetworkS })
  let countries ← (← fl j "countries").mapM (fun o => do
    pure { name := ← fs o "name", aci := ← fv o "average_carbon_intensity",
           zone := ← jZone (← fld o "zone") : CountryS })
  let patterns ← (← fl j "patterns").mapM (fun o => do
    pure { name := ← fs o "name", journey := ← fs o "usage_journey", devices := ← fsl o "devices",
           network := ← fs o "network", country := ← fs o "country",
           starts := ← fv o "hourly_usage_journey_starts" : PatternS })
  pure { storages, servers, jobs, steps, journeys, devices, networks, countries, patterns,
         system := ← fsl j "system" }

def errJson (e : Err) : Json := Json.mkObj [("err", e.tag)]

def exceptVal (r : Except Err Val) : Json :=
  match r with
  | .ok v => Json.mkObj [("ok", valJson v)]
  | .error e => errJson e

def jGraph (j : Json) : P Efp.Graph.G := do
  let ns ← (← jArr j).toList.mapM (fun o => do
    let anc ← (← jArr (← fld o "anc")).toList.mapM jInt
    let chi ← (← jArr (← fld o "chi")).toList.mapM jInt
    let inDict := match fldOpt o "dict" with | some (.bool b) => b | _ => false
    let isCalc := match fldOpt o "calc" with | some (.bool b) => b | _ => false
    let live := match fldOpt o "live" with | some (.bool b) => b | _ => true
    pure ({ uid := (← jInt (← fld o "uid")).toNat, sid := (← jInt (← fld o "sid")).toNat, inDict,
            anc := anc.map Int.toNat, chi := chi.map Int.toNat, isCalc, live } : Efp.Graph.GNode))
  pure ns.toArray

/-! typed JSON values of Model E -/
open Efp.JsonModel in
def jSource (j : Json) : P Efp.JsonModel.Source :=
  match fldOpt j "source" with
  | some a => do
    let arr ← jArr a
    if arr.size ≠ 2 then throw "source pair"
    let l := match arr[1]! with | .str s => s | _ => "<null>"
    pure (some (← jStr arr[0]!, l))
  | none => pure none

def sourceJson (s : Efp.JsonModel.Source) : Json :=
  match s with
  | some (n, l) => Json.arr #[Json.str n, Json.str l]
  | none => Json.null

def jMVal (j : Json) : P Efp.JsonModel.MVal := do
  let t ← fs j "t"
  match t with
  | "q" => do pure (.q (← jRat (← fld j "mag")) (← fs j "unit") (← fs j "label") (← jSource j))
  | "h" => do
    let vs ← (← jArr (← fld j "vals")).toList.mapM jRat
    pure (.h (← jInt (← fld j "start")) vs (← fs j "unit") (← fs j "label") (← jSource j))
  | "empty" => do pure (.empty (← fs j "label"))
  | "sobj" => do pure (.sobj (← fs j "value") (← fs j "label") (← jSource j))
  | "link" => do pure (.link (← fs j "id"))
  | "list" => do pure (.list (← fsl j "ids"))
  | "raw" => do pure (.raw (← fs j "s"))
  | "null" => pure .null
  | _ => throw s!"bad MVal {t}"

def jJVal (j : Json) : P Efp.JsonModel.JVal := do
  let t ← fs j "t"
  match t with
  | "q" => do pure (.q (← jRat (← fld j "mag")) (← fs j "unit") (← fs j "label") (← jSource j))
  | "h" => do
    let vs ← (← jArr (← fld j "vals")).toList.mapM jRat
    pure (.h (← jInt (← fld j "start")) vs (← fs j "unit") (← fs j "label") (← jSource j))
  | "empty" => do pure (.empty (← fs j "label"))
  | "sobj" => do pure (.sobj (← fs j "value") (← fs j "label") (← jSource j))
  | "str" => do pure (.str (← fs j "s"))
  | "strs" => do pure (.strs (← fsl j "l"))
  | "null" => pure .null
  | _ => throw s!"bad JVal {t}"

def jvalJson : Efp.JsonModel.JVal → Json
  | .q m u l s => Json.mkObj [("t", "q"), ("mag", ratStr m), ("unit", u), ("label", l), ("source", sourceJson s)]
  | .h st vs u l s => Json.mkObj [("t", "h"), ("start", Json.num st), ("vals", Json.arr (vs.map (fun v => Json.str (ratStr v))).toArray),
                                   ("unit", u), ("label", l), ("source", sourceJson s)]
  | .empty l => Json.mkObj [("t", "empty"), ("label", l)]
  | .sobj v l s => Json.mkObj [("t", "sobj"), ("value", v), ("label", l), ("source", sourceJson s)]
  | .str s => Json.mkObj [("t", "str"), ("s", s)]
  | .strs l => Json.mkObj [("t", "strs"), ("l", Json.arr (l.map Json.str).toArray)]
  | .null => Json.mkObj [("t", "null")]

def mvalJson : Efp.JsonModel.MVal → Json
  | .q m u l s => Json.mkObj [("t", "q"), ("mag", ratStr m), ("unit", u), ("label", l), ("source", sourceJson s)]
  | .h st vs u l s => Json.mkObj [("t", "h"), ("start", Json.num st), ("vals", Json.arr (vs.map (fun v => Json.str (ratStr v))).toArray),
                                   ("unit", u), ("label", l), ("source", sourceJson s)]
  | .empty l => Json.mkObj [("t", "empty"), ("label", l)]
  | .sobj v l s => Json.mkObj [("t", "sobj"), ("value", v), ("label", l), ("source", sourceJson s)]
  | .link i => Json.mkObj [("t", "link"), ("id", i)]
  | .list is => Json.mkObj [("t", "list"), ("ids", Json.arr (is.map Json.str).toArray)]
  | .raw s => Json.mkObj [("t", "raw"), ("s", s)]
  | .null => Json.mkObj [("t", "null")]

def handle (j : Json) : P Json := do
  let cmd ← fs j "cmd"
  match cmd with
  | "calc" =>
    let sp ← jSpec (← fld j "spec")
    match computeSystem sp with
    | .ok o => pure (Json.mkObj [("ok", Json.arr (o.outs.map (fun x =>
        Json.mkObj [("o", x.obj), ("a", x.attr), ("k", x.key), ("v", valJson x.val)])).toArray)])
    | .error e => pure (errJson e)
  | "qty" =>
    let op ← fs j "op"
    let a ← fv j "a"
    let b ← fv j "b"
    match op with
    | "add" => pure (exceptVal (a.add b))
    | "sub" => pure (exceptVal (a.sub b))
    | "mul" => pure (exceptVal (a.mul b))
    | "div" => pure (exceptVal (a.div b))
    | "max" => pure (exceptVal a.max)
    | "sum" => pure (exceptVal a.sum)
    | "abs" => pure (exceptVal a.abs)
    | "neg" => pure (exceptVal a.neg)
    | "ceil" => pure (exceptVal (.ok a.ceil))
    | "npmax" => pure (exceptVal (a.npCompared true b))
    | "npmin" => pure (exceptVal (a.npCompared false b))
    | "to" => do let u ← jUnit (← fld j "unit"); pure (exceptVal (a.to u))
    | "shift" => do let k ← jInt (← fld j "k"); pure (exceptVal (a.shiftBy k))
    | "shiftd" => do
      match b with
      | .q d => pure (exceptVal (a.shiftByDuration d))
      | _ => throw "shiftd needs a scalar duration"
    | "round" => do let n ← jInt (← fld j "n"); pure (exceptVal (.ok (a.round n.toNat)))
    | "avgocc" => pure (exceptVal (nbAvgHourlyOccurrences a b))
    | _ => throw s!"unknown op {op}"
  | "validate" =>
    let cls ← fs j "cls"
    let param ← fs j "param"
    let v ← fld j "val"
    let t ← fs v "t"
    let iv : Efp.Validate.InVal ← match t with
      | "quantity" => do
        let d ← (← jArr (← fld v "dim")).toList.mapM jInt
        let neg := match fldOpt v "neg" with | some (.bool b) => b | _ => false
        pure (Efp.Validate.InVal.quantity d neg)
      | "hourly" => pure .hourly
      | "empty" => pure .empty
      | "sobj" => pure (.sobj (match fldOpt v "allowed" with | some (.bool b) => b | _ => true))
      | "float" => pure .pyfloat
      | "str" => pure .pystr
      | "modeling" => do pure (.modeling (← fs v "cls"))
      | "list" => do pure (.list (← fsl v "clss"))
      | _ => throw s!"unknown value kind {t}"
    match Efp.Validate.findRow cls param with
    | none => pure (Json.mkObj [("outcome", "no-row")])
    | some r =>
      match Efp.Validate.update r iv with
      | .refusedBeforeApply e => pure (Json.mkObj [("outcome", "refused-before-apply"), ("err", e.tag)])
      | .refusedAfterApply e => pure (Json.mkObj [("outcome", "refused-after-apply"), ("err", e.tag)])
      | .accepted => pure (Json.mkObj [("outcome", "accepted")])
  | "jsonenc" =>
    let objs ← (← fl j "model").mapM (fun o => do
      let attrs ← (← fl o "attrs").mapM (fun p => do
        let a ← jArr p
        if a.size ≠ 2 then throw "attr pair"
        pure (← jStr a[0]!, ← jMVal a[1]!))
      pure ({ cls := ← fs o "cls", id := ← fs o "id", attrs } : Efp.JsonModel.MObj))
    let root ← fs j "root"
    let fuel := 4 * (objs.length + 2) * (objs.length + 2) + 100
    let c := Efp.JsonModel.collect objs fuel root
    let out := Efp.JsonModel.encode objs fuel root
    pure (Json.mkObj [("done", Json.bool c.2), ("objs", Json.arr (out.map (fun o =>
      Json.mkObj [("cls", o.cls), ("id", o.id), ("attrs", Json.arr (o.attrs.map (fun p => Json.arr #[Json.str p.1, jvalJson p.2])).toArray)])).toArray)])
  | "jsondec" =>
    let objs ← (← fl j "jsys").mapM (fun o => do
      let attrs ← (← fl o "attrs").mapM (fun p => do
        let a ← jArr p
        if a.size ≠ 2 then throw "attr pair"
        pure (← jStr a[0]!, ← jJVal a[1]!))
      pure ({ cls := ← fs o "cls", id := ← fs o "id", attrs } : Efp.JsonModel.JObj))
    let objs := match fldOpt j "upgrade9" with | some (.bool true) => Efp.JsonModel.upgrade9to10 objs | _ => objs
    let out := Efp.JsonModel.decode objs
    pure (Json.mkObj [("objs", Json.arr (out.map (fun o =>
      Json.mkObj [("cls", o.cls), ("id", o.id), ("attrs", Json.arr (o.attrs.map (fun p => Json.arr #[Json.str p.1, mvalJson p.2])).toArray)])).toArray)])
  | "derive" =>
    let kind ← fs j "kind"
    let fq (k : String) : P Qty := do
      match (← jVal (← fld j k)) with
      | .q x => pure x
      | _ => throw s!"{k}: quantity expected"
    let qj (x : Qty) : Json := valJson (.q x)
    match kind with
    | "video" => do
      let i : Efp.Builders.VideoIn := ⟨(← jInt (← fld j "pixels")).toNat, ← fq "bits_per_pixel", ← fq "refresh_rate",
        ← fq "video_duration", ← fq "static_delivery_cpu_cost", ← fq "ram_buffer_per_user"⟩
      match Efp.Builders.videoDerive i, Efp.Builders.videoBitrate i with
      | .ok p, .ok br => pure (Json.mkObj [("dynamic_bitrate", qj br), ("data_transferred", qj p.dataTransferred),
          ("request_duration", qj p.requestDuration), ("compute_needed", qj p.computeNeeded), ("ram_needed", qj p.ramNeeded)])
      | .error e, _ => pure (errJson e)
      | _, .error e => pure (errJson e)
    | "genai" => do
      let i : Efp.Builders.GenAIIn := ⟨← fq "active_params", ← fq "total_params", ← fq "nb_of_bits_per_parameter", ← fq "llm_memory_factor",
        ← fq "gpu_latency_alpha", ← fq "gpu_latency_beta", ← fq "bits_per_token", ← fq "output_token_count", ← fq "ram_per_gpu"⟩
      match Efp.Builders.genaiDerive i with
      | .ok o => pure (Json.mkObj [("output_token_weights", qj o.tokenWeights), ("data_transferred", qj o.dataTransferred),
          ("data_stored", qj o.dataStored), ("request_duration", qj o.requestDuration), ("compute_needed", qj o.computeNeeded),
          ("base_ram_consumption", qj o.serviceBaseRam)])
      | .error e => pure (errJson e)
    | _ => throw s!"unknown builder {kind}"
  | "listop" =>
    let content := (← (← jArr (← fld j "content")).toList.mapM jInt).map Int.toNat
    let attached := match fldOpt j "attached" with | some (.bool b) => b | _ => true
    let m ← fs j "method"
    let argI (k : String) : P Int := do jInt (← fld j k)
    let argL (k : String) : P (List Nat) := do pure ((← (← jArr (← fld j k)).toList.mapM jInt).map Int.toNat)
    let op : Efp.ListOps.Op ← match m with
      | "append" => do pure (.append (← argI "x").toNat)
      | "insert" => do pure (.insert (← argI "i") (← argI "x").toNat)
      | "extend" => do pure (.extend (← argL "xs"))
      | "pop" => do pure (.pop (← argI "i"))
      | "delitem" => do pure (.delitem (← argI "i"))
      | "setitem" => do pure (.setitem (← argI "i") (← argI "x").toNat)
      | "remove" => do pure (.remove (← argI "x").toNat)
      | "clear" => pure .clear
      | "assign" => do pure (.assign (← argL "xs"))
      | _ => throw s!"unknown list method {m}"
    let (st, err) := Efp.ListOps.step ⟨content, attached⟩ op
    pure (Json.mkObj [("content", Json.arr (st.content.map (fun (x : Nat) => Json.num (Int.ofNat x))).toArray),
                      ("attached", Json.bool st.attached),
                      ("err", match err with | none => Json.null | some .indexError => "IndexError" | some .valueError => "ValueError" | some .attributeError => "AttributeError")])
  | "links" =>
    let ops ← (← fl j "ops").mapM (fun o => do
      let nat (k : String) : P Nat := do pure (← jInt (← fld o k)).toNat
      let nats (k : String) : P (List Nat) := do pure ((← (← jArr (← fld o k)).toList.mapM jInt).map Int.toNat)
      match (← fs o "op") with
      | "mk" => do pure (Efp.Links.Op.mk (← nats "parents"))
      | "setattr" => do
        let sl ← nats "slot"
        pure (Efp.Links.Op.setAttr (sl[0]!, sl[1]!) (← nat "v"))
      | "replace" => do pure (Efp.Links.Op.replace (← nat "old") (← nat "new"))
      | "detach" => do pure (Efp.Links.Op.detach (← nat "v"))
      | "dictset" => do
        let sl ← nats "slot"
        pure (Efp.Links.Op.dictSet (sl[0]!, sl[1]!) (← nat "key") (← nat "v"))
      | m => throw s!"unknown links op {m}")
    -- run until the first error; report it with its position
    let rec go (s : Efp.Links.LS) (k : Nat) : List Efp.Links.Op → (Efp.Links.LS × Option (Nat × Efp.Links.LErr))
      | [] => (s, none)
      | op :: rest => match Efp.Links.step s op with
        | .ok s' => go s' (k + 1) rest
        | .error e => (s, some (k, e))
    let (s, err) := go {} 0 ops
    let natArr (l : List Nat) : Json := Json.arr (l.map (fun (x : Nat) => Json.num (Int.ofNat x))).toArray
    let objs := (List.range s.size).map (fun v =>
      let x := s.get v
      Json.mkObj [("cont", match x.cont with | some c => natArr [c.1, c.2] | none => Json.null),
                  ("anc", natArr x.anc), ("chi", natArr x.chi)])
    pure (Json.mkObj [("objs", Json.arr objs.toArray),
                      ("err", match err with
                        | none => Json.null
                        | some (k, e) => Json.mkObj [("at", Json.num (Int.ofNat k)), ("kind", match e with
                          | .noId => "noId" | .otherContainer => "otherContainer" | .notAttached => "notAttached" | .badRef => "badRef" | .keyError => "keyError" | .multipleKeys => "multipleKeys")]),
                      ("mirror", Json.bool (Efp.Links.mirrorOk s)), ("slotOk", Json.bool (Efp.Links.slotOk s))])
  | "toggle" =>
    let content ← (← fl j "content").mapM (fun p => do
      let a ← jArr p
      pure ((← jInt a[0]!).toNat, (← jInt a[1]!).toNat))
    let pairs ← (← fl j "pairs").mapM (fun p => do
      let a ← jArr p
      pure ((← jInt a[0]!).toNat, (← jInt a[1]!).toNat))
    let word ← fsl j "word"
    let s0 : Efp.Store.St :=
      { content := fun k => (content.find? (·.1 == k)).map (·.2),
        slotOf := fun n => (content.find? (·.2 == n)).map (·.1) }
    let slots := content.map (·.1)
    let dump (s : Efp.Store.St) : Json :=
      Json.arr (slots.map (fun (k : Nat) => Json.arr #[Json.num (Int.ofNat k), match s.content k with | some n => Json.num (Int.ofNat n) | none => Json.null])).toArray
    let (_, outs) := word.foldl (fun (acc : (Efp.Store.St × Efp.Store.Sim) × List Json) w =>
      let st' := Efp.Store.toggle acc.1 (if w == "set" then .set else .reset)
      (st', acc.2 ++ [dump st'.1])) ((s0, ⟨pairs, false⟩), [])
    pure (Json.mkObj [("states", Json.arr outs.toArray)])
  | "time" =>
    let fn ← fs j "fn"
    let start ← jInt (← fld j "start")
    let ser (r : Series) : Json := Json.mkObj [("ks", Json.arr (r.map (fun p => Json.num p.1)).toArray),
                                              ("vs", Json.arr (r.map (fun p => Json.str (ratStr p.2))).toArray)]
    let optList (k : String) : P (Option (List Int)) := match fldOpt j k with
      | some a => (do pure (some (← (← jArr a).toList.mapM jInt)))
      | none => pure none
    match fn with
    | "list" => do
      let vs ← (← jArr (← fld j "vals")).toList.mapM jRat
      pure (ser (Efp.TimeBuilders.fromList start vs))
    | "freq" => do
      let n ← jInt (← fld j "n")
      let vol ← jRat (← fld j "volume")
      let f ← match (← fs j "freq") with
        | "daily" => pure Efp.TimeBuilders.Freq.daily | "weekly" => pure .weekly
        | "monthly" => pure .monthly | "yearly" => pure .yearly | x => throw s!"bad freq {x}"
      pure (ser (Efp.TimeBuilders.fromFrequency start n.toNat vol f (← optList "ad") (← optList "hs")))
    | "daily" => do
      let n ← jInt (← fld j "n")
      let vol ← jRat (← fld j "volume")
      let hs ← (← jArr (← fld j "hours")).toList.mapM jInt
      match Efp.TimeBuilders.fromDailyVolume start n.toNat vol hs with
      | .ok r => pure (ser r)
      | .error e => pure (errJson e)
    | "linear" => do
      let n ← jInt (← fld j "n")
      pure (ser (Efp.TimeBuilders.linearGrowth start n.toNat (← jRat (← fld j "a")) (← jRat (← fld j "b"))))
    | _ => throw s!"unknown time fn {fn}"
  | "tz" =>
    let z ← jZone (← fld j "zone")
    let s ← jSeries (← fld j "s")
    let r := convertToUtc z s
    pure (Json.mkObj [("ks", Json.arr (r.map (fun p => Json.num p.1)).toArray),
                      ("vs", Json.arr (r.map (fun p => Json.str (ratStr p.2))).toArray)])
  | "chain" =>
    let g ← jGraph (← fld j "g")
    let starts ← (← jArr (← fld j "starts")).toList.mapM jInt
    let fuel := 4 * g.size * g.size + 100
    let calcs := Efp.Graph.calcSlots g
    let res := starts.map (fun s =>
      match Efp.Graph.attrUpdatesChain g fuel s.toNat with
      | some c =>
        let ok := Efp.Theory.chainOk (Efp.Graph.slotReads g) calcs [(g[s.toNat]!).sid] (c.map (·.1))
        Json.mkObj [("chain", Json.arr (c.map (fun p => Json.arr #[Json.num (p.1 : Int), Json.bool p.2])).toArray),
                    ("ok", Json.bool ok)]
      | none => Json.str "hang")
    -- grouped updates: concatenate the chains of the changed inputs, keep last occurrences
    let groups ← match fldOpt j "groups" with
      | some a => (do (← jArr a).toList.mapM (fun grp => do (← jArr grp).toList.mapM jInt))
      | none => pure []
    let gres := groups.map (fun grp =>
      let chains := grp.map (fun s => Efp.Graph.attrUpdatesChain g fuel s.toNat)
      if chains.any (·.isNone) then Json.str "hang" else
      let all := (chains.filterMap id).flatten
      let c := Efp.Graph.keepLast all
      let ok := Efp.Theory.chainOk (Efp.Graph.slotReads g) calcs (grp.map (fun s => (g[s.toNat]!).sid)) (c.map (·.1))
      Json.mkObj [("chain", Json.arr (c.map (fun p => Json.arr #[Json.num (p.1 : Int), Json.bool p.2])).toArray),
                  ("ok", Json.bool ok)])
    let rk ← match fldOpt j "rk" with
      | some a => (do (← jArr a).toList.mapM jInt)
      | none => pure []
    let rkA : Array Nat := (rk.map (·.toNat)).toArray
    pure (Json.mkObj [("chains", Json.arr res.toArray), ("groups", Json.arr gres.toArray),
                      ("wfOk", Json.bool (Efp.Graph.wfOk g)), ("ancInChiOk", Json.bool (Efp.Graph.ancInChiOk g)),
                      ("rankOk", Json.bool (rkA.size == g.size && Efp.Graph.rankOk g rkA fuel)),
                      ("inv", Json.bool (Efp.Graph.graphInv g)), ("bidirectional", Json.bool (Efp.Graph.bidirectional g)),
                      ("liveOnly", Json.bool (Efp.Graph.liveOnly g)), ("acyclic", Json.bool (Efp.Graph.acyclic g))])
  | _ => throw s!"unknown cmd {cmd}"

partial def loop (h : IO.FS.Stream) (out : IO.FS.Stream) : IO PUnit := do
  let line ← h.getLine
  if line.isEmpty then return ()
  let t := line.trimAscii.toString
  if t.isEmpty then loop h out else
  let ans : Json := match Json.parse t with
    | .error e => Json.mkObj [("bad", s!"json: {e}")]
    | .ok j => match handle j with
      | .ok r => r
      | .error e => Json.mkObj [("bad", e)]
  out.putStrLn ans.compress
  loop h out

def main : IO PUnit := do
  loop (← IO.getStdin) (← IO.getStdout)

import Efp.Model.Basic
import Efp.Model.Series
import Efp.Model.Val
import Efp.Model.Graph
import Efp.Theory.Incr
import Efp.Model.Calc

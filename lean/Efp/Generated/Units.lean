/- GENERATED from /repo by harness/extract_schema.py — do not edit. -/
namespace Efp.Generated

/-- pint's view of every unit the models name: (name, scale to base units, exponents of
time, length, mass, cpu_core, gpu) -/
def units : List (String × Rat × List Int) := [
  ("dimensionless", (1 : Rat), [0, 0, 0, 0, 0]),
  ("hour", (3600 : Rat), [1, 0, 0, 0, 0]),
  ("kWh", (3600000 : Rat), [-2, 2, 1, 0, 0]),
  ("kg", (1 : Rat), [0, 0, 1, 0, 0]),
  ("g", ((1 : Rat) / 1000), [0, 0, 1, 0, 0]),
  ("GB", (8000000000 : Rat), [0, 0, 0, 0, 0]),
  ("TB", (8000000000000 : Rat), [0, 0, 0, 0, 0]),
  ("W", (1 : Rat), [-3, 2, 1, 0, 0]),
  ("B", (8 : Rat), [0, 0, 0, 0, 0]),
  ("cpu_core", (1 : Rat), [0, 0, 0, 1, 0]),
  ("gpu", (1 : Rat), [0, 0, 0, 0, 1]),
  ("year", (31557600 : Rat), [1, 0, 0, 0, 0]),
  ("day", (86400 : Rat), [1, 0, 0, 0, 0]),
  ("s", (1 : Rat), [1, 0, 0, 0, 0]),
  ("min", (60 : Rat), [1, 0, 0, 0, 0]),
  ("kB", (8000 : Rat), [0, 0, 0, 0, 0]),
  ("MB", (8000000 : Rat), [0, 0, 0, 0, 0]),
  ("percent", ((1 : Rat) / 100), [0, 0, 0, 0, 0]),
  ("tonne", (1000 : Rat), [0, 0, 1, 0, 0]),
  ("kW", (1000 : Rat), [-3, 2, 1, 0, 0]),
  ("Wh", (3600 : Rat), [-2, 2, 1, 0, 0]),
  ("MWh", (3600000000 : Rat), [-2, 2, 1, 0, 0])]

end Efp.Generated

/- GENERATED from /repo by harness/extract_schema.py — do not edit. -/
namespace Efp.Generated

/-- (class, class of an object whose attributes it declares as depending directly on it) -/
def dependsDirectly : List (String × String) := [
  ("BoaviztaCloudServer", "Storage"),
  ("Country", "UsagePattern"),
  ("Device", "UsagePattern"),
  ("GPUServer", "Storage"),
  ("GenAIJob", "GPUServer"),
  ("GenAIJob", "Network"),
  ("GenAIModel", "GPUServer"),
  ("GenAIModel", "GenAIJob"),
  ("Job", "BoaviztaCloudServer"),
  ("Job", "Network"),
  ("Job", "Server"),
  ("Server", "Storage"),
  ("System", "UsagePattern"),
  ("UsageJourney", "UsagePattern"),
  ("UsageJourneyStep", "GenAIJob"),
  ("UsageJourneyStep", "Job"),
  ("UsageJourneyStep", "Network"),
  ("UsageJourneyStep", "VideoStreamingJob"),
  ("UsageJourneyStep", "WebApplicationJob"),
  ("UsagePattern", "GenAIJob"),
  ("UsagePattern", "Job"),
  ("UsagePattern", "VideoStreamingJob"),
  ("UsagePattern", "WebApplicationJob"),
  ("VideoStreaming", "Server"),
  ("VideoStreaming", "VideoStreamingJob"),
  ("VideoStreamingJob", "Network"),
  ("VideoStreamingJob", "Server"),
  ("WebApplication", "Server"),
  ("WebApplication", "WebApplicationJob"),
  ("WebApplicationJob", "Network"),
  ("WebApplicationJob", "Server")]

end Efp.Generated

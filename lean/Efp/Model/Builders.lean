import Efp.Model.Calc
/-!
# Model B (part): the builders' derivation rules

A service job is shorthand for a plain job carrying derived parameters; the derivations below are
`VideoStreamingJob.update_*` and `GenAIJob.update_*` / `GenAIModel.update_base_ram_consumption`
(the web-application and cloud-server builders only look values up in shipped data tables).
-/
namespace Efp.Builders
open Efp

def MBps : Efp.Unit := ⟨8000000, { time := -1 }⟩
def cpuCore : Efp.Unit := ⟨1, { cpu := 1 }⟩
def gpuU : Efp.Unit := ⟨1, { gpu := 1 }⟩
def kB : Efp.Unit := ⟨8000, {}⟩

structure VideoIn where
  pixels : Nat                 -- width × height parsed from the resolution
  bitsPerPixel : Qty
  refreshRate : Qty
  videoDuration : Qty
  cpuCost : Qty                -- static_delivery_cpu_cost
  ramBuffer : Qty              -- ram_buffer_per_user

structure JobParams where
  dataTransferred : Qty
  requestDuration : Qty
  computeNeeded : Qty
  ramNeeded : Qty
deriving Repr, DecidableEq

/-- `update_dynamic_bitrate`: (pixel count × bits per pixel × frame rate).to(MB/s) -/
def videoBitrate (i : VideoIn) : Except Err Qty :=
  (((Qty.mk (i.pixels : Rat) U.dimless).mul i.bitsPerPixel).mul i.refreshRate).to MBps

def videoDerive (i : VideoIn) : Except Err JobParams := do
  let br ← videoBitrate i
  let data ← (i.videoDuration.mul br).to U.GB
  let cpu ← (i.cpuCost.mul br).to cpuCore
  pure ⟨data, i.videoDuration, cpu, i.ramBuffer⟩

structure GenAIIn where
  activeParams : Qty
  totalParams : Qty
  bitsPerParam : Qty
  memoryFactor : Qty
  latencyAlpha : Qty
  latencyBeta : Qty
  bitsPerToken : Qty
  outputTokens : Qty
  ramPerGpu : Qty

structure GenAIOut where
  tokenWeights : Qty
  dataTransferred : Qty
  dataStored : Qty
  requestDuration : Qty
  computeNeeded : Qty
  serviceBaseRam : Qty
deriving Repr, DecidableEq

def genaiDerive (i : GenAIIn) : Except Err GenAIOut := do
  let w ← (i.outputTokens.mul i.bitsPerToken).to kB
  let hundred : Qty := ⟨100, kB⟩
  let data ← hundred.add w
  let lat := i.outputTokens.mul (← (i.latencyAlpha.mul i.activeParams).add i.latencyBeta)
  let cpu ← (← ((i.memoryFactor.mul i.activeParams).mul i.bitsPerParam).div i.ramPerGpu).to gpuU
  let base ← ((i.memoryFactor.mul i.totalParams).mul i.bitsPerParam).to U.GB
  pure ⟨w, data, data, lat, cpu, base⟩

end Efp.Builders

import Efp.Model.Basic
/-!
# Model E: JSON export / import

The model works on *typed* attribute values (what `to_json` writes and `json_to_explainable_object`
reads); the text layer is Python's `json` module (trusted).  `encode` is `system_to_json` on the
objects reachable from the system (calculated attributes skipped), `decode` is `json_to_system`:
first pass builds the objects, second pass turns every string that is the id of an object into a
link (`attr_key != "id"`), lists of ids into lists of links.
-/
namespace Efp.JsonModel
open Efp

abbrev Source := Option (String × String)

inductive MVal
  | q (mag : Rat) (unit label : String) (source : Source)
  | h (start : Int) (vals : List Rat) (unit label : String) (source : Source)
  | empty (label : String)
  | sobj (value label : String) (source : Source)
  | link (id : String)
  | list (ids : List String)
  | raw (s : String)
  | null
deriving Repr, DecidableEq, Inhabited

structure MObj where
  cls : String
  id : String
  attrs : List (String × MVal)       -- inputs and links, in attribute order (calculated attributes excluded)
deriving Repr, DecidableEq, Inhabited

abbrev Model := List MObj

/-- what is written for a value: hourly values rounded to 3 decimals; a link becomes the id string -/
inductive JVal
  | q (mag : Rat) (unit label : String) (source : Source)
  | h (start : Int) (vals : List Rat) (unit label : String) (source : Source)
  | empty (label : String)
  | sobj (value label : String) (source : Source)
  | str (s : String)                 -- a raw string *or* the id of a linked object
  | strs (l : List String)
  | null
deriving Repr, DecidableEq, Inhabited

structure JObj where
  cls : String
  id : String
  attrs : List (String × JVal)
deriving Repr, DecidableEq, Inhabited

abbrev JSys := List JObj

def round3 (x : Rat) : Rat := roundHalfEven x 3

def encodeVal : MVal → JVal
  | .q m u l s => .q m u l s
  | .h st vs u l s => .h st (vs.map round3) u l s
  | .empty l => .empty l
  | .sobj v l s => .sobj v l s
  | .link i => .str i
  | .list is => .strs is
  | .raw s => .str s
  | .null => .null

def encodeObj (o : MObj) : JObj := ⟨o.cls, o.id, o.attrs.map (fun p => (p.1, encodeVal p.2))⟩

/-! ### which objects are written: everything reachable from the system through links and lists -/

def linksOf (o : MObj) : List String :=
  o.attrs.flatMap (fun p => match p.2 with | .link i => [i] | .list is => is | _ => [])

def find (m : Model) (i : String) : Option MObj := m.find? (·.id == i)

def succ (m : Model) (i : String) : List String :=
  match find m i with | some o => linksOf o | none => []

/-- one step of the traversal of `recursively_write_json_dict` (worklist form) -/
def step (m : Model) (st : List String × List String) : List String × List String :=
  match st.2 with
  | [] => st
  | x :: rest => if st.1.contains x then (st.1, rest) else (st.1 ++ [x], succ m x ++ rest)

def iter (m : Model) : Nat → List String × List String → List String × List String
  | 0, st => st
  | n + 1, st => iter m n (step m st)

/-- ids written, in order of first visit, and whether the traversal finished within the fuel -/
def collect (m : Model) (fuel : Nat) (root : String) : List String × Bool :=
  let r := iter m fuel ([], [root])
  (r.1, r.2.isEmpty)

def encode (m : Model) (fuel : Nat) (root : String) : JSys :=
  ((collect m fuel root).1.filterMap (find m)).map encodeObj

/-! ### import -/

def decodeVal (ids : List String) (key : String) : JVal → MVal
  | .q m u l s => .q m u l s
  | .h st vs u l s => .h st vs u l s
  | .empty l => .empty l
  | .sobj v l s => .sobj v l s
  | .str s => if key != "id" && ids.contains s then .link s else .raw s
  | .strs l => .list (l.filter ids.contains)
  | .null => .null

def decode (j : JSys) : Model :=
  let ids := j.map (·.id)
  j.map (fun o => ⟨o.cls, o.id, o.attrs.map (fun p => (p.1, decodeVal ids p.1 p.2))⟩)

/-- the model with hourly inputs rounded to 3 decimals (the documented loss) -/
def round3Val : MVal → MVal
  | .h st vs u l s => .h st (vs.map round3) u l s
  | v => v

def round3Obj (o : MObj) : MObj := ⟨o.cls, o.id, o.attrs.map (fun p => (p.1, round3Val p.2))⟩

/-- version 9 → 10 upgrade: the class key `Hardware` was renamed `Device` -/
def upgrade9to10 (j : JSys) : JSys := j.map (fun o => if o.cls == "Hardware" then { o with cls := "Device" } else o)

end Efp.JsonModel

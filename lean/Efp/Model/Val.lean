import Efp.Model.Series
/-!
# Model A (part 3): explainable values and their operators

`Val` is what an `ExplainableObject` holds: nothing (`EmptyExplainableObject`), a scalar
quantity, or an hourly series with a unit.  The operators reproduce the dispatch tables of
`__add__/__sub__/__mul__/__truediv__` of `explainable_objects.py` case by case.
-/
namespace Efp

/-- `ExplainableHourlyQuantities.value`: a one-column frame with a pint dtype. -/
structure HQ where
  vals : Series
  unit : Unit
deriving Repr, DecidableEq, Inhabited

namespace HQ
def phys (h : HQ) (t : Int) : Rat := Series.get h.vals t * h.unit.scale
def totalPhys (h : HQ) : Rat := Series.total h.vals * h.unit.scale
/-- `.pint.to(u)` on every value -/
def to (h : HQ) (u : Unit) : Except Err HQ :=
  if h.unit.dim = u.dim then .ok ⟨Series.scale (h.unit.scale / u.scale) h.vals, u⟩ else .error .dim
end HQ

inductive Val
  | empty
  | q (x : Qty)
  | h (x : HQ)
deriving Repr, DecidableEq, Inhabited

namespace Val

def isEmpty : Val → Bool
  | .empty => true
  | _ => false

/-- `.to(unit)` (in place in Python; `EmptyExplainableObject.to` returns itself) -/
def to (v : Val) (u : Unit) : Except Err Val :=
  match v with
  | .empty => .ok .empty
  | .q x => do pure (.q (← x.to u))
  | .h x => do pure (.h (← x.to u))

/-- `__add__` -/
def add (a b : Val) : Except Err Val :=
  match a, b with
  | .empty, x => .ok x                       -- Empty + Empty, and `other.__add__(self)`
  | .q x, .empty => .ok (.q x)
  | .q x, .q y => do pure (.q (← x.add y))
  | .q _, .h _ => .error .type
  | .h x, .empty => .ok (.h x)
  | .h x, .h y =>
    if x.unit.dim = y.unit.dim then
      .ok (.h ⟨Series.add x.vals (Series.scale (y.unit.scale / x.unit.scale) y.vals), x.unit⟩)
    else .error .dim
  | .h _, .q _ => .error .type

/-- `__sub__` -/
def sub (a b : Val) : Except Err Val :=
  match a, b with
  | .empty, .empty => .ok .empty
  | .empty, _ => .error .type
  | .q x, .empty => .ok (.q x)
  | .q x, .q y => do pure (.q (← x.sub y))
  | .q _, .h _ => .error .type
  | .h x, .empty => .ok (.h x)
  | .h x, .h y =>
    if x.unit.dim = y.unit.dim then do
      let s ← Series.subSame x.vals (Series.scale (y.unit.scale / x.unit.scale) y.vals)
      pure (.h ⟨s, x.unit⟩)
    else .error .dim
  | .h _, .q _ => .error .type

/-- `__mul__` -/
def mul (a b : Val) : Except Err Val :=
  match a, b with
  | .empty, _ => .ok .empty
  | _, .empty => .ok .empty
  | .q x, .q y => .ok (.q (x.mul y))
  | .q x, .h y => .ok (.h ⟨Series.scale x.mag y.vals, y.unit.mul x.unit⟩)
  | .h x, .q y => .ok (.h ⟨Series.scale y.mag x.vals, x.unit.mul y.unit⟩)
  | .h x, .h y => .ok (.h ⟨Series.mul x.vals y.vals, x.unit.mul y.unit⟩)

/-- `__truediv__` / `__rtruediv__` -/
def div (a b : Val) : Except Err Val :=
  match a, b with
  | .q x, .q y => do pure (.q (← x.div y))
  | .q x, .h y =>
    if y.vals.any (fun p => p.2 == 0) then .error .divZero
    else .ok (.h ⟨Series.mapVals (fun v => x.mag / v) y.vals, x.unit.div y.unit⟩)
  | .q _, .empty => .error .type
  | .h x, .q y =>
    if y.mag = 0 then .error .divZero
    else .ok (.h ⟨Series.mapVals (fun v => v / y.mag) x.vals, x.unit.div y.unit⟩)
  | .h _, .h _ => .error .notImplemented
  | .h _, .empty => .error .type
  | .empty, .q _ => .ok .empty
  | .empty, _ => .error .type

def ceil : Val → Val
  | .empty => .empty
  | .q x => .q x.ceil
  | .h x => .h ⟨Series.ceil x.vals, x.unit⟩

def abs : Val → Except Err Val
  | .empty => .ok .empty
  | .q _ => .error .type
  | .h x => .ok (.h ⟨Series.abs x.vals, x.unit⟩)

def neg : Val → Except Err Val
  | .h x => .ok (.h ⟨Series.neg x.vals, x.unit⟩)
  | _ => .error .type

/-- `.max()` of an hourly series (a scalar in the series' unit) -/
def max : Val → Except Err Val
  | .empty => .ok .empty
  | .q _ => .error .type
  | .h x => match Series.maxVal x.vals with
    | some m => .ok (.q ⟨m, x.unit⟩)
    | none => .error .nan

/-- `.sum()` -/
def sum : Val → Except Err Val
  | .empty => .ok .empty
  | .q _ => .error .type
  | .h x => .ok (.q ⟨Series.total x.vals, x.unit⟩)

/-- `np_compared_with(other, "max"|"min")`: positional, magnitudes compared **without unit
conversion**, result on the left index in the left unit; against Empty the comparand is 0. -/
def npCompared (isMax : Bool) (a b : Val) : Except Err Val :=
  let f : Rat → Rat → Rat := fun x y => if isMax then (if x ≥ y then x else y) else (if x ≤ y then x else y)
  match a, b with
  | .empty, .empty => .ok .empty
  | .h x, .empty => .ok (.h ⟨Series.mapVals (fun v => f v 0) x.vals, x.unit⟩)
  | .empty, .h y => .ok (.h ⟨Series.mapVals (fun v => f v 0) y.vals, y.unit⟩)
  | .h x, .h y => do pure (.h ⟨← Series.zipPos f x.vals y.vals, x.unit⟩)
  | _, _ => .error .type

/-- `return_shifted_hourly_quantities(d)`: shift by `floor(d in hours)` hours. -/
def shiftBy (a : Val) (hours : Int) : Except Err Val :=
  match a with
  | .h x => .ok (.h ⟨Series.shift hours x.vals, x.unit⟩)
  | _ => .error .type

/-- `return_shifted_hourly_quantities(d)` from the duration itself: the shift is `math.floor` of the
duration expressed in hours (also for negative durations: an instant `t + d` lies in the hour
`t + floor(d)`), whatever unit the duration is written in -/
def shiftByDuration (a : Val) (d : Qty) : Except Err Val := do
  let d' ← d.to ⟨3600, { time := 1 }⟩
  a.shiftBy d'.mag.floor

/-- `round(x, n)` (`__round__`) -/
def round (n : Nat) : Val → Val
  | .empty => .empty
  | .q x => .q ⟨roundHalfEven x.mag n, x.unit⟩
  | .h x => .h ⟨Series.round n x.vals, x.unit⟩

/-- `.magnitude` (0 for Empty) -/
def magnitude : Val → Except Err Rat
  | .empty => .ok 0
  | .q x => .ok x.mag
  | .h _ => .error .type

end Val
end Efp

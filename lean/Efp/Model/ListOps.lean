/-!
# Model D (part): list-valued links (`ListLinkedToModelingObj`)

`pyOp` is the reference: what a plain Python list does with the operation (content or exception).
`step` is what the linked list does: it computes the new content on a copy, hands it to a
`ModelingUpdate` — which *skips* a change to an equal value — and then detaches the live list
object; when the update was skipped the live list is still the one held by its owner, now detached
(finding D11).  `remove` additionally raises after the update was applied.
-/
namespace Efp.ListOps

abbrev Obj := Nat

inductive Op
  | append (x : Obj)
  | insert (i : Int) (x : Obj)
  | extend (xs : List Obj)
  | pop (i : Int)
  | delitem (i : Int)
  | setitem (i : Int) (x : Obj)
  | remove (x : Obj)
  | clear
  | assign (xs : List Obj)      -- `owner.attr = [..]`
deriving Repr, DecidableEq

inductive PyErr | indexError | valueError | attributeError
deriving Repr, DecidableEq

/-- Python index normalisation for `pop` / `del` / item assignment: negative indexes count from the end -/
def normIndex (n : Nat) (i : Int) : Option Nat :=
  if 0 ≤ i then (if i.toNat < n then some i.toNat else none)
  else (if (-i).toNat ≤ n then some (n - (-i).toNat) else none)

/-- `list.insert` clamps its index -/
def clampIndex (n : Nat) (i : Int) : Nat :=
  if 0 ≤ i then min i.toNat n else (if (-i).toNat ≤ n then n - (-i).toNat else 0)

def insertAt (l : List Obj) (k : Nat) (x : Obj) : List Obj := l.take k ++ [x] ++ l.drop k

/-- what a plain Python list does -/
def pyOp (l : List Obj) : Op → Except PyErr (List Obj)
  | .append x => .ok (l ++ [x])
  | .insert i x => .ok (insertAt l (clampIndex l.length i) x)
  | .extend xs => .ok (l ++ xs)
  | .pop i => match normIndex l.length i with
    | some k => .ok (l.eraseIdx k)
    | none => .error .indexError
  | .delitem i => match normIndex l.length i with
    | some k => .ok (l.eraseIdx k)
    | none => .error .indexError
  | .setitem i x => match normIndex l.length i with
    | some k => .ok (l.set k x)
    | none => .error .indexError
  | .remove x => if l.contains x then .ok (l.erase x) else .error .valueError
  | .clear => .ok []
  | .assign xs => .ok xs

structure LState where
  content : List Obj        -- what the owner's attribute holds
  attached : Bool           -- the list object held by the owner is attached to it
deriving Repr, DecidableEq

/-- outcome of one operation on the live list of an owner: new state and the exception raised, if any -/
def step (s : LState) (op : Op) : LState × Option PyErr :=
  match pyOp s.content op with
  | .error e => (s, some e)
  | .ok c' =>
    match op with
    | .assign _ => ({ content := c', attached := true }, none)      -- `__setattr__`: no-op assignments are skipped, nothing detached
    | .remove _ =>
      -- the update is applied (or skipped), then `value.set_modeling_obj_container` fails on the bare object
      (if c' = s.content then { s with attached := false } else { content := c', attached := true }, some .attributeError)
    | _ => if c' = s.content then ({ s with attached := false }, none) else ({ content := c', attached := true }, none)

/-- reverse look-up: the owners that reference an object are derived from the forward lists -/
def containers (owners : List (Nat × LState)) (x : Obj) : List Nat :=
  (owners.filter (fun o => o.2.content.contains x)).map (·.1)

end Efp.ListOps

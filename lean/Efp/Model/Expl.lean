import Efp.Model.Val
/-!
# Model A (part 6): explanation trees

Every operator of `explainable_objects.py` returns a new object that records its operands
(`left_parent`, `right_parent`) and the `operator` string.  `Tree` is that record; `mk*` are the
operators with recording; `explain` is the renderer.
-/
namespace Efp.Expl
open Efp

inductive Tree
  | leaf (label : String) (hasSource : Bool) (v : Val)
  | node (op : String) (label : String) (v : Val) (l : Tree) (r : Option Tree)
deriving Repr, Inhabited

def Tree.val : Tree → Val
  | .leaf _ _ v => v
  | .node _ _ v _ _ => v

def Tree.label : Tree → String
  | .leaf l _ _ => l
  | .node _ l _ _ _ => l

def mkAdd (a b : Tree) : Except Err Tree := do pure (.node "+" "" (← a.val.add b.val) a (some b))
def mkSub (a b : Tree) : Except Err Tree := do pure (.node "-" "" (← a.val.sub b.val) a (some b))
def mkMul (a b : Tree) : Except Err Tree := do pure (.node "*" "" (← a.val.mul b.val) a (some b))
def mkDiv (a b : Tree) : Except Err Tree := do pure (.node "/" "" (← a.val.div b.val) a (some b))
/-- `np_compared_with(other, "max" | "min")` -/
def mkCompared (isMax : Bool) (a b : Tree) : Except Err Tree := do
  pure (.node (if isMax then "max compared with" else "min compared with") "" (← a.val.npCompared isMax b.val) a (some b))
def mkSum (a : Tree) : Except Err Tree := do pure (.node "sum" "" (← a.val.sum) a none)
def mkAbs (a : Tree) : Except Err Tree := do pure (.node "abs" "" (← a.val.abs) a none)

/-- `set_label` -/
def setLabel (t : Tree) (l : String) : Tree :=
  match t with
  | .leaf _ s v => .leaf l s v
  | .node op _ v a b => .node op l v a b

/-- re-evaluate the recorded operation on the recorded operands -/
def evalOp (op : String) (l : Val) (r : Option Val) : Option (Except Err Val) :=
  match op, r with
  | "+", some r => some (l.add r)
  | "-", some r => some (l.sub r)
  | "*", some r => some (l.mul r)
  | "/", some r => some (l.div r)
  | "max compared with", some r => some (l.npCompared true r)
  | "min compared with", some r => some (l.npCompared false r)
  | "sum", none => some l.sum
  | "abs", none => some l.abs
  | _, _ => none            -- named operators without an arithmetic meaning

/-- every recorded arithmetic step reproduces the displayed value -/
def wellRecorded : Tree → Bool
  | .leaf l _ _ => !l.isEmpty
  | .node op _ v l r =>
    (match evalOp op l.val (r.map Tree.val) with
     | some (.ok v') => v' == v
     | some (.error _) => false
     | none => true)
    && wellRecorded l && (match r with | some r => wellRecorded r | none => true)

/-- the renderer: `label = formula with labels = formula with values = value`; total -/
def render : Tree → String
  | .leaf l _ _ => l
  | .node op _ _ l none => s!"{op} of ({render l})"
  | .node op _ _ l (some r) => s!"{render l} {op} {render r}"

def explain (t : Tree) : String :=
  match t with
  | .leaf l _ _ => s!"{l} = <value>"
  | .node _ l _ _ _ => s!"{l} = {render t} = <value>"

end Efp.Expl

import Efp.Model.Basic
/-!
# Model A (part 2): sparse hourly series

A series is a key-sorted association list; a key is a UTC (or naive local) instant in
seconds since the epoch.  `Sorted` (strictly increasing keys) is a separate invariant, never
a subtype.  Each primitive names the pandas/numpy call it stands for: this list *is* the
assumed pandas contract, tested by the `K-qty` correspondence suite.
-/
namespace Efp

abbrev Series := List (Int × Rat)

namespace Series

def keys (s : Series) : List Int := s.map Prod.fst
def vals (s : Series) : List Rat := s.map Prod.snd

/-- value at `t`, missing hours count as zero -/
def get (s : Series) (t : Int) : Rat :=
  match s.find? (fun p => p.1 == t) with
  | some p => p.2
  | none => 0

def total (s : Series) : Rat := (s.map Prod.snd).sum

/-- strictly increasing keys -/
def Sorted (s : Series) : Prop := List.Pairwise (· < ·) (keys s)

instance (s : Series) : Decidable (Sorted s) := by unfold Sorted; exact inferInstance

def insertKey (t : Int) : List Int → List Int
  | [] => [t]
  | k :: ks => if t < k then t :: k :: ks else if t = k then k :: ks else k :: insertKey t ks

/-- sorted union of two key lists (the index alignment pandas performs) -/
def unionKeys (a b : List Int) : List Int := b.foldl (fun acc t => insertKey t acc) a

/-- `df.add(other, fill_value=0)`: union index, a missing hour counts as 0. -/
def add (a b : Series) : Series :=
  (unionKeys (keys a) (keys b)).map (fun t => (t, get a t + get b t))

/-- `df.mul(other, fill_value=0)` between two frames: union index, missing ↦ 0. -/
def mul (a b : Series) : Series :=
  (unionKeys (keys a) (keys b)).map (fun t => (t, get a t * get b t))

/-- `df - other`: defined only on equal indexes; otherwise pandas yields NaN. -/
def subSame (a b : Series) : Except Err Series :=
  if keys a = keys b then .ok (a.map (fun p => (p.1, p.2 - get b p.1))) else .error .nan

def mapVals (f : Rat → Rat) (a : Series) : Series := a.map (fun p => (p.1, f p.2))

/-- multiplication by a scalar -/
def scale (c : Rat) (a : Series) : Series := mapVals (c * ·) a

def neg (a : Series) : Series := mapVals (fun x => -x) a
def abs (a : Series) : Series := mapVals (fun x => if x < 0 then -x else x) a
def ceil (a : Series) : Series := mapVals (fun x => ((x.ceil : Int) : Rat)) a
def round (n : Nat) (a : Series) : Series := mapVals (fun x => roundHalfEven x n) a

/-- `df.shift(k, freq="h")` with `k` hours: every key moves by `3600·k` seconds. -/
def shift (k : Int) (a : Series) : Series := a.map (fun p => (p.1 + 3600 * k, p.2))

def cumsumAux : Rat → Series → Series
  | _, [] => []
  | acc, (k, v) :: rest => (k, acc + v) :: cumsumAux (acc + v) rest

/-- `df.cumsum()` -/
def cumsum (a : Series) : Series := cumsumAux 0 a

def maxVal : Series → Option Rat
  | [] => none
  | (_, v) :: rest => some (rest.foldl (fun m p => if p.2 > m then p.2 else m) v)

def minVal : Series → Option Rat
  | [] => none
  | (_, v) :: rest => some (rest.foldl (fun m p => if p.2 < m then p.2 else m) v)

def maxKey : Series → Option Int
  | [] => none
  | (k, _) :: rest => some (rest.foldl (fun m p => if p.1 > m then p.1 else m) k)

def minKey : Series → Option Int
  | [] => none
  | (k, _) :: rest => some (rest.foldl (fun m p => if p.1 < m then p.1 else m) k)

/-- `np.maximum/np.minimum(self.to_numpy(), other.to_numpy())`: **positional**, index of the
left operand; a right operand of length 1 is broadcast by numpy; any other length mismatch is a
numpy broadcast error (or a pandas length error when the left operand has length 1). -/
def zipPos (f : Rat → Rat → Rat) (a b : Series) : Except Err Series :=
  if a.length = b.length then .ok (List.zipWith (fun p q => (p.1, f p.2 q.2)) a b)
  else match b with
    | [q] => .ok (a.map (fun p => (p.1, f p.2 q.2)))
    | _ => .error .shape

/-- a constant series on the index of `a` (`np.full(len(a), c)` with `a`'s index) -/
def constLike (a : Series) (c : Rat) : Series := a.map (fun p => (p.1, c))

/-- `df[df.index >= d]` -/
def filterFrom (d : Int) (a : Series) : Series := a.filter (fun p => decide (p.1 ≥ d))

/-- `df[df.index <= d]` -/
def truncateTo (d : Int) (a : Series) : Series := a.filter (fun p => decide (p.1 ≤ d))

/-- `df.iat[0, 0] += c` -/
def bumpFirst (c : Rat) : Series → Series
  | [] => []
  | (k, v) :: rest => (k, v + c) :: rest

/-- hourly `pd.date_range(start, periods=n, freq="h")` filled from a list -/
def ofList (start : Int) (vs : List Rat) : Series :=
  (List.range vs.length).zip vs |>.map (fun p => (start + 3600 * (p.1 : Int), p.2))

/-- insert a (key, value) into a key-sorted series, **summing** on an equal key:
`groupby(index).sum()` + `sort_index()` -/
def insertSum (k : Int) (v : Rat) : Series → Series
  | [] => [(k, v)]
  | (k', v') :: rest =>
    if k < k' then (k, v) :: (k', v') :: rest
    else if k = k' then (k', v' + v) :: rest
    else (k', v') :: insertSum k v rest

/-- sort by key and fuse equal keys by summing -/
def dedupSum (a : Series) : Series := a.foldl (fun acc p => insertSum p.1 p.2 acc) []

def hasDupKeys : List Int → Bool
  | [] => false
  | k :: ks => ks.contains k || hasDupKeys ks

end Series
end Efp

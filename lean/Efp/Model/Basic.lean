/-!
# Model A (part 1): dimensions, units, scalar quantities

Mathlib-free, executable, total.  A pint `Quantity` is modelled as a magnitude (ℚ, the
exact value of the Python float) and a unit; a unit is its scale to pint's base units
(kilogram, meter, second, cpu_core, gpu; `bit` is *dimensionless* in pint) and its
dimension vector.  IEEE rounding is not modelled (see DESIGN.md §9).
-/
namespace Efp

/-- Errors the real code raises, mapped to a small enum (DESIGN §5.3). -/
inductive Err
  | dim          -- pint DimensionalityError
  | type         -- ValueError / TypeError from operator dispatch
  | nan          -- the Python value contains NaN (index mismatch in `-`)
  | shape        -- numpy broadcast error (positional comparison on unequal lengths)
  | divZero      -- division by an exact zero (Python: inf / ZeroDivisionError)
  | capacity     -- server base consumption exceeds capacity
  | fixedInstances
  | negStorage
  | notImplemented
  | other (msg : String)
deriving Repr, DecidableEq, Inhabited

def Err.tag : Err → String
  | .dim => "dim" | .type => "type" | .nan => "nan" | .shape => "shape" | .divZero => "divzero"
  | .capacity => "capacity" | .fixedInstances => "fixed-instances" | .negStorage => "neg-storage"
  | .notImplemented => "not-implemented" | .other m => "other:" ++ m

/-- Dimension vector: exponents of time, length, mass, cpu_core, gpu. -/
structure Dim where
  time : Int := 0
  length : Int := 0
  mass : Int := 0
  cpu : Int := 0
  gpu : Int := 0
deriving Repr, DecidableEq, Inhabited

namespace Dim
def zero : Dim := {}
def add (a b : Dim) : Dim :=
  ⟨a.time + b.time, a.length + b.length, a.mass + b.mass, a.cpu + b.cpu, a.gpu + b.gpu⟩
def neg (a : Dim) : Dim := ⟨-a.time, -a.length, -a.mass, -a.cpu, -a.gpu⟩
def sub (a b : Dim) : Dim := add a (neg b)
end Dim

/-- A unit: `1 unit = scale` base units (`scale > 0` is a separate hypothesis where needed). -/
structure Unit where
  scale : Rat
  dim : Dim
deriving Repr, DecidableEq, Inhabited

namespace Unit
def mul (a b : Unit) : Unit := ⟨a.scale * b.scale, a.dim.add b.dim⟩
def div (a b : Unit) : Unit := ⟨a.scale / b.scale, a.dim.sub b.dim⟩
def dimensionless : Unit := ⟨1, {}⟩
end Unit

/-- A scalar quantity (`ExplainableQuantity.value`). -/
structure Qty where
  mag : Rat
  unit : Unit
deriving Repr, DecidableEq, Inhabited

namespace Qty

/-- Physical value in base units: what is invariant under `.to`. -/
def phys (q : Qty) : Rat := q.mag * q.unit.scale

/-- `Quantity.to(u)`: dimension mismatch raises, otherwise the magnitude is re-expressed. -/
def to (q : Qty) (u : Unit) : Except Err Qty :=
  if q.unit.dim = u.dim then .ok ⟨q.phys / u.scale, u⟩ else .error .dim

/-- `a + b` in pint: result in `a`'s unit. -/
def add (a b : Qty) : Except Err Qty :=
  if a.unit.dim = b.unit.dim then .ok ⟨a.mag + b.phys / a.unit.scale, a.unit⟩ else .error .dim

def sub (a b : Qty) : Except Err Qty :=
  if a.unit.dim = b.unit.dim then .ok ⟨a.mag - b.phys / a.unit.scale, a.unit⟩ else .error .dim

def mul (a b : Qty) : Qty := ⟨a.mag * b.mag, a.unit.mul b.unit⟩

/-- `a / b`; an exact zero divisor is an error in the model (Python: inf or ZeroDivisionError). -/
def div (a b : Qty) : Except Err Qty :=
  if b.mag = 0 then .error .divZero else .ok ⟨a.mag / b.mag, a.unit.div b.unit⟩

def neg (a : Qty) : Qty := ⟨-a.mag, a.unit⟩

/-- `np.ceil(value)`: ceiling of the magnitude *in the current unit*. -/
def ceil (a : Qty) : Qty := ⟨(a.mag.ceil : Int), a.unit⟩

/-- `self.value >= other.value` (pint compares physically; mismatch raises). -/
def ge (a b : Qty) : Except Err Bool :=
  if a.unit.dim = b.unit.dim then .ok (decide (a.phys ≥ b.phys)) else .error .dim

def gt (a b : Qty) : Except Err Bool :=
  if a.unit.dim = b.unit.dim then .ok (decide (a.phys > b.phys)) else .error .dim

/-- `compare_with_and_return_max`. -/
def max (a b : Qty) : Except Err Qty := do
  if (← ge a b) then pure a else pure b

end Qty

/-- Round half to even at `n` decimals (numpy / Python `round`) over ℚ. -/
def roundHalfEven (x : Rat) (n : Nat) : Rat :=
  let s : Rat := (10 : Rat) ^ n
  let y := x * s
  let f := y.floor
  let r := y - f
  let k : Int := if r < 1/2 then f else if r > 1/2 then f + 1 else (if f % 2 = 0 then f else f + 1)
  (k : Rat) / s

end Efp

/-!
# Model D (part): which value object sits in which attribute slot

`St` records, for every attribute slot (container, attribute[, dict key]) the identity of the
`ObjectLinkedToModelingObj` it holds, and for every such object the slot it is attached to.
`replace` is `replace_in_mod_obj_container_without_recomputation`; `setUpdated` / `resetVals` are
`ModelingUpdate.set_updated_values` / `reset_values` over the zipped lists
`all_previous_obj_linked_to_mod_obj` / `all_new_obj_linked_to_mod_obj`.
-/
namespace Efp.Store

abbrev Slot := Nat
abbrev NodeId := Nat

structure St where
  content : Slot → Option NodeId
  slotOf : NodeId → Option Slot

/-- `old.replace_in_mod_obj_container_without_recomputation(new)`; Python asserts `old` is attached -/
def replace (s : St) (old new : NodeId) : St :=
  match s.slotOf old with
  | none => s
  | some k =>
    { content := fun k' => if k' = k then some new else s.content k',
      slotOf := fun n => if n = new then some k else if n = old then none else s.slotOf n }

/-- `set_updated_values`: every previous object is replaced by its new twin -/
def setUpdated (s : St) (pairs : List (NodeId × NodeId)) : St :=
  pairs.foldl (fun s p => replace s p.1 p.2) s

/-- `reset_values`: every new object is replaced by the previous one, in the same list order -/
def resetVals (s : St) (pairs : List (NodeId × NodeId)) : St :=
  pairs.foldl (fun s p => replace s p.2 p.1) s

/-- the simulation object: the pairs and the flag `updated_values_set` -/
structure Sim where
  pairs : List (NodeId × NodeId)
  isSet : Bool

inductive Toggle | set | reset
deriving DecidableEq, Repr

/-- `set_updated_values()` / `reset_values()` with their `updated_values_set` guards -/
def toggle (st : St × Sim) (t : Toggle) : St × Sim :=
  match t with
  | .set => if st.2.isSet then st else (setUpdated st.1 st.2.pairs, { st.2 with isSet := true })
  | .reset => if st.2.isSet then (resetVals st.1 st.2.pairs, { st.2 with isSet := false }) else st

end Efp.Store

/-!
# Model F: bookkeeping of the dependency links between values

Literal port of `ExplainableObject.__init__` (ancestors of a new value),
`set_modeling_obj_container`, `add_child_to_direct_children_with_id`,
`remove_child_from_direct_children_with_id`, `ModelingObject.__setattr__` (calculated attributes
and attributes set while `trigger_modeling_updates` is off) and
`ObjectLinkedToModelingObj.replace_in_mod_obj_container_without_recomputation` (plain attributes).

A value is an index into a heap (its Python identity).  Its *id* is the slot it is attached to
(`attr-in-object`), and exists only while it is attached: asking a detached value for its id raises.
-/
namespace Efp.Links

abbrev Slot := Nat × Nat          -- (modeling object, attribute)

structure LV where
  cont : Option Slot := none
  anc : List Nat := []            -- direct_ancestors_with_id
  chi : List Nat := []            -- direct_children_with_id
deriving Repr, Inhabited, DecidableEq

/-- the heap is a function from identities to values (`size` identities are in use) -/
structure LS where
  heap : Nat → LV := fun _ => {}
  size : Nat := 0
  slots : List (Slot × Nat) := []   -- what each attribute currently holds (most recent first)
  /-- attributes that hold an `ExplainableObjectDict` (attribute number ≥ 100): key ↦ value -/
  dicts : List (Slot × List (Nat × Nat)) := []
deriving Inhabited

inductive LErr
  | noId              -- `.id` of a value without container
  | otherContainer    -- already linked to another modeling object
  | notAttached       -- replace on a value that is not linked
  | badRef            -- (driver only) reference to a value that does not exist
  | keyError          -- replace on a dict-held value that its dict does not hold any more
  | multipleKeys      -- … or holds under several keys
deriving Repr, DecidableEq, Inhabited

abbrev LM := Except LErr

def LS.get (s : LS) (v : Nat) : LV := s.heap v
def LS.setV (s : LS) (v : Nat) (f : LV → LV) : LS :=
  { s with heap := fun w => if w = v then f (s.heap w) else s.heap w }
def LS.holds (s : LS) (sl : Slot) : Option Nat := (s.slots.find? (fun p => p.1 == sl)).map (·.2)
def LS.setSlot (s : LS) (sl : Slot) (v : Nat) : LS := { s with slots := (sl, v) :: s.slots.filter (fun p => p.1 != sl) }

def idOf (s : LS) (v : Nat) : LM Slot :=
  match (s.get v).cont with
  | some c => .ok c
  | none => .error .noId

def LS.attached (s : LS) (v : Nat) : Bool := (s.get v).cont.isSome

/-- the pure effect of `remove_child_from_direct_children_with_id` -/
def removeChildP (s : LS) (a : Nat) (sid : Slot) : LS :=
  s.setV a (fun x => { x with chi := x.chi.filter (fun c => (s.get c).cont != some sid) })

/-- `remove_child_from_direct_children_with_id(direct_child)` with `direct_child.id = sid`:
comparing ids raises as soon as a listed child has no container -/
def removeChild (s : LS) (a : Nat) (sid : Slot) : LM LS :=
  if (s.get a).chi.all s.attached then .ok (removeChildP s a sid) else .error .noId

/-- the pure effect of `add_child_to_direct_children_with_id` for a child whose id is `vid` -/
def addChildP (s : LS) (a v : Nat) (vid : Slot) : LS :=
  if (s.get a).chi.any (fun c => (s.get c).cont == some vid) then s
  else s.setV a (fun x => { x with chi := x.chi ++ [v] })

/-- `add_child_to_direct_children_with_id(direct_child = v)` -/
def addChild (s : LS) (a v : Nat) : LM LS :=
  match (s.get v).cont with
  | none => .error .noId
  | some vid => if (s.get a).chi.all s.attached then .ok (addChildP s a v vid) else .error .noId

def removeLoop (s : LS) (ancs : List Nat) (sid : Slot) : LM LS := ancs.foldlM (fun st a => removeChild st a sid) s
def addLoop (s : LS) (ancs : List Nat) (v : Nat) : LM LS := ancs.foldlM (fun st a => addChild st a v) s

/-- already linked to another modeling object -/
def containerClash : Option Slot → Option Slot → Bool
  | some c, some n => c.1 != n.1
  | _, _ => false

/-- `ExplainableObject.set_modeling_obj_container` -/
def setContainer (s : LS) (v : Nat) (new : Option Slot) : LM LS :=
  if containerClash (s.get v).cont new then .error .otherContainer else
  match (match (s.get v).cont with
         | some c => removeLoop s (s.get v).anc c
         | none => .ok s) with
  | .error e => .error e
  | .ok s1 =>
    let s2 := s1.setV v (fun x => { x with cont := new })
    match new with
    | some _ => addLoop s2 (s2.get v).anc v
    | none => .ok s2

/-- `return_direct_ancestors_with_id_to_child` -/
def retAnc (s : LS) (p : Nat) : List Nat :=
  if (s.get p).cont.isSome then [p] else (s.get p).anc.filter (fun a => (s.get a).cont.isSome)

/-- the recorded ancestors of a new value computed from `parents` (left, right): what each parent
returns, minus the ids already recorded (every value involved is attached, so every id exists) -/
def mkAnc (s : LS) (parents : List Nat) : List Nat :=
  parents.foldl (fun (acc : List Nat) p =>
    acc ++ (retAnc s p).filter (fun a => !(acc.map (fun x => (s.get x).cont)).contains (s.get a).cont)) []

/-- allocate a value with the given recorded ancestors -/
def alloc (s : LS) (anc : List Nat) : LS :=
  { s with heap := fun w => if w = s.size then { anc := anc } else s.heap w, size := s.size + 1 }

def mk (s : LS) (parents : List Nat) : LS × Nat := (alloc s (mkAnc s parents), s.size)

/-- `ModelingObject.__setattr__` for a calculated attribute (or with updates off): the attribute is
set, the previous value is unlinked, the new one is linked -/
def setAttr (s : LS) (sl : Slot) (v : Nat) : LM LS :=
  let sA := s.setSlot sl v
  match (match s.holds sl with
         | some o => setContainer sA o none
         | none => .ok sA) with
  | .error e => .error e
  | .ok sB => setContainer sB v (some sl)

/-- `replace_in_mod_obj_container_without_recomputation` (plain attribute) -/
def replace (s : LS) (old new : Nat) : LM LS :=
  match (s.get old).cont with
  | none => .error .notAttached
  | some sl =>
    match setContainer (s.setSlot sl new) old none with
    | .error e => .error e
    | .ok sB => setContainer sB new (some sl)

/-! ### values held in an `ExplainableObjectDict` (all entries of one dict share the id of the dict's slot) -/

def isDictSlot (sl : Slot) : Bool := sl.2 ≥ 100

def LS.entries (s : LS) (sl : Slot) : List (Nat × Nat) :=
  match s.dicts.find? (fun p => p.1 == sl) with
  | some p => p.2
  | none => []

def LS.setEntry (s : LS) (sl : Slot) (key v : Nat) : LS :=
  let es := (s.entries sl).filter (fun p => p.1 != key) ++ [(key, v)]
  { s with dicts := (sl, es) :: s.dicts.filter (fun p => p.1 != sl) }

/-- `ExplainableObjectDict.__setitem__`: the entry is stored, the value is linked (a value previously
stored under the key is **not** unlinked) -/
def dictSet (s : LS) (sl : Slot) (key v : Nat) : LM LS :=
  setContainer (s.setEntry sl key v) v (some sl)

/-- `replace_in_mod_obj_container_without_recomputation` for a value held in a dict:
`dict[key] = new` (which links `new` while `old` is still linked), then `old` is unlinked, then
`new` is linked again -/
def replaceInDict (s : LS) (old new : Nat) : LM LS :=
  match (s.get old).cont with
  | none => .error .notAttached
  | some sl =>
    if ((s.entries sl).filter (fun p => p.2 == old)).length > 1 then .error .multipleKeys else
    match (s.entries sl).find? (fun p => p.2 == old) with
    | none => .error .keyError
    | some (key, _) =>
      match dictSet s sl key new with
      | .error e => .error e
      | .ok s1 =>
        match setContainer s1 old none with
        | .error e => .error e
        | .ok s2 => setContainer s2 new (some sl)

/-- the same without the final re-linking (what an "already linked, nothing to do" shortcut in
`set_modeling_obj_container` amounts to: seeded change C05-a) -/
def replaceInDictNoRelink (s : LS) (old new : Nat) : LM LS :=
  match (s.get old).cont with
  | none => .error .notAttached
  | some sl =>
    match (s.entries sl).find? (fun p => p.2 == old) with
    | none => .error .keyError
    | some (key, _) =>
      match dictSet s sl key new with
      | .error e => .error e
      | .ok s1 => setContainer s1 old none

/-- the same with the two last lines swapped (seeded change C08-a) -/
def replaceAttachFirst (s : LS) (old new : Nat) : LM LS :=
  match (s.get old).cont with
  | none => .error .notAttached
  | some sl =>
    match setContainer (s.setSlot sl new) new (some sl) with
    | .error e => .error e
    | .ok sB => setContainer sB old none

inductive Op
  | mk (parents : List Nat)
  | setAttr (sl : Slot) (v : Nat)
  | replace (old new : Nat)
  | detach (v : Nat)
  | dictSet (sl : Slot) (key v : Nat)
deriving Repr

def step (s : LS) : Op → LM LS
  | .mk ps => if ps.all (· < s.size) then .ok (mk s ps).1 else .error .badRef
  | .setAttr sl v => if v < s.size ∧ isDictSlot sl = false then setAttr s sl v else .error .badRef
  | .replace o n =>
    if o < s.size ∧ n < s.size then
      (match (s.get o).cont with
       | some sl => if isDictSlot sl then replaceInDict s o n else replace s o n
       | none => replace s o n)
    else .error .badRef
  | .dictSet sl key v => if v < s.size ∧ isDictSlot sl then dictSet s sl key v else .error .badRef
  | .detach v => if v < s.size then setContainer s v none else .error .badRef

def run (ops : List Op) : LM LS := ops.foldlM step {}

/-- operations that do not involve values held in dicts -/
def Op.isPlain : Op → Bool
  | .dictSet _ _ _ => false
  | _ => true

/-! ## the invariant, as an executable test -/

/-- every attached value is listed as a child by each of its recorded ancestors, and every listed
child is attached and lists the parent as an ancestor -/
def mirrorOk (s : LS) : Bool :=
  (List.range s.size).all (fun v =>
    ((s.get v).cont.isNone || (s.get v).anc.all (fun a => (s.get a).chi.contains v)) &&
    (s.get v).chi.all (fun c => (s.get c).cont.isSome && (s.get c).anc.contains v))

/-- only values currently held by the model are recorded as ancestors of attached values -/
def liveOk (s : LS) : Bool :=
  (List.range s.size).all (fun v => (s.get v).cont.isNone || (s.get v).anc.all (fun a => (s.get a).cont.isSome))

/-- at most one attached value per slot, and it is the one the slot holds -/
def slotOk (s : LS) : Bool :=
  (List.range s.size).all (fun v =>
    match (s.get v).cont with
    | some sl => s.holds sl == some v
    | none => true)

end Efp.Links

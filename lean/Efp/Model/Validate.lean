import Efp.Generated.Schema
/-!
# Model D (part): input validation

`checkInput` is `ModelingObject.check_input_value_type_positivity_and_unit` driven by the generated
parameter table (`Generated.params`: class, parameter, annotation kind, has default, dimension of the
default, may be negative).  The *value* offered is described abstractly by `InVal`.
`update` is the validation-relevant skeleton of `ModelingUpdate.__init__`: parse (pure, before any
mutation) → apply → allowed-values check (after apply, as in the code) → recompute.
-/
namespace Efp.Validate
open Efp.Generated

/-- what is offered as a value -/
inductive InVal
  | quantity (dim : List Int) (negative : Bool)
  | hourly
  | empty                      -- EmptyExplainableObject (accepted everywhere)
  | sobj (allowed : Bool)      -- a SourceObject; `allowed` = its value is in the attribute's allowed list (if any)
  | pyfloat
  | pystr
  | modeling (cls : String)
  | list (clss : List String)
deriving Repr, DecidableEq

inductive VErr | type | dim | neg | listType | notAllowed | immutable
deriving Repr, DecidableEq

def VErr.tag : VErr → String
  | .type => "type" | .dim => "dim" | .neg => "neg" | .listType => "list-type" | .notAllowed => "not-allowed"
  | .immutable => "immutable"

abbrev Row := String × String × String × Bool × List Int × Bool

def Row.kind (r : Row) : String := r.2.2.1
def Row.hasDefault (r : Row) : Bool := r.2.2.2.1
def Row.dim (r : Row) : List Int := r.2.2.2.2.1
def Row.mayBeNegative (r : Row) : Bool := r.2.2.2.2.2

def findRow (cls param : String) : Option Row := params.find? (fun r => r.1 == cls && r.2.1 == param)

/-- `issubclass(cls, target)` from the generated MRO table -/
def isSubclass (cls target : String) : Bool :=
  cls == target || (match classBases.find? (·.1 == cls) with | some p => p.2.contains target | none => false)

/-- `isinstance(value, annotation)` for the annotation kinds of the table -/
def isInstance (kind : String) (v : InVal) : Bool :=
  match v with
  | .empty => true
  | .quantity _ _ => kind == "quantity" || kind == "object"
  | .hourly => kind == "hourly" || kind == "object"
  | .sobj _ => kind == "object" || kind == "sourceobject"
  | .pyfloat => false
  | .pystr => kind == "str"
  | .modeling c => kind.startsWith "modeling:" && isSubclass c (kind.drop 9).toString
  | .list _ => false

/-- `check_input_value_type_positivity_and_unit` -/
def checkInput (r : Row) (v : InVal) : Except VErr Unit :=
  let kind := r.kind
  if kind.startsWith "list:" then
    match v with
    | .list clss => if clss.all (fun c => isSubclass c (kind.drop 5).toString) then .ok () else .error .listType
    | _ => .error .type        -- iterating a non-list raises TypeError
  else if kind == "union" || kind == "none" then .ok ()
  else if !isInstance kind v then .error .type
  else if kind == "quantity" then
    match v with
    | .quantity d n =>
      if d != r.dim then .error .dim
      else if n && !r.mayBeNegative then .error .neg
      else .ok ()
    | _ => .ok ()
  else .ok ()

/-- outcome of an update as far as validation is concerned -/
inductive Outcome
  | refusedBeforeApply (e : VErr)       -- nothing was mutated
  | refusedAfterApply (e : VErr)        -- the new value is installed (finding D8)
  | accepted
deriving Repr, DecidableEq

/-- attributes whose single assignment after construction is refused outright by the class's own
`__setattr__` (`GenAIModel.provider`, `BoaviztaCloudServer.provider`) -/
def immutableAfterInit : List (String × String) := [("GenAIModel", "provider"), ("BoaviztaCloudServer", "provider")]

def update (r : Row) (v : InVal) : Outcome :=
  if immutableAfterInit.contains (r.1, r.2.1) then .refusedBeforeApply .immutable else
  match checkInput r v with
  | .error e => .refusedBeforeApply e
  | .ok () =>
    match v with
    | .sobj false => .refusedAfterApply .notAllowed
    | _ => .accepted

end Efp.Validate

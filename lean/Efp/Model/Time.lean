import Efp.Model.Val
/-!
# Model A (part 4): time zones and local → UTC conversion

A zone is what pandas reads from a pytz zone: the offset in force before the first listed
transition and a list of `(utc instant, new utc offset)` transitions, sorted by instant.
`resolveLocal` implements `tz_localize(nonexistent="shift_forward", ambiguous=True)`;
`convertToUtc` is `ExplainableHourlyQuantities.convert_to_utc`: localize → convert →
fuse duplicates by summing → sort (always, since the `fix:` commit for finding D7).
-/
namespace Efp

structure Zone where
  initOffset : Int
  transitions : List (Int × Int)     -- (utc instant, offset in force from that instant on)
  /-- the zone's very first offset (LMT) is east of Greenwich: pandas uses its sign when it looks
      up the offset to apply to a shifted nonexistent time -/
  eastFirst : Bool := true
deriving Repr, DecidableEq, Inhabited

namespace Zone

/-- offset periods: `(start?, end?, offset)`; `none` = unbounded -/
def periodsAux : Option Int → Int → List (Int × Int) → List (Option Int × Option Int × Int)
  | st, off, [] => [(st, none, off)]
  | st, off, (t, o) :: rest => (st, some t, off) :: periodsAux (some t) o rest

def periods (z : Zone) : List (Option Int × Option Int × Int) :=
  periodsAux none z.initOffset z.transitions

/-- all UTC instants `u` whose wall-clock time in the zone is `l` -/
def candidates (z : Zone) (l : Int) : List Int :=
  z.periods.filterMap (fun (st, en, off) =>
    let u := l - off
    let okS := match st with | none => true | some s => decide (s ≤ u)
    let okE := match en with | none => true | some e => decide (u < e)
    if okS && okE then some u else none)

/-- offset in force at position `i` of the full offset table (entry 0 = initial offset);
positions past the end read the last entry -/
def deltaAt (z : Zone) (i : Nat) : Int :=
  if i = 0 then z.initOffset
  else match z.transitions[i - 1]? with
    | some p => p.2
    | none => match z.transitions.getLast? with
      | some p => p.2
      | none => z.initOffset

/-- `tz_localize(nonexistent="shift_forward", ambiguous=True)`: an existing wall-clock time maps
to its (first, for a repeated hour) UTC instant.  A skipped one is handled as pandas 2.2 does in
`tz_localize_to_utc`: the wall-clock time is moved to the next whole hour `l'`; pandas then bisects
the table of **UTC** transition instants with the **local** value `l'` (`c` = number of table
entries ≤ `l'`), and subtracts the offset at position `c-1` when that offset is ≥ 0 or the zone's
first offset is positive, else the offset at position `c`.  For the usual one-hour gaps the result
is the transition instant; for 15/30/45-minute gaps it is the next whole local hour; for zones
that changed hemisphere (Apia, Kwajalein, Rarotonga) it can be read with the old offset.
Established against pandas on every gap of every pytz zone and re-checked by the K-tz suite. -/
def resolveLocal (z : Zone) (l : Int) : Int :=
  match z.candidates l with
  | u :: _ => u
  | [] =>
    let l' := l + (3600 - l % 3600)
    let c := 1 + (z.transitions.filter (fun p => decide (p.1 ≤ l'))).length
    let idx := if z.deltaAt (c - 1) ≥ 0 then c - 1 else if z.eastFirst then c - 1 else c
    l' - z.deltaAt idx

end Zone

/-- `convert_to_utc`: map keys through `resolve`, fuse duplicate keys by summing, sort by key. -/
def convertToUtcWith (resolve : Int → Int) (s : Series) : Series :=
  Series.dedupSum (s.map (fun p => (resolve p.1, p.2)))

def convertToUtc (z : Zone) (s : Series) : Series := convertToUtcWith z.resolveLocal s

end Efp

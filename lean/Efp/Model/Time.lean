import Efp.Model.Val
/-!
# Model A (part 4): time zones and local → UTC conversion

A zone is what pandas reads from a pytz zone: the offset in force before the first listed
transition and a list of `(utc instant, new utc offset)` transitions, sorted by instant.
`resolveLocal` implements `tz_localize(nonexistent="shift_forward", ambiguous=True)`;
`convertToUtc` is `ExplainableHourlyQuantities.convert_to_utc`: localize → convert →
fuse duplicates by summing (→ sort **only** in the duplicate branch, as the code does).
-/
namespace Efp

structure Zone where
  initOffset : Int
  transitions : List (Int × Int)     -- (utc instant, offset in force from that instant on)
deriving Repr, DecidableEq, Inhabited

namespace Zone

/-- offset periods: `(start?, end?, offset)`; `none` = unbounded -/
def periodsAux : Option Int → Int → List (Int × Int) → List (Option Int × Option Int × Int)
  | st, off, [] => [(st, none, off)]
  | st, off, (t, o) :: rest => (st, some t, off) :: periodsAux (some t) o rest

def periods (z : Zone) : List (Option Int × Option Int × Int) :=
  periodsAux none z.initOffset z.transitions

/-- all UTC instants `u` whose wall-clock time in the zone is `l` -/
def candidates (z : Zone) (l : Int) : List Int :=
  z.periods.filterMap (fun (st, en, off) =>
    let u := l - off
    let okS := match st with | none => true | some s => decide (s ≤ u)
    let okE := match en with | none => true | some e => decide (u < e)
    if okS && okE then some u else none)

/-- `tz_localize(nonexistent="shift_forward", ambiguous=True)`: an existing wall-clock time maps
to its (first, for a repeated hour) UTC instant; a skipped one maps to the transition instant
that skipped it. -/
def resolveLocal (z : Zone) (l : Int) : Int :=
  match z.candidates l with
  | u :: _ => u
  | [] =>
    -- nonexistent: the transition `t` (old offset `o₀` → new `o₁`) with  l - o₀ ≥ t  and  l - o₁ < t
    let rec go : Int → List (Int × Int) → Int
      | off, [] => l - off
      | off, (t, o) :: rest => if l - off ≥ t && l - o < t then t else go o rest
    go z.initOffset z.transitions

end Zone

/-- `convert_to_utc`: map keys through `resolve`; if the result has duplicate keys, fuse them by
summing and sort; otherwise leave the order as produced. -/
def convertToUtcWith (resolve : Int → Int) (s : Series) : Series :=
  let m : Series := s.map (fun p => (resolve p.1, p.2))
  if Series.hasDupKeys (Series.keys m) then Series.dedupSum m else m

def convertToUtc (z : Zone) (s : Series) : Series := convertToUtcWith z.resolveLocal s

end Efp

import Efp.Model.Series
/-!
# Model A (part 5): calendar arithmetic and the hourly-series builders of `builders/time_builders.py`

Timestamps are seconds since 1970-01-01 00:00 (naive).  The calendar is the proleptic Gregorian one
(what `datetime`/pandas use); `civilFromDays` is the standard era-based algorithm.
-/
namespace Efp.TimeBuilders
open Efp

/-- (year, month, day) of a day number (days since 1970-01-01) -/
def civilFromDays (z0 : Int) : Int × Int × Int :=
  let z := z0 + 719468
  let era := z / 146097
  let doe := z - era * 146097
  let yoe := (doe - doe / 1460 + doe / 36524 - doe / 146096) / 365
  let y := yoe + era * 400
  let doy := doe - (365 * yoe + yoe / 4 - yoe / 100)
  let mp := (5 * doy + 2) / 153
  let d := doy - (153 * mp + 2) / 5 + 1
  let m := if mp < 10 then mp + 3 else mp - 9
  (if m ≤ 2 then y + 1 else y, m, d)

/-- day number of a civil date -/
def daysFromCivil (y0 m d : Int) : Int :=
  let y := if m ≤ 2 then y0 - 1 else y0
  let era := y / 400
  let yoe := y - era * 400
  let mp := if m > 2 then m - 3 else m + 9
  let doy := (153 * mp + 2) / 5 + d - 1
  let doe := yoe * 365 + yoe / 4 - yoe / 100 + doy
  era * 146097 + doe - 719468

def dayNumber (t : Int) : Int := t / 86400
def hourOfDay (t : Int) : Int := (t % 86400) / 3600
/-- Monday = 0 … Sunday = 6 (`Timestamp.day_of_week`); 1970-01-01 was a Thursday -/
def dayOfWeek (t : Int) : Int := (dayNumber t + 3) % 7
def dayOfMonth (t : Int) : Int := (civilFromDays (dayNumber t)).2.2
def dayOfYear (t : Int) : Int :=
  let y := (civilFromDays (dayNumber t)).1
  dayNumber t - daysFromCivil y 1 1 + 1

/-- `create_hourly_usage_df_from_list`: one value per hour from `start`, element for element -/
def fromList (start : Int) (vals : List Rat) : Series := Series.ofList start vals

inductive Freq | daily | weekly | monthly | yearly
deriving Repr, DecidableEq

/-- does the frequency's calendar predicate hold at instant `t`? -/
def matchesAt (f : Freq) (activeDays hours : List Int) (t : Int) : Bool :=
  let hOk := hours.contains (hourOfDay t)
  match f with
  | .daily => hOk
  | .weekly => activeDays.contains (dayOfWeek t) && hOk
  | .monthly => activeDays.contains (dayOfMonth t) && hOk
  | .yearly => activeDays.contains (dayOfYear t) && hOk

/-- `create_hourly_usage_from_frequency` with `n` points (`n` = whole hours of the span + 1);
defaults of the code: active days `[0]` (weekly) or `[1]` (monthly, yearly), hours `[0]` -/
def fromFrequency (start : Int) (n : Nat) (volume : Rat) (f : Freq) (activeDays : Option (List Int))
    (hours : Option (List Int)) : Series :=
  let ad := match activeDays with
    | some l => l
    | none => if f == .weekly then [0] else [1]
  let hs := match hours with | some l => l | none => [0]
  (List.range n).map (fun (i : Nat) =>
    let t := start + 3600 * (i : Int)
    (t, if matchesAt f ad hs t then volume else 0))

/-- the spreading itself: the volume divided by the number of listed hours, at the listed hours of every day -/
def fromDailyVolumeCore (start : Int) (n : Nat) (dailyVolume : Rat) (hours : List Int) : Series :=
  fromFrequency start n (dailyVolume / (hours.length : Rat)) .daily none (some hours)

/-- the hours a daily volume can be spread over: at least one, each listed once, each an hour of the day -/
def validHours (hours : List Int) : Bool :=
  !hours.isEmpty && decide hours.Nodup && hours.all (fun h => decide (0 ≤ h) && decide (h < 24))

/-- `create_hourly_usage_from_daily_volume_and_list_of_hours`: a list with a repeated hour or an hour outside
0..23 is refused (`ValueError`, since the repair of finding D12; an empty list divides by zero) -/
def fromDailyVolume (start : Int) (n : Nat) (dailyVolume : Rat) (hours : List Int) : Except Err Series :=
  if validHours hours then .ok (fromDailyVolumeCore start n dailyVolume hours) else .error (.other "invalid-hours")

/-- `np.linspace(a, b, n)` on an hourly index (`linear_growth_hourly_values`) -/
def linearGrowth (start : Int) (n : Nat) (a b : Rat) : Series :=
  (List.range n).map (fun (i : Nat) =>
    (start + 3600 * (i : Int), if n ≤ 1 then a else a + (i : Rat) * (b - a) / ((n : Rat) - 1)))

end Efp.TimeBuilders

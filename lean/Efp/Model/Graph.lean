/-! Literal port of ExplainableObject.all_descendants_with_id / attr_updates_chain. -/
namespace Efp.Graph

structure GNode where
  uid : Nat
  sid : Nat          -- interned ObjectLinkedToModelingObj.id (shared by all entries of one dict)
  inDict : Bool      -- child.dict_container is truthy
  anc : List Nat     -- uids, in list order
  chi : List Nat     -- uids, in list order
  isCalc : Bool := false   -- the slot is a calculated attribute (has an update function)
  live : Bool := true    -- the value is currently held by the model
deriving Repr, Inhabited

abbrev G := Array GNode

def G.node (g : G) (u : Nat) : GNode := g[u]!

/-- all_descendants_with_id: DFS that appends unseen ids (by sid) and *always* recurses. Fuel-bounded. -/
def descAux (g : G) : Nat → Nat → List Nat → List Nat
  | 0, _, acc => acc
  | fuel+1, u, acc =>
    (g.node u).chi.foldl (fun acc c =>
      let acc := if acc.any (fun d => (g.node d).sid == (g.node c).sid) then acc else acc ++ [c]
      descAux g fuel c acc) acc

def allDescendants (g : G) (fuel : Nat) (u : Nat) : List Nat := descAux g fuel u []

structure St where
  added : List Nat                 -- sids with has_been_added = True
  chain : List (Nat × Bool)        -- (sid, isDictContainer)
  cur : List Nat                   -- current binding of added_parents_with_children_to_add (uids)
  iter : List Nat                  -- the list object the `for` is iterating
  same : Bool                      -- cur and iter are the same Python object
  err : Bool := false
deriving Repr

/-- body of `for child in added_parent.direct_children_with_id` -/
def childStep (g : G) (selfSid : Nat) (descSids : List Nat) (st : St × Bool) (c : Nat) : St × Bool :=
  let (s, drop) := st
  let cn := g.node c
  if cn.sid == selfSid then ({ s with err := true }, drop)       -- KeyError in has_been_added_to_chain_dict
  else if s.added.contains cn.sid then (s, drop)
  else
    let waiting := cn.anc.filter (fun a => descSids.contains (g.node a).sid)
    if waiting.all (fun a => s.added.contains (g.node a).sid) then
      let s := { s with chain := s.chain ++ [(cn.sid, cn.inDict)], added := cn.sid :: s.added }
      if cn.chi.length > 0 then
        let s := { s with cur := s.cur ++ [c] }
        (if s.same then { s with iter := s.iter ++ [c] } else s, drop)
      else (s, drop)
    else (s, false)

/-- `for added_parent in added_parents_with_children_to_add` from position i. -/
def forLoop (g : G) (selfSid : Nat) (descSids : List Nat) : Nat → Nat → St → St
  | 0, _, s => { s with err := true }
  | fuel+1, i, s =>
    if h : i < s.iter.length then
      let p := s.iter[i]
      let (s, drop) := (g.node p).chi.foldl (childStep g selfSid descSids) (s, true)
      let s := if drop then
          { s with cur := s.cur.filter (fun x => (g.node x).sid != (g.node p).sid), same := false }
        else s
      forLoop g selfSid descSids fuel (i+1) s
    else s

def whileLoop (g : G) (selfSid : Nat) (descSids : List Nat) : Nat → St → St
  | 0, s => { s with err := true }
  | fuel+1, s =>
    if s.err then s else
    if s.cur.isEmpty then s
    else
      let s := forLoop g selfSid descSids (fuel+1) 0 { s with iter := s.cur, same := true }
      whileLoop g selfSid descSids fuel s

def keepLast (l : List (Nat × Bool)) : List (Nat × Bool) :=
  let rec go : List (Nat × Bool) → List (Nat × Bool)
    | [] => []
    | x :: xs => if xs.any (fun y => y.1 == x.1) then go xs else x :: go xs
  go l

def attrUpdatesChain (g : G) (fuel : Nat) (u : Nat) : Option (List (Nat × Bool)) :=
  let desc := allDescendants g fuel u
  let selfSid := (g.node u).sid
  let descSids := desc.map (fun d => (g.node d).sid)
  let s := whileLoop g selfSid descSids fuel { added := [], chain := [], cur := [u], iter := [], same := false }
  if s.err then none else some (keepLast s.chain)

/-! ## slot-level view (one node per attribute slot; all entries of a dict share the slot) -/

def dedupNat (l : List Nat) : List Nat := l.foldl (fun acc x => if acc.contains x then acc else acc ++ [x]) []

/-- slots (sids) a slot's current values were computed from, as recorded -/
def slotReads (g : G) (s : Nat) : List Nat :=
  dedupNat ((g.toList.filter (fun n => n.live && n.sid == s)).flatMap (fun n => n.anc.map (fun a => (g.node a).sid)))
    |>.filter (· != s)

def calcSlots (g : G) : List Nat := dedupNat ((g.toList.filter (fun n => n.live && n.isCalc)).map (·.sid))

/-! ## the invariant of the inspectable graph, as an executable test (C08) -/

/-- every dependency is listed on both ends (the code matches children and ancestors by slot id) -/
def bidirectional (g : G) : Bool :=
  g.toList.all (fun n => !n.live ||
    (n.anc.all (fun a => ((g.node a).chi.map (fun c => (g.node c).sid)).contains n.sid) &&
     n.chi.all (fun c => ((g.node c).anc.map (fun a => (g.node a).sid)).contains n.sid)))

/-- only values currently held by the model are referred to -/
def liveOnly (g : G) : Bool :=
  g.toList.all (fun n => !n.live || (n.anc.all (fun a => (g.node a).live) && n.chi.all (fun c => (g.node c).live)))

/-- Kahn's algorithm on the slot-level graph: repeatedly remove slots all of whose reads are removed -/
def kahn (reads : Nat → List Nat) : Nat → List Nat → List Nat → List Nat
  | 0, _, done => done
  | fuel + 1, todo, done =>
    let ready := todo.filter (fun s => (reads s).all (fun r => done.contains r || !todo.contains r))
    if ready.isEmpty then done else kahn reads fuel (todo.filter (fun s => !ready.contains s)) (done ++ ready)

def liveSlots (g : G) : List Nat := dedupNat ((g.toList.filter (·.live)).map (·.sid))

/-- the slot-level graph has no cycle -/
def acyclic (g : G) : Bool :=
  let slots := liveSlots g
  (kahn (slotReads g) (slots.length + 1) slots []).length == slots.length

def graphInv (g : G) : Bool := bidirectional g && liveOnly g && acyclic g

/-! ## executable hypotheses of `attrUpdatesChain_correct` (Proofs/Chain.lean), evaluated on every exported graph -/

/-- ids are unique (the id of node `x` is `x`) and edges stay inside the graph -/
def wfOk (g : G) : Bool :=
  (List.range g.size).all (fun x => (g.node x).sid == x && (g.node x).chi.all (· < g.size) && (g.node x).anc.all (· < g.size))

/-- every recorded ancestor lists the node among its children -/
def ancInChiOk (g : G) : Bool :=
  (List.range g.size).all (fun x => (g.node x).anc.all (fun a => (g.node a).chi.contains x))

/-- `rk` is a rank function bounded by `bound`: children rank strictly higher (an acyclicity witness,
computed outside and checked here) -/
def rankOk (g : G) (rk : Array Nat) (bound : Nat) : Bool :=
  (List.range g.size).all (fun x => rk[x]! ≤ bound && (g.node x).chi.all (fun c => rk[x]! < rk[c]!))

end Efp.Graph

import Efp.Model.Time
/-!
# Model B: the domain rules (`update_*` of `core/**`) as pure functions

One Lean function per `update_*` method, same reads, same order of operations, same
`.to(unit)` calls, same `.magnitude` reads (on the *(mag, unit)* pair, so a missing `.to`
would change the model's result).  `computeSystem` runs them in the canonical order.
Iteration orders that Python derives from `set`s are the list orders of the spec.
-/
namespace Efp

/-! ## Fixed units the rules name (checked against pint by `Generated/Units.lean`) -/
namespace U
def dimless : Unit := ⟨1, {}⟩
def hour : Unit := ⟨3600, { time := 1 }⟩
def kWh : Unit := ⟨3600000, { mass := 1, length := 2, time := -2 }⟩
def kg : Unit := ⟨1, { mass := 1 }⟩
def g : Unit := ⟨1/1000, { mass := 1 }⟩
def GB : Unit := ⟨8000000000, {}⟩
def TB : Unit := ⟨8000000000000, {}⟩
def W : Unit := ⟨1, { mass := 1, length := 2, time := -3 }⟩
end U

def oneHour : Val := .q ⟨1, U.hour⟩

/-! ## Specification of a system (inputs and links) -/

structure StorageS where
  name : String
  cfPerCap : Val
  powerPerCap : Val
  lifespan : Val
  idlePower : Val
  capacity : Val
  replication : Val
  duration : Val
  baseNeed : Val
  fixed : Val            -- Empty when not user-fixed
deriving Repr, Inhabited

structure ServerS where
  name : String
  gpu : Bool
  serverType : String
  cfFab : Val            -- plain server inputs (ignored for GPU servers)
  power : Val
  idlePower : Val
  ram : Val
  lifespan : Val
  compute : Val
  pue : Val
  aci : Val
  util : Val
  baseRam : Val
  baseCompute : Val
  fixed : Val
  storage : String
  gpuPower : Val         -- GPU server inputs (ignored for plain servers)
  gpuIdlePower : Val
  ramPerGpu : Val
  cfPerGpu : Val
  cfWithoutGpu : Val
  /-- base consumptions of installed services (already-computed values) -/
  svcBaseRam : List Val := []
  svcBaseCompute : List Val := []
deriving Repr, Inhabited

structure JobS where
  name : String
  server : String
  dataTransferred : Val
  dataStored : Val
  requestDuration : Val
  computeNeeded : Val
  ramNeeded : Val
deriving Repr, Inhabited

structure StepS where
  name : String
  time : Val
  jobs : List String
deriving Repr, Inhabited

structure JourneyS where
  name : String
  steps : List String
deriving Repr, Inhabited

structure DeviceS where
  name : String
  cfFab : Val
  power : Val
  lifespan : Val
  fraction : Val
deriving Repr, Inhabited

structure NetworkS where
  name : String
  bei : Val
deriving Repr, Inhabited

structure CountryS where
  name : String
  aci : Val
  zone : Zone
deriving Repr, Inhabited

structure PatternS where
  name : String
  journey : String
  devices : List String
  network : String
  country : String
  starts : Val           -- naive local hourly series
deriving Repr, Inhabited

structure Spec where
  storages : List StorageS
  servers : List ServerS
  jobs : List JobS
  steps : List StepS
  journeys : List JourneyS
  devices : List DeviceS
  networks : List NetworkS
  countries : List CountryS
  patterns : List PatternS      -- all usage patterns that exist
  system : List String          -- names of the system's usage patterns (in list order)
deriving Repr, Inhabited

/-- one calculated attribute: object, attribute, dict key (usage pattern) if any, value -/
structure Out where
  obj : String
  attr : String
  key : String := ""
  val : Val
deriving Repr, Inhabited

abbrev M := Except Err

def lookup {α} (what : String) (nm : α → String) (l : List α) (n : String) : M α :=
  match l.find? (fun x => nm x == n) with
  | some x => .ok x
  | none => .error (.other s!"unknown {what} {n}")

/-- `sum(list, start=EmptyExplainableObject())` / `x += y` accumulation -/
def sumVals (start : Val) (l : List Val) : M Val := l.foldlM (fun acc v => acc.add v) start

/-- smallest distance of a rational to an integer it is *not* equal to … used by the
discontinuity guard: `ceil`/`floor` arguments closer than the comparator's tolerance to an
integer make an observation inconclusive. -/
def fracMargin (x : Rat) : Rat :=
  let f := x - x.floor
  if f = 0 then 0 else if f < 1 - f then f else 1 - f

/-! ## `compute_nb_avg_hourly_occurrences` -/

def sumShifts (s : Series) : Nat → Series
  | 0 => []
  | n + 1 => Series.add (sumShifts s n) (Series.shift n s)

/-- full hours of the event count 1, the last partial hour counts for its fraction -/
def avgOccSeries (s : Series) (dh : Rat) : Series :=
  let n := dh.floor.toNat
  let rest := dh - (n : Rat)
  let full := sumShifts s n
  if rest > 0 then
    (if n = 0 then Series.scale rest (Series.shift n s)
     else Series.add full (Series.scale rest (Series.shift n s)))
  else full

def nbAvgHourlyOccurrences (starts : Val) (duration : Val) : M Val := do
  let dmag ← duration.magnitude
  match starts with
  | .empty => pure .empty
  | .q _ => throw .type
  | .h st =>
    if dmag = 0 then pure .empty else
    let dh ← match duration with
      | .q d => (do let d' ← d.to U.hour; pure d'.mag)
      | _ => throw .type
    pure (.h ⟨avgOccSeries st.vals dh, st.unit⟩)

/-! ## Usage journey, usage pattern -/

def journeyDuration (sp : Spec) (j : JourneyS) : M Val := do
  let ts ← j.steps.mapM (fun s => do pure (← lookup "step" StepS.name sp.steps s).time)
  sumVals .empty ts

def journeyJobs (sp : Spec) (j : JourneyS) : M (List String) := do
  let ss ← j.steps.mapM (fun s => lookup "step" StepS.name sp.steps s)
  pure (ss.flatMap (·.jobs))

def utcStarts (sp : Spec) (p : PatternS) : M Val := do
  let c ← lookup "country" CountryS.name sp.countries p.country
  match p.starts with
  | .h st => pure (.h ⟨convertToUtc c.zone st.vals, st.unit⟩)
  | _ => throw .type

structure PatternOut where
  utc : Val
  parallel : Val
  devEnergy : Val
  devEnergyFp : Val
  devFabFp : Val

def patternCalc (sp : Spec) (p : PatternS) : M PatternOut := do
  let j ← lookup "journey" JourneyS.name sp.journeys p.journey
  let c ← lookup "country" CountryS.name sp.countries p.country
  let devs ← p.devices.mapM (fun d => lookup "device" DeviceS.name sp.devices d)
  let utc ← utcStarts sp p
  let dur ← journeyDuration sp j
  let par ← nbAvgHourlyOccurrences utc dur
  -- update_devices_energy
  let powers := devs.map (·.power)
  let totPower ← match powers with
    | [] => throw (.other "no-device")
    | p0 :: ps => sumVals p0 ps
  let totEnergy1h ← totPower.mul oneHour
  let devEnergy ← (← par.mul totEnergy1h).to U.kWh
  -- update_devices_energy_footprint
  let devEnergyFp ← (← devEnergy.mul c.aci).to U.kg
  -- update_devices_fabrication_footprint
  let perDev ← devs.mapM (fun d => do
    let num ← d.cfFab.mul oneHour
    let den ← d.lifespan.mul d.fraction
    (← num.div den).to U.g)
  let fabOverHour ← sumVals .empty perDev
  let devFabFp ← (← par.mul fabOverHour).to U.kg
  pure ⟨utc, par, devEnergy, devEnergyFp, devFabFp⟩

/-! ## Jobs -/

/-- usage patterns (of the whole spec, in spec order) whose journey contains the job -/
def jobPatterns (sp : Spec) (job : String) : M (List PatternS) :=
  sp.patterns.filterM (fun p => do
    let j ← lookup "journey" JourneyS.name sp.journeys p.journey
    pure ((← journeyJobs sp j).contains job))

/-- accumulate the journey starts shifted by each delay (whole hours), from `EmptyExplainableObject` -/
def occFold (utc : Val) (delays : List Int) : M Val :=
  delays.foldlM (fun occ d => do occ.add (← utc.shiftBy d)) Val.empty

/-- for each step in order and each occurrence of the job in it: `floor` of the time (in hours)
spent in the preceding steps -/
def jobDelays (ss : List StepS) (job : String) : M (List Int) := do
  let (ds, _) ← ss.foldlM (fun (acc : List Int × Val) s => do
    let (ds, delay) := acc
    let dh ← match delay with
      | .empty => pure (0 : Int)
      | .q d => (do let d' ← d.to U.hour; pure d'.mag.floor)
      | .h _ => throw .type
    pure (ds ++ (s.jobs.filter (· == job)).map (fun _ => dh), ← delay.add s.time)) (([] : List Int), Val.empty)
  pure ds

/-- `compute_hourly_occurrences_for_usage_pattern` -/
def jobOccurrences (sp : Spec) (job : String) (p : PatternS) (utc : Val) : M Val := do
  let j ← lookup "journey" JourneyS.name sp.journeys p.journey
  let ss ← j.steps.mapM (fun s => lookup "step" StepS.name sp.steps s)
  occFold utc (← jobDelays ss job)

/-- `duration_in_full_hours`: `math.ceil(request_duration in hours)` -/
def durationInFullHours (d : Val) : M Int :=
  match d with
  | .q x => do pure (← x.to U.hour).mag.ceil
  | _ => throw .type

/-- spread `perHour` over `n` consecutive hours after each occurrence -/
def dataFold (occ : Val) (perHour : Val) (n : Nat) : M Val :=
  (List.range n).foldlM (fun (acc : Val) (k : Nat) => do
    match occ with
    | .empty => pure acc
    | _ => acc.add (← (← occ.shiftBy (Int.ofNat k)).mul perHour)) Val.empty

/-- `compute_hourly_data_exchange_for_usage_pattern` -/
def jobDataExchange (occ : Val) (amount : Val) (requestDuration : Val) : M Val := do
  let dfh ← durationInFullHours requestDuration
  let perHour ← amount.div (.q ⟨(dfh : Rat), U.dimless⟩)
  dataFold occ perHour dfh.toNat

structure JobOut where
  name : String
  ups : List String
  occ : List Val
  avg : List Val
  dataT : List Val
  dataS : List Val
  occX : Val
  avgX : Val
  dataTX : Val
  dataSX : Val
deriving Inhabited

def jobCalc (sp : Spec) (utcOf : String → M Val) (jb : JobS) : M JobOut := do
  let ups ← jobPatterns sp jb.name
  let occ ← ups.mapM (fun p => do jobOccurrences sp jb.name p (← utcOf p.name))
  let avg ← occ.mapM (fun o => nbAvgHourlyOccurrences o jb.requestDuration)
  let dataT ← occ.mapM (fun o => jobDataExchange o jb.dataTransferred jb.requestDuration)
  let dataS ← occ.mapM (fun o => jobDataExchange o jb.dataStored jb.requestDuration)
  pure { name := jb.name, ups := ups.map (·.name), occ, avg, dataT, dataS,
         occX := ← sumVals .empty occ, avgX := ← sumVals .empty avg,
         dataTX := ← sumVals .empty dataT, dataSX := ← sumVals .empty dataS }

/-! ## Network -/

def networkEnergyFootprint (sp : Spec) (jobs : List JobOut) (n : NetworkS) : M Val := do
  let ups := sp.patterns.filter (fun p => p.network == n.name)
  let parts ← ups.mapM (fun p => do
    let c ← lookup "country" CountryS.name sp.countries p.country
    let dataUp ← sumVals .empty (jobs.filterMap (fun jo =>
      match jo.ups.idxOf? p.name with
      | some i => some (jo.dataT.getD i .empty)
      | none => none))
    let cons ← (← n.bei.mul dataUp).to U.kWh
    cons.mul c.aci)
  (← sumVals .empty parts).to U.kg

/-! ## Servers -/

structure ServerOut where
  name : String
  cfFab : Val
  power : Val
  idlePower : Val
  ram : Val
  ramNeed : Val
  computeNeed : Val
  occRam : Val
  occCompute : Val
  availRam : Val
  availCompute : Val
  raw : Val
  nb : Val
  fabFp : Val
  energy : Val
  energyFp : Val
deriving Inhabited

def isNeg (v : Val) : M Bool :=
  match v with
  | .q x => pure (decide (x.mag < 0))
  | _ => throw .type

/-- `update_nb_of_instances` of a server -/
def serverNbOfInstances (serverType : String) (raw fixed : Val) : M Val :=
  match serverType with
  | "autoscaling" => pure raw.ceil
  | "serverless" => pure raw
  | "on-premise" =>
    match raw with
    | .empty => pure .empty
    | .h r => do
      let mx ← (Val.h r).max
      let mxc ← mx.ceil.to U.dimless
      match fixed, mxc with
      | .empty, .q m => pure (.h ⟨Series.constLike r.vals m.mag, U.dimless⟩)
      | .q f, .q m =>
        if (← m.gt f) then throw .fixedInstances
        else pure (.h ⟨Series.constLike r.vals (← f.to U.dimless).mag, U.dimless⟩)
      | _, _ => throw .type
    | .q _ => throw .type
  | _ => throw (.other "server-type")

def infraFabFp (cf nb lifespan : Val) : M Val := do
  (← (← (← cf.mul nb).mul oneHour).div lifespan).to U.kg

def serverCalc (sp : Spec) (jobs : List JobOut) (s : ServerS) : M ServerOut := do
  -- GPU server derived hardware attributes
  let cfFab ← if s.gpu then (do s.cfWithoutGpu.add (← s.compute.mul s.cfPerGpu)) else pure s.cfFab
  let power ← if s.gpu then s.gpuPower.mul s.compute else pure s.power
  let idlePower ← if s.gpu then s.gpuIdlePower.mul s.compute else pure s.idlePower
  let ram ← if s.gpu then s.ramPerGpu.mul s.compute else pure s.ram
  let myJobs := sp.jobs.filter (fun j => j.server == s.name)
  let computeUnit ← match s.compute with
    | .q c => pure c.unit
    | _ => throw .type
  let need (f : JobS → Val) (u : Unit) : M Val := do
    let parts ← myJobs.mapM (fun j => do
      let jo ← lookup "job" JobOut.name jobs j.name
      jo.avgX.mul (f j))
    (← sumVals .empty parts).to u
  let ramNeed ← need (·.ramNeeded) U.GB
  let computeNeed ← need (·.computeNeeded) computeUnit
  let occRam ← sumVals s.baseRam s.svcBaseRam
  let occCompute ← sumVals s.baseCompute s.svcBaseCompute
  let availRam ← (← ram.mul s.util).sub occRam
  if (← isNeg availRam) then throw .capacity
  let availCompute ← (← s.compute.mul s.util).sub occCompute
  if (← isNeg availCompute) then throw .capacity
  let byRam ← (← ramNeed.div availRam).to U.dimless
  let byCpu ← (← computeNeed.div availCompute).to U.dimless
  let raw ← byRam.npCompared true byCpu
  let nb ← serverNbOfInstances s.serverType raw s.fixed
  let fabFp ← infraFabFp cfFab nb s.lifespan
  let idleE ← (← idlePower.mul s.pue).mul oneHour
  let extraE ← (← (← power.sub idlePower).mul s.pue).mul oneHour
  let energy ← (← (← idleE.mul nb).add (← extraE.mul raw)).to U.kWh
  let energyFp ← (← energy.mul s.aci).to U.kg
  pure { name := s.name, cfFab, power, idlePower, ram, ramNeed, computeNeed, occRam, occCompute,
         availRam, availCompute, raw, nb, fabFp, energy, energyFp }

/-! ## Storage -/

structure StorageOut where
  name : String
  cfFab : Val
  power : Val
  delta : Val
  cumulative : Val
  raw : Val
  nb : Val
  active : Val
  fabFp : Val
  energy : Val
  energyFp : Val
deriving Inhabited

def storageNeededFreed (sp : Spec) (jobs : List JobOut) (st : StorageS) (freed : Bool) : M Val := do
  let servers := sp.servers.filter (fun s => s.storage == st.name)
  let myJobs := sp.jobs.filter (fun j => servers.any (fun s => s.name == j.server))
  let parts ← myJobs.filterMapM (fun j => do
    let m ← j.dataStored.magnitude
    if (if freed then m < 0 else m ≥ 0) then
      pure (some (← lookup "job" JobOut.name jobs j.name).dataSX)
    else pure none)
  (← (← sumVals .empty parts).mul st.replication).to U.TB

/-- `automatic_storage_dumps_after_storage_duration` -/
def storageDumps (needed : Val) (duration : Val) : M Val :=
  match needed with
  | .empty => pure .empty
  | .q _ => throw .type
  | .h nd => do
    let dh ← match duration with
      | .q d => (do pure (← d.to U.hour).mag.ceil)
      | _ => throw .type
    match Series.maxKey nd.vals, Series.minKey nd.vals with
    | some mx, some mn =>
      let shifted := Series.truncateTo mx (Series.neg (Series.shift dh nd.vals))
      if shifted.isEmpty then
        -- `(end - start).seconds / 3600` : the *seconds component* of the timedelta
        let nbh := ((mx - mn) % 86400) / 3600
        pure (.h ⟨Series.ofList mn (List.replicate (nbh.toNat + 1) 0), U.dimless⟩)
      else pure (.h ⟨shifted, nd.unit⟩)
    | _, _ => throw .nan

def storageNbOfInstances (raw fixed : Val) : M Val :=
  match raw with
  | .empty => pure .empty
  | .q _ => throw .type
  | .h r => do
    let nb := Series.ceil r.vals
    match fixed with
    | .empty => pure (.h ⟨nb, r.unit⟩)
    | .q f =>
      match Series.maxVal nb with
      | some mx =>
        if (← (Qty.mk mx r.unit).gt f) then throw .fixedInstances
        else do
          let fd ← f.to U.dimless
          pure (.h ⟨Series.constLike r.vals fd.mag, U.dimless⟩)
      | none => throw .nan
    | .h _ => throw .type

def storageCalc (sp : Spec) (jobs : List JobOut) (st : StorageS) : M StorageOut := do
  let cfFab ← st.cfPerCap.mul st.capacity
  let power ← st.powerPerCap.mul st.capacity
  let server := sp.servers.find? (fun s => s.storage == st.name)
  let pue := match server with | some s => s.pue | none => Val.empty
  let aci := match server with | some s => s.aci | none => Val.empty
  let needed ← storageNeededFreed sp jobs st false
  let freed ← storageNeededFreed sp jobs st true
  let dumps ← storageDumps needed st.duration
  let delta ← (← needed.add freed).add dumps
  let cumulative ← match delta with
    | .empty => pure Val.empty
    | .q _ => throw .type
    | .h d => do
      let base ← match st.baseNeed with
        | .q b => (do pure (← b.to d.unit).mag)
        | _ => throw .type
      let cum := Series.cumsum (Series.bumpFirst base d.vals)
      match Series.minVal cum with
      | some m => if m < 0 then throw .negStorage else pure (Val.h ⟨cum, d.unit⟩)
      | none => throw .nan
  let raw ← (← cumulative.div st.capacity).to U.dimless
  let nb ← storageNbOfInstances raw st.fixed
  -- update_nb_of_active_instances
  let tmp ← (← (← (← (← needed.abs).npCompared true (← freed.abs)).add (← dumps.abs)).div
              st.capacity).to U.dimless
  let active ← tmp.npCompared false (← nb.abs)
  let fabFp ← infraFabFp cfFab nb st.lifespan
  let idleCount ← nb.sub active
  let activeE ← (← (← active.mul power).mul oneHour).mul pue
  let idleE ← (← (← idleCount.mul st.idlePower).mul oneHour).mul pue
  let energy ← (← activeE.add idleE).to U.kWh
  let energyFp ← (← energy.mul aci).to U.kg
  pure { name := st.name, cfFab, power, delta, cumulative, raw, nb, active, fabFp, energy, energyFp }

/-! ## System -/

def dedup (l : List String) : List String := l.foldl (fun acc x => if acc.contains x then acc else acc ++ [x]) []

structure SystemOut where
  servers : List String
  storages : List String
  networks : List String
  total : Val

/-- servers reachable from the system's usage patterns, each once -/
def systemServers (sp : Spec) : M (List String) := do
  let ps ← sp.system.mapM (fun n => lookup "pattern" PatternS.name sp.patterns n)
  let js ← ps.mapM (fun p => do
    let j ← lookup "journey" JourneyS.name sp.journeys p.journey
    journeyJobs sp j)
  let jobs ← js.flatten.mapM (fun jn => lookup "job" JobS.name sp.jobs jn)
  pure (dedup (jobs.map (·.server)))

def systemStorages (sp : Spec) : M (List String) := do
  let ss ← (← systemServers sp).mapM (fun n => lookup "server" ServerS.name sp.servers n)
  pure (dedup (ss.map (·.storage)))

def systemNetworks (sp : Spec) : M (List String) := do
  let ps ← sp.system.mapM (fun n => lookup "pattern" PatternS.name sp.patterns n)
  pure (dedup (ps.map (·.network)))

structure Outputs where
  outs : List Out
deriving Inhabited

def computeSystem (sp : Spec) : M Outputs := do
  -- canonical order: UsageJourney, (Device, Country: nothing), UsagePattern, JobBase, Network,
  -- ServerBase, Storage, System
  let jd ← sp.journeys.mapM (fun j => do pure (Out.mk j.name "duration" "" (← journeyDuration sp j)))
  let pouts ← sp.patterns.mapM (fun p => do pure (p.name, ← patternCalc sp p))
  let utcOf : String → M Val := fun n =>
    match pouts.find? (fun x => x.1 == n) with
    | some x => pure x.2.utc
    | none => throw (.other "pattern")
  let jouts ← sp.jobs.mapM (jobCalc sp utcOf)
  let nouts ← sp.networks.mapM (fun n => do pure (n.name, ← networkEnergyFootprint sp jouts n))
  -- only objects reached from the system's usage patterns are ever computed
  let sysServers ← systemServers sp
  let sysStorages ← systemStorages sp
  let rServers := sp.servers.filter (fun s => sysServers.contains s.name)
  let souts ← rServers.mapM (serverCalc sp jouts)
  let stouts ← (sp.storages.filter (fun s => sysStorages.contains s.name)).mapM (storageCalc sp jouts)
  -- System.update_total_footprint
  let sysNetworks ← systemNetworks sp
  let srv ← sysServers.mapM (fun n => lookup "server" ServerOut.name souts n)
  let sto ← sysStorages.mapM (fun n => lookup "storage" StorageOut.name stouts n)
  let net := nouts.filter (fun x => sysNetworks.contains x.1)
  let pts := pouts.filter (fun x => sp.system.contains x.1)
  let parts : List Val :=
    srv.map (·.fabFp) ++ srv.map (·.energyFp) ++ sto.map (·.fabFp) ++ sto.map (·.energyFp)
    ++ net.map (·.2) ++ pts.map (·.2.devFabFp) ++ pts.map (·.2.devEnergyFp)
  let total := (← (← sumVals .empty parts).to U.kg).round 4
  let o (obj attr : String) (v : Val) : Out := ⟨obj, attr, "", v⟩
  let outs : List Out :=
    jd
    ++ pouts.flatMap (fun (n, p) =>
      [o n "utc_hourly_usage_journey_starts" p.utc, o n "nb_usage_journeys_in_parallel" p.parallel,
       o n "devices_energy" p.devEnergy, o n "devices_energy_footprint" p.devEnergyFp,
       o n "devices_fabrication_footprint" p.devFabFp, o n "energy_footprint" p.devEnergyFp,
       o n "instances_fabrication_footprint" p.devFabFp])
    ++ jouts.flatMap (fun j =>
      (j.ups.zip j.occ).map (fun (u, v) => ⟨j.name, "hourly_occurrences_per_usage_pattern", u, v⟩)
      ++ (j.ups.zip j.avg).map (fun (u, v) => ⟨j.name, "hourly_avg_occurrences_per_usage_pattern", u, v⟩)
      ++ (j.ups.zip j.dataT).map (fun (u, v) => ⟨j.name, "hourly_data_transferred_per_usage_pattern", u, v⟩)
      ++ (j.ups.zip j.dataS).map (fun (u, v) => ⟨j.name, "hourly_data_stored_per_usage_pattern", u, v⟩)
      ++ [o j.name "hourly_occurrences_across_usage_patterns" j.occX,
          o j.name "hourly_avg_occurrences_across_usage_patterns" j.avgX,
          o j.name "hourly_data_transferred_across_usage_patterns" j.dataTX,
          o j.name "hourly_data_stored_across_usage_patterns" j.dataSX])
    ++ nouts.map (fun (n, v) => o n "energy_footprint" v)
    ++ (souts.zip rServers).flatMap (fun (s, ss) =>
      (if ss.gpu then [o s.name "carbon_footprint_fabrication" s.cfFab, o s.name "power" s.power,
        o s.name "idle_power" s.idlePower, o s.name "ram" s.ram] else []) ++
      [o s.name "hour_by_hour_ram_need" s.ramNeed, o s.name "hour_by_hour_compute_need" s.computeNeed,
       o s.name "occupied_ram_per_instance" s.occRam, o s.name "occupied_compute_per_instance" s.occCompute,
       o s.name "available_ram_per_instance" s.availRam,
       o s.name "available_compute_per_instance" s.availCompute,
       o s.name "raw_nb_of_instances" s.raw, o s.name "nb_of_instances" s.nb,
       o s.name "instances_fabrication_footprint" s.fabFp, o s.name "instances_energy" s.energy,
       o s.name "energy_footprint" s.energyFp])
    ++ stouts.flatMap (fun s =>
      [o s.name "carbon_footprint_fabrication" s.cfFab, o s.name "power" s.power,
       o s.name "storage_delta" s.delta, o s.name "full_cumulative_storage_need" s.cumulative,
       o s.name "raw_nb_of_instances" s.raw, o s.name "nb_of_instances" s.nb,
       o s.name "nb_of_active_instances" s.active,
       o s.name "instances_fabrication_footprint" s.fabFp, o s.name "instances_energy" s.energy,
       o s.name "energy_footprint" s.energyFp])
    ++ [o "__system__" "total_footprint" total]
  pure { outs }

end Efp

import Efp.Proofs.Series
import Efp.Model.Time
/-!
# C11 — local-time usage is converted to UTC without losing or inventing traffic

`convertToUtcWith resolve` is `convert_to_utc` for an arbitrary local→UTC resolution function
(so the theorems hold for every time zone, every transition table, every series); `Zone.resolveLocal`
is pandas' `tz_localize(nonexistent="shift_forward", ambiguous=True)` on a pytz transition table and
is validated against pandas/pytz by the `K-tz` correspondence suite.
-/
namespace Efp.Props.C11
open Efp Efp.Series

/-! ## insertSum / dedupSum -/

theorem mem_keys_insertSum (k : Int) (v : Rat) (a : Series) (x : Int) :
    x ∈ keys (insertSum k v a) ↔ x = k ∨ x ∈ keys a := by
  induction a with
  | nil => simp [insertSum]
  | cons p rest ih =>
    obtain ⟨k', v'⟩ := p
    unfold insertSum
    split
    · simp
    · split
      · rename_i h; subst h; simp
      · simp only [keys_cons, List.mem_cons, ih]; tauto

theorem insertSum_sorted (k : Int) (v : Rat) (a : Series) (h : Sorted a) : Sorted (insertSum k v a) := by
  induction a with
  | nil => simp [insertSum, Sorted]
  | cons p rest ih =>
    obtain ⟨k', v'⟩ := p
    have hs := List.pairwise_cons.mp h
    unfold insertSum
    split
    · rename_i hlt
      refine List.pairwise_cons.mpr ⟨?_, h⟩
      intro x hx
      rcases List.mem_cons.mp hx with rfl | hx
      · exact hlt
      · exact lt_trans hlt (hs.1 x hx)
    · split
      · exact h
      · rename_i h1 h2
        refine List.pairwise_cons.mpr ⟨?_, ih hs.2⟩
        intro x hx
        rcases (mem_keys_insertSum k v rest x).mp hx with rfl | hx
        · simp only at h1 h2 ⊢; omega
        · exact hs.1 x hx

theorem total_insertSum (k : Int) (v : Rat) (a : Series) : total (insertSum k v a) = total a + v := by
  induction a with
  | nil => simp [insertSum]
  | cons p rest ih =>
    obtain ⟨k', v'⟩ := p
    unfold insertSum
    split
    · simp only [total_cons]; ring
    · split
      · simp only [total_cons]; ring
      · simp only [total_cons, ih]; ring

theorem get_insertSum (k : Int) (v : Rat) (a : Series) (h : Sorted a) (t : Int) :
    get (insertSum k v a) t = get a t + (if k = t then v else 0) := by
  induction a with
  | nil => simp [insertSum, get_cons]
  | cons p rest ih =>
    obtain ⟨k', v'⟩ := p
    have hs := List.pairwise_cons.mp h
    unfold insertSum
    split
    · rename_i hlt
      simp only [get_cons]
      by_cases hk : k = t
      · subst hk
        have : ¬ k' = k := by omega
        have h0 : get rest k = 0 := get_eq_zero_of_not_mem rest k (fun hm => by have := hs.1 k hm; omega)
        simp [this, h0]
      · simp [hk]
    · split
      · rename_i h1 h2
        subst h2
        simp only [get_cons]
        by_cases hk : k = t
        · simp [hk]
        · simp [hk]
      · rename_i h1 h2
        simp only [get_cons, ih hs.2]
        by_cases hk' : k' = t
        · subst hk'
          have : ¬ k = k' := h2
          simp [this]
        · simp [hk']

theorem dedupSum_aux (m acc : Series) (hacc : Sorted acc) :
    Sorted (m.foldl (fun acc p => insertSum p.1 p.2 acc) acc) ∧
    total (m.foldl (fun acc p => insertSum p.1 p.2 acc) acc) = total acc + total m ∧
    ∀ t, get (m.foldl (fun acc p => insertSum p.1 p.2 acc) acc) t
      = get acc t + ((m.filter (fun p => p.1 == t)).map Prod.snd).sum := by
  induction m generalizing acc with
  | nil => exact ⟨hacc, by simp, by simp⟩
  | cons p rest ih =>
    obtain ⟨h1, h2, h3⟩ := ih (insertSum p.1 p.2 acc) (insertSum_sorted _ _ _ hacc)
    simp only [List.foldl_cons]
    refine ⟨h1, ?_, ?_⟩
    · rw [h2, total_insertSum, total_cons]; ring
    · intro t
      rw [h3 t, get_insertSum _ _ _ hacc]
      by_cases hk : p.1 = t
      · simp [List.filter_cons, hk]; ring
      · have : (p.1 == t) = false := by simpa using hk
        simp [List.filter_cons, hk, this]

/-! ## the conversion -/

/-- **The total is preserved**: no traffic is lost or invented, for every resolution function
(every time zone) and every series. -/
theorem convertToUtc_total (resolve : Int → Int) (s : Series) :
    total (convertToUtcWith resolve s) = total s := by
  unfold convertToUtcWith dedupSum
  rw [(dedupSum_aux _ [] (by simp [Sorted])).2.1]
  simp [total, List.map_map, Function.comp_def]

/-- **Strictly increasing timestamps, no duplicates** -/
theorem convertToUtc_sorted (resolve : Int → Int) (s : Series) : Sorted (convertToUtcWith resolve s) := by
  unfold convertToUtcWith dedupSum
  exact (dedupSum_aux _ [] (by simp [Sorted])).1

theorem convertToUtc_nodup (resolve : Int → Int) (s : Series) : (keys (convertToUtcWith resolve s)).Nodup :=
  (convertToUtc_sorted resolve s).nodup

/-- **Placement**: the value at a UTC instant is the sum of the values of all local hours that
resolve to it — hours repeated or skipped by a daylight-saving change are merged, never dropped. -/
theorem convertToUtc_placement (resolve : Int → Int) (s : Series) (u : Int) :
    get (convertToUtcWith resolve s) u = ((s.filter (fun p => resolve p.1 == u)).map Prod.snd).sum := by
  unfold convertToUtcWith dedupSum
  rw [(dedupSum_aux _ [] (by simp [Sorted])).2.2 u]
  simp [List.filter_map, Function.comp_def, List.map_map]

/-- every UTC key comes from a local hour of the input -/
theorem convertToUtc_keys (resolve : Int → Int) (s : Series) (u : Int)
    (h : get (convertToUtcWith resolve s) u ≠ 0) : ∃ p ∈ s, resolve p.1 = u := by
  rw [convertToUtc_placement] at h
  by_contra hc
  push_neg at hc
  have : s.filter (fun p => resolve p.1 == u) = [] := by
    rw [List.filter_eq_nil_iff]; intro p hp; simpa using hc p hp
  rw [this] at h; simp at h

/-! ## the zone resolution -/

/-- an existing wall-clock time is placed at local time minus the offset in force at that instant -/
theorem resolveLocal_of_candidates (z : Zone) (l u : Int) (rest : List Int) (h : z.candidates l = u :: rest) :
    z.resolveLocal l = u ∧ ∃ per ∈ z.periods, u = l - per.2.2 ∧
      (match per.1 with | none => True | some s => s ≤ u) ∧ (match per.2.1 with | none => True | some e => u < e) := by
  constructor
  · simp [Zone.resolveLocal, h]
  · have hu : u ∈ z.candidates l := by rw [h]; simp
    unfold Zone.candidates at hu
    rw [List.mem_filterMap] at hu
    obtain ⟨⟨st, en, off⟩, hper, hval⟩ := hu
    refine ⟨(st, en, off), hper, ?_⟩
    cases st <;> cases en <;> simp at hval ⊢ <;> omega

/-! ## the common UTC time line: shifts by whole hours keep the position within the hour -/

/-- the job occurrences of a later step are the UTC starts shifted by whole hours: every instant keeps its
minutes (a zone with a +05:30 offset stays on :30 — seed C11-e floors the shifted instant instead) -/
theorem shift_keeps_position_within_the_hour (k : Int) (a : Series) :
    ∀ t ∈ Series.keys (Series.shift k a), ∃ t0 ∈ Series.keys a, t = t0 + 3600 * k ∧ t % 3600 = t0 % 3600 := by
  intro t ht
  rw [Series.keys_shift, List.mem_map] at ht
  obtain ⟨t0, h0, rfl⟩ := ht
  exact ⟨t0, h0, rfl, by omega⟩

/-- … and series of several zones are combined instant by instant (`Series.get_add`), so values at
:00, :30 and :45 never merge -/
theorem zones_combined_instant_by_instant (a b : Series) (t : Int) :
    Series.get (Series.add a b) t = Series.get a t + Series.get b t := Series.get_add a b t

/-! ## non-vacuity: Europe/Paris around 2025-03-30 (spring forward) and 2025-10-26 (fall back) -/
def paris : Zone := ⟨3600, [(1743296400, 7200), (1761440400, 3600)], true⟩
-- local 01:00, 02:00 (skipped), 03:00 on 2025-03-30 → 00:00, 01:00 (merged), 01:00 UTC
example : convertToUtc paris [(1743296400 + 0, 1), (1743296400 + 3600, 2), (1743296400 + 7200, 4)]
    = [(1743292800, 1), (1743296400, 6)] := by decide +kernel

end Efp.Props.C11

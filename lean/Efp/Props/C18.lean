import Efp.Theory.Checker
import Efp.Generated.Schema
import Efp.Generated.Reads
/-!
# C18 — a computed model is a fixed point, and computing never alters inputs

*Fixed point*: in the abstract theory, in a consistent state recomputing any calculated node — or
any sequence of nodes, in any order, with repetitions — changes nothing (`run_fixed`), and a full
pass in an order that respects the reads produces a consistent state from any state
(`full_pass_consistent`).  That the **code's** canonical order respects the reads is the table
obligation `order_respects_reads` below: `Generated/Schema.lean` (class order, attribute orders) and
`Generated/Reads.lean` (the class-level dependencies recorded by the real code on this run's systems)
are rewritten from `/repo` on every run and the obligation is re-proved by `decide`.
-/
namespace Efp.Props.C18
open Efp.Theory Efp.Generated

/-- in a computed (consistent) model, any explicit recomputation request leaves every value unchanged -/
theorem recompute_idempotent {V : Type} (S : RuleSys Nat V) (σ : Nat → V) (h : Consistent S σ) (l : List Nat)
    (hl : ∀ n ∈ l, S.isCalc n = true) : run S σ l = σ := run_fixed S σ h l hl

/-- computing the whole model in an order that respects the reads gives a consistent model -/
theorem full_pass_is_consistent {V : Type} (S : RuleSys Nat V) (chain : List Nat) (σ : Nat → V)
    (hnd : chain.Nodup) (hall : ∀ n, S.isCalc n = true → n ∈ chain)
    (hord : ∀ l₁ n l₂, chain = l₁ ++ n :: l₂ → ∀ m ∈ S.reads n, m ∉ l₂ ∧ m ≠ n) :
    Consistent S (run S σ chain) := full_pass_consistent S chain σ hnd hall hord

/-- recomputation never writes an input: nodes outside the chain keep their value -/
theorem inputs_untouched {V : Type} (S : RuleSys Nat V) (chain : List Nat) (σ : Nat → V) (m : Nat)
    (h : m ∉ chain) : run S σ chain m = σ m := run_not_mem S chain σ m h

/-! ## the code's canonical order respects the recorded class-level reads -/

def indexOf? (l : List String) (x : String) : Option Nat :=
  match l.findIdx? (· == x) with
  | some i => some i
  | none => none

/-- rank of a class in `CANONICAL_COMPUTATION_ORDER`: position of the class itself or of its first
base class that is listed -/
def classRank (cls : String) : Option Nat :=
  let bases := match classBases.find? (·.1 == cls) with | some p => p.2 | none => []
  (cls :: bases).findSome? (fun c => indexOf? canonicalOrder c)

def attrIndex (cls attr : String) : Option Nat :=
  match calculatedAttributes.find? (·.1 == cls) with
  | some p => indexOf? p.2 attr
  | none => none

/-- a recorded read `(C.a ← D.b)` of a *calculated* `D.b` is respected when `D.b` comes strictly
earlier in (class rank, attribute index) order -/
def readRespected (r : (String × String) × (String × String)) : Bool :=
  let ((c, a), (d, b)) := r
  match attrIndex d b with
  | none => true                      -- `D.b` is an input: nothing to order
  | some ib =>
    match classRank c, classRank d, attrIndex c a with
    | some rc, some rd, some ia => decide (rd < rc) || (rd == rc && c == d && decide (ib < ia)) || (rd == rc && c != d && false)
    | _, _, _ => false

/-- **every update rule only reads values that are already up to date in the canonical order** -/
theorem order_respects_reads : recordedReads.all readRespected = true := by decide +kernel

/-- every class that has calculated attributes has a rank in the canonical order -/
theorem every_class_ranked :
    (calculatedAttributes.filter (fun p => !p.2.isEmpty)).all (fun p => (classRank p.1).isSome) = true := by decide

end Efp.Props.C18

import Efp.Proofs.Val
import Efp.Props.C03
import Efp.Theory.Incr
/-!
# C06 — a what-if simulation computes what really making the change would

A dated simulation (i) cuts every hourly ancestor that is not recomputed at the date
(`Series.filterFrom`), (ii) recomputes the same chain with the same rules, (iii) pairs
`values_to_recompute` with `recomputed_values` position by position.
* At the first hour of the modelled period the cut is the identity, so the simulation runs the
  same rules on the same inputs as the real update (`filter_at_first_hour_is_identity`).
* The rules are *causal*: every series primitive the rules use maps series without hours before
  the date to series without hours before the date (`KeysGe` lemmas), so simulated series contain
  no hour before the date when every input still has hours at/after it.
  At system level (`simulated_values_start_at_date`): for **any** rule system whose rules propagate
  "no hour before the date" from their reads to their result, once the ancestors outside the chain
  have been cut at the date every recomputed value has no hour before it — the exceptions found on
  the real code (D20–D22, D26) are exactly the cases in which an ancestor is *not* cut.
* The date check and the twin pairing are stated on their models.
-/
namespace Efp.Props.C06
open Efp Efp.Series

/-- no hour before `d` -/
def KeysGe (d : Int) (s : Series) : Prop := ∀ k ∈ keys s, d ≤ k

/-! ## the cut at the simulation date -/

theorem keys_filterFrom (d : Int) (s : Series) (k : Int) :
    k ∈ keys (filterFrom d s) ↔ k ∈ keys s ∧ d ≤ k := by
  unfold filterFrom keys
  simp only [List.mem_map, List.mem_filter, decide_eq_true_eq, ge_iff_le]
  constructor
  · rintro ⟨p, ⟨hp, hd⟩, rfl⟩; exact ⟨⟨p, hp, rfl⟩, hd⟩
  · rintro ⟨⟨p, hp, rfl⟩, hd⟩; exact ⟨p, ⟨hp, hd⟩, rfl⟩

/-- what is kept starts at the date -/
theorem keysGe_filterFrom (d : Int) (s : Series) : KeysGe d (filterFrom d s) :=
  fun k hk => ((keys_filterFrom d s k).mp hk).2

/-- **at the first hour of the modelled period the cut is the identity**: the simulation then runs
the same rules, along the same chain, on the same inputs as really applying the change -/
theorem filter_at_first_hour_is_identity (d : Int) (s : Series) (h : KeysGe d s) : filterFrom d s = s := by
  unfold filterFrom
  rw [List.filter_eq_self]
  intro p hp
  have := h p.1 (List.mem_map_of_mem (f := Prod.fst) hp)
  simpa using this

/-- nothing at or after the date is lost by the cut -/
theorem get_filterFrom (d : Int) (s : Series) (t : Int) (ht : d ≤ t) : get (filterFrom d s) t = get s t := by
  induction s with
  | nil => rfl
  | cons p rest ih =>
    obtain ⟨k, v⟩ := p
    unfold filterFrom at ih ⊢
    simp only [List.filter_cons]
    by_cases hk : d ≤ k
    · simp only [ge_iff_le, hk, decide_true, if_true, get_cons, ih]
    · simp only [ge_iff_le, hk, decide_false, Bool.false_eq_true, if_false, get_cons, ih]
      have : ¬ k = t := by omega
      simp [this]

/-! ## the rules are causal -/

theorem keysGe_add (d : Int) (a b : Series) (ha : KeysGe d a) (hb : KeysGe d b) : KeysGe d (add a b) := by
  intro k hk
  rw [keys_add, mem_unionKeys] at hk
  rcases hk with h | h
  · exact ha k h
  · exact hb k h

theorem keysGe_scale (d : Int) (c : Rat) (a : Series) (ha : KeysGe d a) : KeysGe d (scale c a) := by
  intro k hk; rw [keys_scale] at hk; exact ha k hk

theorem keysGe_mapVals (d : Int) (f : Rat → Rat) (a : Series) (ha : KeysGe d a) : KeysGe d (mapVals f a) := by
  intro k hk; rw [keys_mapVals] at hk; exact ha k hk

/-- shifts are by non-negative whole hours (time already spent in a journey, hours of a request) -/
theorem keysGe_shift (d : Int) (h : Int) (hh : 0 ≤ h) (a : Series) (ha : KeysGe d a) : KeysGe d (shift h a) := by
  intro k hk
  rw [keys_shift, List.mem_map] at hk
  obtain ⟨k0, hk0, rfl⟩ := hk
  have := ha k0 hk0
  nlinarith

theorem keysGe_sumShifts (d : Int) (s : Series) (hs : KeysGe d s) (n : Nat) : KeysGe d (sumShifts s n) := by
  induction n with
  | zero => intro k hk; simp [sumShifts] at hk
  | succ n ih => exact keysGe_add d _ _ ih (keysGe_shift d n (by omega) s hs)

/-- occurrence-hours, journeys in parallel -/
theorem keysGe_avgOcc (d : Int) (s : Series) (hs : KeysGe d s) (dh : Rat) : KeysGe d (avgOccSeries s dh) := by
  unfold avgOccSeries
  simp only
  split
  · split
    · exact keysGe_scale d _ _ (keysGe_shift d _ (by omega) s hs)
    · exact keysGe_add d _ _ (keysGe_sumShifts d s hs _) (keysGe_scale d _ _ (keysGe_shift d _ (by omega) s hs))
  · exact keysGe_sumShifts d s hs _

theorem keys_cumsumAux (acc : Rat) (a : Series) : keys (cumsumAux acc a) = keys a := by
  induction a generalizing acc with
  | nil => rfl
  | cons p rest ih => obtain ⟨k, v⟩ := p; simp [cumsumAux, ih]

/-- cumulative storage -/
theorem keysGe_cumsum (d : Int) (a : Series) (ha : KeysGe d a) : KeysGe d (cumsum a) := by
  intro k hk; unfold cumsum at hk; rw [keys_cumsumAux] at hk; exact ha k hk

/-- job occurrences computed from UTC starts that begin at the date begin at the date (delays ≥ 0) -/
theorem keysGe_occurrences (d : Int) (utc : HQ) (hs : Sorted utc.vals) (hu : utc.unit.scale ≠ 0)
    (hge : KeysGe d utc.vals) (ds : List Int) (hds : ∀ x ∈ ds, 0 ≤ x) (t : Int) (ht : t < d) :
    ∃ v, occFold (.h utc) ds = .ok v ∧ v.physAt t = 0 := by
  obtain ⟨v, hv, hp, _⟩ := C03.occurrences_conserved utc hs hu ds
  refine ⟨v, hv, ?_⟩
  rw [hp t]
  apply List.sum_eq_zero
  intro x hx
  rw [List.mem_map] at hx
  obtain ⟨dl, hdl, rfl⟩ := hx
  have hnot : t - 3600 * dl ∉ keys utc.vals := by
    intro hm
    have := hge _ hm
    have := hds dl hdl
    nlinarith
  simp [HQ.phys, get_eq_zero_of_not_mem _ _ hnot]

/-! ## twins -/

/-- **system-level causality of a dated simulation**: every value recomputed along the chain has no
hour before the date, for every rule system with causal rules, every chain in an order that respects
the reads, provided every value the chain reads from outside has been cut at the date -/
theorem simulated_values_start_at_date {N : Type} [DecidableEq N] (S : Efp.Theory.RuleSys N Series) (d : Int)
    (hcausal : ∀ n σ, (∀ m ∈ S.reads n, KeysGe d (σ m)) → KeysGe d (S.rule n σ))
    (chain : List N) (hnd : chain.Nodup)
    (hord : ∀ l₁ n l₂, chain = l₁ ++ n :: l₂ → ∀ m ∈ S.reads n, m ∉ l₂ ∧ m ≠ n)
    (σ : N → Series) (hcut : ∀ n ∈ chain, ∀ m ∈ S.reads n, m ∉ chain → KeysGe d (σ m)) :
    ∀ n ∈ chain, KeysGe d (Efp.Theory.run S σ chain n) :=
  Efp.Theory.run_pred S (KeysGe d) hcausal chain hnd σ hord hcut

/-- … and what "cut at the date" provides: the filtered ancestors satisfy the hypothesis -/
theorem cut_ancestors_satisfy_hypothesis {N : Type} [DecidableEq N] (d : Int) (σ : N → Series) (outside : List N) :
    ∀ m ∈ outside, KeysGe d ((fun k => if k ∈ outside then filterFrom d (σ k) else σ k) m) := by
  intro m hm
  simp only [hm, if_true]
  exact keysGe_filterFrom d (σ m)

/-- every recomputed baseline value is paired with its simulated twin and vice versa: the two lists
have the same length and are zipped position by position -/
theorem twins_paired {α β : Type} (chain : List α) (recompute : α → β) :
    (chain.map recompute).length = chain.length ∧
    ∀ i (hi : i < chain.length), (chain.zip (chain.map recompute))[i]? = some (chain[i], recompute chain[i]) := by
  refine ⟨by simp, ?_⟩
  intro i hi
  simp [List.getElem?_zip_eq_some, hi]

/-! ## the date check -/

inductive DateOutcome | naive | outside | ok
deriving DecidableEq, Repr

/-- the date check of `ModelingUpdate` (`min`/`max` over the hourly ancestors that are not recomputed) -/
def checkDate (aware : Bool) (date gmin gmax : Int) : DateOutcome :=
  if !aware then .naive else if gmin ≤ date ∧ date ≤ gmax then .ok else .outside

theorem naive_date_rejected (date gmin gmax : Int) : checkDate false date gmin gmax = .naive := rfl

theorem date_outside_rejected (date gmin gmax : Int) (h : date < gmin ∨ gmax < date) :
    checkDate true date gmin gmax = .outside := by
  unfold checkDate
  have : ¬ (gmin ≤ date ∧ date ≤ gmax) := by omega
  simp [this]

theorem date_inside_accepted (date gmin gmax : Int) (h : gmin ≤ date ∧ date ≤ gmax) :
    checkDate true date gmin gmax = .ok := by
  simp [checkDate, h]

/-! ## non-vacuity -/
example : KeysGe 3600 [(3600, 1), (7200, 2)] := by intro k hk; simp [keys] at hk; omega
example : filterFrom 3600 [(0, 5), (3600, 1), (7200, 2)] = [(3600, 1), (7200, 2)] := by decide +kernel

end Efp.Props.C06

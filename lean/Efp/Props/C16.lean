import Efp.Model.ListOps
/-!
# C16 — links between objects stay consistent under every kind of edit

Over Model D's list operations (run against the real `ListLinkedToModelingObj` by `K-links`):
* an operation that a Python list refuses is refused with the same exception and changes nothing;
* an operation that really changes the content leaves exactly the content Python list semantics
  gives, in a list attached to its owner;
* reverse look-ups are derived from the forward links, so they agree by construction, and an
  object that is still referenced has a non-empty reverse look-up (what `self_delete` tests).
The full statement "including operations that change nothing" is **false** of the code: a no-op
mutator leaves the owner holding a detached list (finding D11) — stated as counterexamples.
-/
namespace Efp.Props.C16
open Efp.ListOps

/-- a refused operation is refused with Python's own exception and changes nothing -/
theorem python_error_propagates (s : LState) (op : Op) (e : PyErr) (h : pyOp s.content op = .error e) :
    step s op = (s, some e) := by
  simp [step, h]

/-- **content = Python list semantics** for every operation that changes the content
(`remove` excepted: see below) -/
theorem effective_op_content (s : LState) (op : Op) (c' : List Obj) (h : pyOp s.content op = .ok c')
    (hne : c' ≠ s.content) (hrm : ∀ x, op ≠ .remove x) :
    step s op = ({ content := c', attached := true }, none) := by
  unfold step
  rw [h]
  cases op <;> simp_all

/-- assignment of a new list always installs exactly that list, attached -/
theorem assign_content (s : LState) (xs : List Obj) :
    step s (.assign xs) = ({ content := xs, attached := true }, none) := by
  simp [step, pyOp]

/-- `remove(x)` of a present element does update the content as Python would … and then raises
(finding D11: `set_modeling_obj_container` is called on the object instead of its wrapper) -/
theorem remove_applies_then_raises (s : LState) (x : Obj) (h : s.content.contains x = true)
    (hne : s.content.erase x ≠ s.content) :
    step s (.remove x) = ({ content := s.content.erase x, attached := true }, some .attributeError) := by
  have hx : x ∈ s.content := by simpa using h
  simp [step, pyOp, hx, hne]

/-- **counterexample to the full statement** (finding D11): an operation that changes nothing
(`extend([])`, `x[i] = x[i]`, `clear()` on an empty list) leaves the owner holding a detached list -/
theorem noop_mutator_detaches :
    (step ⟨[1, 2], true⟩ (.extend [])).1.attached = false ∧
    (step ⟨[1, 2], true⟩ (.setitem 0 1)).1.attached = false ∧
    (step ⟨[], true⟩ .clear).1.attached = false := by decide

/-- the partial statement that does hold: operations that change the content keep the list attached -/
theorem effective_op_keeps_attached (s : LState) (op : Op) (c' : List Obj) (h : pyOp s.content op = .ok c')
    (hne : c' ≠ s.content) : (step s op).1.attached = true ∧ (step s op).1.content = c' := by
  unfold step
  rw [h]
  cases op <;> simp_all

/-! ## forward links and reverse look-ups agree -/

/-- an owner is reported as a container of `x` exactly when its list currently contains `x` -/
theorem reverse_lookup_iff (owners : List (Nat × LState)) (x : Obj) (o : Nat) :
    o ∈ containers owners x ↔ ∃ st, (o, st) ∈ owners ∧ st.content.contains x = true := by
  unfold containers
  simp only [List.mem_map, List.mem_filter]
  constructor
  · rintro ⟨⟨o', st⟩, ⟨hm, hc⟩, rfl⟩; exact ⟨st, hm, hc⟩
  · rintro ⟨st, hm, hc⟩; exact ⟨(o, st), ⟨hm, hc⟩, rfl⟩

/-- an object that is still referenced cannot pass the deletion guard (non-empty reverse look-up) -/
theorem referenced_object_has_containers (owners : List (Nat × LState)) (x : Obj) (o : Nat) (st : LState)
    (hm : (o, st) ∈ owners) (hc : st.content.contains x = true) : containers owners x ≠ [] := by
  unfold containers
  intro h
  have : (o, st) ∈ owners.filter (fun o => o.2.content.contains x) := List.mem_filter.mpr ⟨hm, hc⟩
  have h2 : o ∈ (owners.filter (fun o => o.2.content.contains x)).map (·.1) := List.mem_map.mpr ⟨(o, st), this, rfl⟩
  rw [h] at h2
  cases h2

/-! ## non-vacuity -/
example : pyOp [1, 2, 3] (.insert 1 9) = .ok [1, 9, 2, 3] := by rfl
example : pyOp [1, 2, 3] (.pop 5) = .error .indexError := by rfl
example : step ⟨[1, 2, 3], true⟩ (.append 4) = (⟨[1, 2, 3, 4], true⟩, none) := by decide

end Efp.Props.C16

import Efp.Proofs.Val
import Efp.Proofs.Sign
import Efp.Props.C09
import Mathlib.Algebra.Order.Field.Basic
import Mathlib.Tactic.Positivity
import Mathlib.Tactic.GCongr
import Mathlib.Tactic.NormNum
/-!
# C02 — the system footprint accounts for every component exactly once

Theorems about the parts of Model B that `System.update_total_footprint` and the views are made
of: the de-duplicated collections, the hour-by-hour sum (`sumVals`), the final rounding, and
"energy footprint = energy × carbon intensity".
-/
namespace Efp.Props.C02
open Efp

/-! ## each component exactly once -/

theorem dedup_aux (l acc : List String) (hacc : acc.Nodup) :
    (l.foldl (fun acc x => if acc.contains x then acc else acc ++ [x]) acc).Nodup ∧
    ∀ x, x ∈ l.foldl (fun acc x => if acc.contains x then acc else acc ++ [x]) acc ↔ x ∈ acc ∨ x ∈ l := by
  induction l generalizing acc with
  | nil => exact ⟨hacc, by simp⟩
  | cons a as ih =>
    simp only [List.foldl_cons]
    by_cases h : acc.contains a = true
    · simp only [h, if_true]
      obtain ⟨h1, h2⟩ := ih acc hacc
      refine ⟨h1, fun x => ?_⟩
      rw [h2 x]
      have : a ∈ acc := by simpa using h
      constructor
      · rintro (h | h)
        · exact Or.inl h
        · exact Or.inr (List.mem_cons_of_mem _ h)
      · rintro (h | h)
        · exact Or.inl h
        · rcases List.mem_cons.mp h with rfl | h
          · exact Or.inl this
          · exact Or.inr h
    · simp only [h, Bool.false_eq_true, if_false]
      have hna : a ∉ acc := by simpa using h
      have hnd : (acc ++ [a]).Nodup := by
        rw [List.nodup_append]
        refine ⟨hacc, by simp, ?_⟩
        intro x hx y hy
        simp only [List.mem_singleton] at hy
        subst hy
        exact fun e => hna (e ▸ hx)
      obtain ⟨h1, h2⟩ := ih (acc ++ [a]) hnd
      refine ⟨h1, fun x => ?_⟩
      rw [h2 x]
      simp only [List.mem_append, List.mem_singleton, List.mem_cons]
      tauto

/-- **Every server / storage / network reachable from the usage patterns is counted exactly once**,
however many patterns, journeys or jobs share it: the collection the system sums over has no
duplicates and contains exactly the reachable names. -/
theorem counted_exactly_once (reachable : List String) :
    (dedup reachable).Nodup ∧ ∀ x, x ∈ dedup reachable ↔ x ∈ reachable := by
  obtain ⟨h1, h2⟩ := dedup_aux reachable [] List.nodup_nil
  exact ⟨h1, fun x => by unfold dedup; rw [h2 x]; simp⟩

/-! ## hour by hour the total is the sum of the parts -/

/-- the un-rounded total at every hour is the sum of the footprints of the parts, and the total
over the period is the sum of the parts' totals (so the per-category, per-object and
summed-over-period views — all of them `sumVals` of sub-lists of the same parts — agree) -/
theorem total_is_sum_of_parts (u : Efp.Unit) (hu : u.scale ≠ 0) (parts : List Val)
    (hparts : ∀ v ∈ parts, v.HourlyIn u) :
    ∃ r, sumVals .empty parts = .ok r ∧
      (∀ t, r.physAt t = (parts.map (fun v => v.physAt t)).sum) ∧
      r.totalPhys = (parts.map Val.totalPhys).sum := by
  obtain ⟨r, h, _, hp, ht⟩ := sumVals_spec u hu parts .empty (Or.inl rfl) hparts
  exact ⟨r, h, by intro t; rw [hp t]; simp [Val.physAt], by rw [ht]; simp [Val.totalPhys]⟩

/-- splitting the parts into categories (servers, storage, network, devices) and summing the
category sums gives the same hourly total: the views are consistent -/
theorem views_consistent (u : Efp.Unit) (hu : u.scale ≠ 0) (cat1 cat2 : List Val)
    (h1 : ∀ v ∈ cat1, v.HourlyIn u) (h2 : ∀ v ∈ cat2, v.HourlyIn u) :
    ∃ r r1 r2, sumVals .empty (cat1 ++ cat2) = .ok r ∧ sumVals .empty cat1 = .ok r1 ∧
      sumVals .empty cat2 = .ok r2 ∧ (∀ t, r.physAt t = r1.physAt t + r2.physAt t) ∧
      r.totalPhys = r1.totalPhys + r2.totalPhys := by
  obtain ⟨r, hr, hp, ht⟩ := total_is_sum_of_parts u hu (cat1 ++ cat2) (by
    intro v hv; rcases List.mem_append.mp hv with h | h
    · exact h1 v h
    · exact h2 v h)
  obtain ⟨r1, hr1, hp1, ht1⟩ := total_is_sum_of_parts u hu cat1 h1
  obtain ⟨r2, hr2, hp2, ht2⟩ := total_is_sum_of_parts u hu cat2 h2
  refine ⟨r, r1, r2, hr, hr1, hr2, ?_, ?_⟩
  · intro t; rw [hp t, hp1 t, hp2 t]; simp
  · rw [ht, ht1, ht2]; simp

/-! ## the final rounding to 4 decimals -/

theorem pow10_pos (n : Nat) : (0 : Rat) < (10 : Rat) ^ n := by positivity

/-- `round(x, n)` moves a value by at most half a unit of the last kept decimal -/
theorem round_error (x : Rat) (n : Nat) : |roundHalfEven x n - x| ≤ 1 / (2 * (10 : Rat) ^ n) := by
  have hs := pow10_pos n
  unfold roundHalfEven
  simp only
  set s : Rat := (10 : Rat) ^ n with hsdef
  set y := x * s with hy
  have hfl := Rat.floor_le y
  have hlt := Rat.lt_floor_add_one y
  have key : ∀ k : Int, |(k : Rat) - y| ≤ 1 / 2 → |(k : Rat) / s - x| ≤ 1 / (2 * s) := by
    intro k hk
    have : (k : Rat) / s - x = ((k : Rat) - y) / s := by rw [hy]; field_simp
    rw [this, abs_div, abs_of_pos hs]
    have h2 : 1 / (2 * s) = (1 / 2) / s := by field_simp
    rw [h2]
    gcongr
  apply key
  push_cast at hlt
  split
  · rename_i h; rw [abs_le]; constructor <;> linarith
  · split
    · rename_i h1 h2; push_cast; rw [abs_le]; constructor <;> linarith
    · rename_i h1 h2
      have : y - (y.floor : Rat) = 1 / 2 := le_antisymm (not_lt.mp h2) (not_lt.mp h1)
      split
      · rw [abs_le]; constructor <;> linarith
      · push_cast; rw [abs_le]; constructor <;> linarith

/-- the displayed total is within 5·10⁻⁵ (kg) of the exact sum of the parts -/
theorem rounded_total_close (x : Rat) : |roundHalfEven x 4 - x| ≤ 5 / 100000 := by
  have := round_error x 4
  norm_num at this ⊢
  exact this

/-! ## energy footprint = energy × the carbon intensity that applies -/

/-- for servers and storage (intensity of the server), devices (intensity of the pattern's country)
and each usage pattern's share of a network: the footprint at every hour is the energy at that
hour times the intensity, in physical units, whatever units the two are expressed in -/
theorem energy_footprint_is_energy_times_intensity (energy fp fpkg : HQ) (ci : Qty)
    (h : Val.mul (.h energy) (.q ci) = .ok (.h fp)) (hk : fp.to U.kg = .ok fpkg) (t : Int) :
    fpkg.phys t = energy.phys t * ci.phys := by
  rw [C09.hourly_to_phys fp fpkg U.kg (by decide) hk t, C09.hourly_mul_scalar ci energy fp h t]

/-! ## sign: every footprint value is non-negative when no job deletes data

The footprint rules combine their inputs with `+`, `×`, `÷`, `.to`, `ceil`, shifts, occurrence sums,
running sums, `.sum()` and `.max()` only — subtraction appears in the storage deletions (C04) and
nowhere else — and each of these keeps non-negative values non-negative (`Proofs/Sign.lean`). -/

/-- **the total of non-negative parts is non-negative at every hour** -/
theorem total_nonneg (parts : List Val) (hparts : ∀ v ∈ parts, v.NonNeg) (r : Val)
    (h : sumVals .empty parts = .ok r) (t : Int) : 0 ≤ r.physAt t ∧ 0 ≤ r.totalPhys :=
  have hr := nonNeg_sumVals parts .empty r trivial hparts h
  ⟨Val.physAt_nonneg r hr t, Val.totalPhys_nonneg r hr⟩

/-- energy footprint = energy × intensity is non-negative for non-negative energy and intensity -/
theorem energy_footprint_nonneg (energy ci fp : Val) (he : energy.NonNeg) (hc : ci.NonNeg)
    (h : energy.mul ci = .ok fp) (t : Int) : 0 ≤ fp.physAt t :=
  Val.physAt_nonneg fp (Val.nonNeg_mul energy ci fp he hc h) t

/-- the hourly occurrences of a job (journey starts shifted by each delay and accumulated) are
non-negative for non-negative journey starts -/
theorem occurrences_nonneg (utc : Val) (hu : utc.NonNeg) (delays : List Int) (v : Val)
    (h : occFold utc delays = .ok v) : v.NonNeg := by
  unfold occFold at h
  have key : ∀ (dl : List Int) (acc : Val), acc.NonNeg → ∀ v, dl.foldlM (fun occ d => do occ.add (← utc.shiftBy d)) acc = .ok v → v.NonNeg := by
    intro dl
    induction dl with
    | nil =>
      intro acc hacc v hv
      simp only [List.foldlM, pure, Except.pure, Except.ok.injEq] at hv
      subst hv; exact hacc
    | cons d ds ih =>
      intro acc hacc v hv
      simp only [List.foldlM, bind, Except.bind] at hv
      cases hs : utc.shiftBy d with
      | error e => simp [hs] at hv
      | ok sh =>
        simp only [hs] at hv
        cases ha : acc.add sh with
        | error e => simp [ha] at hv
        | ok acc' =>
          simp only [ha] at hv
          exact ih acc' (Val.nonNeg_add acc sh acc' hacc (Val.nonNeg_shiftBy utc sh d hu hs) ha) v hv
  exact key delays .empty trivial v h

/-- average occurrences in parallel (journeys, requests) are non-negative for non-negative starts -/
theorem avg_occurrences_nonneg (starts duration v : Val) (hs : starts.NonNeg)
    (h : nbAvgHourlyOccurrences starts duration = .ok v) : v.NonNeg := by
  unfold nbAvgHourlyOccurrences at h
  cases hm : duration.magnitude with
  | error e => simp [hm, bind, Except.bind] at h
  | ok dmag =>
    simp only [hm, bind, Except.bind] at h
    cases starts with
    | empty => simp only [pure, Except.pure, Except.ok.injEq] at h; subst h; trivial
    | q x => cases h
    | h st =>
      simp only at h
      split at h
      · simp only [pure, Except.pure, Except.ok.injEq] at h; subst h; trivial
      · cases duration with
        | empty => simp [throw, throwThe, MonadExceptOf.throw] at h
        | h y => simp [throw, throwThe, MonadExceptOf.throw] at h
        | q d =>
          simp only at h
          cases hd : d.to U.hour with
          | error e => simp [hd, bind, Except.bind] at h
          | ok d' =>
            simp only [hd, bind, Except.bind, pure, Except.pure, Except.ok.injEq] at h
            subst h
            exact ⟨nonNeg_avgOcc st.vals hs.1 _, hs.2⟩

/-! ## non-vacuity -/
example : (Val.h ⟨[(0, 1), (3600, 0)], U.kg⟩).NonNeg := ⟨by intro p hp; simp at hp; rcases hp with rfl | rfl <;> simp, by decide⟩
example : dedup ["sv0", "sv1", "sv0"] = ["sv0", "sv1"] := by decide
example : (Val.h ⟨[(0, 1)], U.kg⟩).HourlyIn U.kg := Or.inr ⟨_, rfl, by decide⟩

end Efp.Props.C02

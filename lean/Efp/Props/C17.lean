import Efp.Model.Builders
import Efp.Props.C09
import Efp.Theory.Incr
/-!
# C17 — service and cloud-server builders are faithful shorthand

In Model B a job enters `computeSystem` only through its five parameters (data transferred, data
stored, request duration, compute needed, RAM needed) and a service only through the base
consumptions it adds to its server (`ServerS.svcBaseRam / svcBaseCompute`): a builder job **is** the
plain job carrying the derived parameters, by construction of the model, and the `K-calc` /
`K-builders` suites compare that model with real builder systems.  What is proved here are the
stated derivation rules, in physical units, for every input and whatever units the inputs use.
-/
namespace Efp.Props.C17
open Efp Efp.Builders

/-- **bitrate = pixels × bits per pixel × frame rate** -/
theorem video_bitrate_rule (i : VideoIn) (br : Qty) (h : videoBitrate i = .ok br) :
    br.phys = (i.pixels : Rat) * i.bitsPerPixel.phys * i.refreshRate.phys := by
  unfold videoBitrate at h
  have := (C09.phys_to _ br MBps (by decide) h).1
  rw [this, C09.phys_mul, C09.phys_mul]
  simp [Qty.phys, U.dimless]

/-- **data transferred = bitrate × duration**, compute = CPU cost × bitrate, request duration = video
duration, RAM = buffer per user -/
theorem video_rules (i : VideoIn) (p : JobParams) (h : videoDerive i = .ok p) :
    ∃ br, videoBitrate i = .ok br ∧
      p.dataTransferred.phys = i.videoDuration.phys * br.phys ∧
      p.computeNeeded.phys = i.cpuCost.phys * br.phys ∧
      p.requestDuration = i.videoDuration ∧ p.ramNeeded = i.ramBuffer := by
  unfold videoDerive at h
  cases hb : videoBitrate i with
  | error e => simp [hb, bind, Except.bind] at h
  | ok br =>
    simp only [hb, bind, Except.bind] at h
    cases hd : (i.videoDuration.mul br).to U.GB with
    | error e => simp [hd] at h
    | ok data =>
      simp only [hd] at h
      cases hc : (i.cpuCost.mul br).to cpuCore with
      | error e => simp [hc] at h
      | ok cpu =>
        simp only [hc, pure, Except.pure] at h
        injection h with h
        subst h
        refine ⟨br, rfl, ?_, ?_, rfl, rfl⟩
        · rw [(C09.phys_to _ data U.GB (by decide) hd).1, C09.phys_mul]
        · rw [(C09.phys_to _ cpu cpuCore (by decide) hc).1, C09.phys_mul]

/-- generative AI: token weights = tokens × bits per token; data = 100 kB + token weights; latency =
tokens × (α × active parameters + β); GPUs = memory factor × active parameters × bits per parameter /
RAM per GPU; the service's base RAM = memory factor × total parameters × bits per parameter -/
theorem genai_rules (i : GenAIIn) (o : GenAIOut) (h : genaiDerive i = .ok o)
    (hα : (i.latencyAlpha.mul i.activeParams).unit.scale ≠ 0) (hr : i.ramPerGpu.unit.scale ≠ 0) :
    o.tokenWeights.phys = i.outputTokens.phys * i.bitsPerToken.phys ∧
    o.dataTransferred.phys = 100 * 8000 + o.tokenWeights.phys ∧
    o.dataStored = o.dataTransferred ∧
    o.requestDuration.phys = i.outputTokens.phys * (i.latencyAlpha.phys * i.activeParams.phys + i.latencyBeta.phys) ∧
    o.computeNeeded.phys = i.memoryFactor.phys * i.activeParams.phys * i.bitsPerParam.phys / i.ramPerGpu.phys ∧
    o.serviceBaseRam.phys = i.memoryFactor.phys * i.totalParams.phys * i.bitsPerParam.phys := by
  unfold genaiDerive at h
  simp only [bind, Except.bind] at h
  cases hw : (i.outputTokens.mul i.bitsPerToken).to kB with
  | error e => simp [hw] at h
  | ok w =>
    simp only [hw] at h
    cases hd : (Qty.mk 100 kB).add w with
    | error e => simp [hd] at h
    | ok data =>
      simp only [hd] at h
      cases hl : (i.latencyAlpha.mul i.activeParams).add i.latencyBeta with
      | error e => simp [hl] at h
      | ok lat =>
        simp only [hl] at h
        cases hq : ((i.memoryFactor.mul i.activeParams).mul i.bitsPerParam).div i.ramPerGpu with
        | error e => simp [hq] at h
        | ok qd =>
          simp only [hq] at h
          cases hc : qd.to gpuU with
          | error e => simp [hc] at h
          | ok cpu =>
            simp only [hc] at h
            cases hb : ((i.memoryFactor.mul i.totalParams).mul i.bitsPerParam).to U.GB with
            | error e => simp [hb] at h
            | ok base =>
              simp only [hb, pure, Except.pure] at h
              injection h with h
              subst h
              refine ⟨?_, ?_, rfl, ?_, ?_, ?_⟩
              · rw [(C09.phys_to _ w kB (by decide) hw).1, C09.phys_mul]
              · rw [(C09.phys_add _ w data (by decide) hd).1]; simp [Qty.phys, kB]
              · rw [C09.phys_mul, (C09.phys_add _ _ lat hα hl).1, C09.phys_mul]
              · rw [(C09.phys_to _ cpu gpuU (by decide) hc).1, (C09.phys_div _ _ qd hr hq).1, C09.phys_mul, C09.phys_mul]
              · rw [(C09.phys_to _ base U.GB (by decide) hb).1, C09.phys_mul, C09.phys_mul]

/-- a builder input enters the derived parameters only through these formulas: scaling the frame
rate by `k` scales bitrate, data transferred and compute need by `k` (so a changed builder input
changes the derived parameters accordingly) -/
theorem video_refresh_rate_drives_data (i : VideoIn) (k : Rat) (p p' : JobParams)
    (h : videoDerive i = .ok p)
    (h' : videoDerive { i with refreshRate := ⟨k * i.refreshRate.mag, i.refreshRate.unit⟩ } = .ok p') :
    p'.dataTransferred.phys = k * p.dataTransferred.phys := by
  obtain ⟨br, hb, hd, _, _, _⟩ := video_rules i p h
  obtain ⟨br', hb', hd', _, _, _⟩ := video_rules _ p' h'
  rw [hd, hd', video_bitrate_rule i br hb, video_bitrate_rule _ br' hb']
  simp only [Qty.phys]; ring

/-! ## builder model ≡ plain model, at system level -/

/-- the same rules in which the values selected by `F` (the derived parameters of the builder jobs and
the base consumptions their services add to the server) are inputs instead of calculated values: the
*plain* model -/
def plain {N V : Type} (S : Efp.Theory.RuleSys N V) (F : N → Bool) : Efp.Theory.RuleSys N V :=
  { S with isCalc := fun n => S.isCalc n && !F n }

/-- **a builder model gives exactly the results of the plain model carrying the derived parameters**:
`σ` = the computed builder model, `τ` = any computed plain model whose inputs (the derived parameters
among them) have the builder model's values — they agree on every value, for every rule system with
well-founded reads and every choice `F` of derived values -/
theorem builder_model_equals_plain_model {N V : Type} (S : Efp.Theory.RuleSys N V) (F : N → Bool) (rk : N → Nat)
    (wf : ∀ n, S.isCalc n = true → ∀ m ∈ S.reads n, rk m < rk n)
    (σ τ : N → V) (hσ : Efp.Theory.Consistent S σ) (hτ : Efp.Theory.Consistent (plain S F) τ)
    (hin : ∀ n, (plain S F).isCalc n = false → τ n = σ n) : ∀ n, τ n = σ n := by
  have hσ' : Efp.Theory.Consistent (plain S F) σ := by
    intro n hn
    have : S.isCalc n = true := by
      simp only [plain, Bool.and_eq_true] at hn
      exact hn.1
    exact hσ n this
  have wf' : ∀ n, (plain S F).isCalc n = true → ∀ m ∈ (plain S F).reads n, rk m < rk n := by
    intro n hn m hm
    have : S.isCalc n = true := by
      simp only [plain, Bool.and_eq_true] at hn
      exact hn.1
    exact wf n this m hm
  exact Efp.Theory.consistent_unique (plain S F) rk wf' τ σ hτ hσ' hin

/-- … and the edits: after any accepted edit of a builder input both models are again consistent
(C01), so the equality above holds after every edit history as well; a derived value that is *not*
refreshed (seed C17-c: the service no longer lists its jobs as dependents) is a non-consistent `σ` -/
theorem stale_derived_value_is_not_consistent {N V : Type} (S : Efp.Theory.RuleSys N V) (σ : N → V) (n : N)
    (hn : S.isCalc n = true) (hstale : σ n ≠ S.rule n σ) : ¬ Efp.Theory.Consistent S σ :=
  fun h => hstale (h n hn)

/-! ## non-vacuity: 1080p, 0.1 bit per pixel, 30 fps, 1 hour -/
example : (videoDerive ⟨1920 * 1080, ⟨1/10, U.dimless⟩, ⟨30, ⟨1, { time := -1 }⟩⟩, ⟨1, U.hour⟩,
    ⟨4, ⟨1 / 8000000000, { cpu := 1, time := 1 }⟩⟩, ⟨50, ⟨8000000, {}⟩⟩⟩).map (·.dataTransferred)
    = .ok ⟨(1920 * 1080 * 3 * 3600 : Rat) / 8000000000, U.GB⟩ := by decide +kernel

end Efp.Props.C17

import Efp.Theory.Checker
import Efp.Model.Graph
import Efp.Proofs.Chain
import Efp.Proofs.ChainTerm
import Efp.Proofs.Links
import Efp.Proofs.LinksUpdate
import Efp.Proofs.EditCycle
import Efp.Props.C18
import Efp.Generated.Depends
/-!
# C08 — the calculation graph is consistent and complete

*Consistent*: `Efp.Graph.graphInv` (every dependency listed on both ends, only live values, no
cycle) is an executable test that the check run evaluates, in Lean, on the graph exported from the
real code after builds, edit histories, simulations and toggles (`K-graph`).
*Update order*: a chain accepted by the verified checker `chainOk` lists each dependent exactly
once, after everything it depends on, and contains **every** dependent of the edited inputs
(`update_order_*` below, for every graph).  The order the code itself derives has these properties
on every graph without shared ids (`code_update_order_correct`, proved about the literal port of
`attr_updates_chain` in `Proofs/Chain.lean`), and on acyclic graphs with mirrored links the
algorithm terminates (`code_update_order_terminates`, `Proofs/ChainTerm.lean`).
*Link bookkeeping* (Model F, `Model/Links.lean`: a literal port of `ExplainableObject.__init__`,
`set_modeling_obj_container`, `add/remove_child…`, `ModelingObject.__setattr__` and
`replace_in_mod_obj_container_without_recomputation`, compared with the real code on random
operation sequences by `K-bookkeeping`): after **any** sequence of these operations that does not
raise, every attached value is listed by each of its recorded ancestors, every listed child is
attached and records the parent, and ids are unique (`links_mirrored_after_any_operations`).
Swapping detach and attach in `replace…` (seed C08-a) breaks it (`attach_before_detach_breaks_links`).
Values held in a dict: `replace_in_dict_keeps_links_mirrored` (unique ids), `no_relink_breaks_links`
(seed C05-a), `shared_id_breaks_mirror` (the root of D2).  A *whole* accepted update keeps the
graph consistent with the reads, every recorded ancestor live: `accepted_update_keeps_graph_consistent`
(`Proofs/LinksUpdate.lean`), `build_gives_consistent_graph`; and with the chain the *code itself* derives
(Model C's port run on the graph exported from Model F's state): `edit_cycles_keep_graph_consistent`
(`Proofs/EditCycle.lean`).
*Complete* (every true read is a recorded ancestor) is a statement about the rules' bodies; it is
tested by perturbation on the real code and is an assumption (H1) of C01's theorems.
-/
namespace Efp.Props.C08
open Efp.Theory

/-- each dependent is listed exactly once -/
theorem update_order_lists_each_dependent_once (reads : Nat → List Nat) (calcs J chain : List Nat)
    (h : chainOk reads calcs J chain = true) : chain.Nodup := by
  simp only [chainOk, Bool.and_eq_true] at h
  exact nodupOk_sound chain h.1.1

/-- … after everything it depends on: nothing a dependent reads comes later in the order -/
theorem update_order_respects_dependencies (reads : Nat → List Nat) (calcs J chain : List Nat)
    (h : chainOk reads calcs J chain = true) :
    ∀ l₁ n l₂, chain = l₁ ++ n :: l₂ → ∀ m ∈ reads n, m ∉ l₂ ∧ m ≠ n := by
  simp only [chainOk, Bool.and_eq_true] at h
  exact orderedOk_sound reads chain h.2

/-- `n` depends (transitively, through recorded reads) on an edited input -/
inductive DependsOn (reads : Nat → List Nat) (J : List Nat) : Nat → Prop
  | direct {n m : Nat} : m ∈ reads n → m ∈ J → DependsOn reads J n
  | step {n m : Nat} : m ∈ reads n → DependsOn reads J m → DependsOn reads J n

/-- … and the order contains **every** dependent of the edited inputs -/
theorem update_order_contains_every_dependent (reads : Nat → List Nat) (calcs J chain : List Nat)
    (h : chainOk reads calcs J chain = true)
    (hcalc : ∀ n, reads n ≠ [] → n ∈ calcs)                  -- only calculated values have recorded reads
    (n : Nat) (hn : DependsOn reads J n) : n ∈ chain := by
  simp only [chainOk, Bool.and_eq_true] at h
  have hcl := h.1.2
  simp only [closedOk, List.all_eq_true, Bool.or_eq_true, List.contains_eq_mem, decide_eq_true_eq,
    Bool.and_eq_true, Bool.not_eq_true', decide_eq_false_iff_not] at hcl
  induction hn with
  | @direct n m hm hj =>
    have hnc : n ∈ calcs := hcalc n (by intro e; rw [e] at hm; cases hm)
    rcases hcl n hnc with h1 | h1
    · exact h1
    · exact absurd hj (h1.2 m hm).1
  | @step n m hm _ ih =>
    have hnc : n ∈ calcs := hcalc n (by intro e; rw [e] at hm; cases hm)
    rcases hcl n hnc with h1 | h1
    · exact h1
    · exact absurd ih (h1.2 m hm).2

/-- **the update order the code derives** (literal port of `attr_updates_chain`), on every graph
without shared ids, for every edited value and every fuel, whenever it returns: lists no value
twice, contains every value reachable through `direct_children_with_id` and nothing else, and
lists each value after all of its recorded ancestors that are themselves reachable -/
theorem code_update_order_correct (g : Efp.Graph.G) (hwf : Efp.Graph.wfOk g = true) (fuel u : Nat) (hu : u < g.size)
    (chain : List (Nat × Bool)) (h : Efp.Graph.attrUpdatesChain g fuel u = some chain) :
    (chain.map Prod.fst).Nodup ∧
    (∀ y, Efp.Graph.Reach g u y → y ∈ chain.map Prod.fst) ∧
    (∀ y ∈ chain.map Prod.fst, Efp.Graph.Reach g u y) ∧
    (∀ l₁ c l₂, chain.map Prod.fst = l₁ ++ c :: l₂ →
      ∀ a ∈ (g.node c).anc, ∀ k, Efp.Graph.ReachN g u k a → k ≤ fuel → a ∈ l₁) :=
  Efp.Graph.attrUpdatesChain_correct g (Efp.Graph.wfOk_sound g hwf) fuel u hu chain h

/-- **deriving the update order terminates** on acyclic graphs without shared ids whose ancestor
links are mirrored by child links (finding D13 is a hang of this loop when ids are shared) -/
theorem code_update_order_terminates (g : Efp.Graph.G) (fuel u : Nat) (rk : Array Nat)
    (hwf : Efp.Graph.wfOk g = true) (hbi : Efp.Graph.ancInChiOk g = true)
    (hrk : Efp.Graph.rankOk g rk fuel = true) (hu : u < g.size) (hfuel : 2 * g.size + 2 ≤ fuel) :
    ∃ chain, Efp.Graph.attrUpdatesChain g fuel u = some chain :=
  Efp.Graph.attrUpdatesChain_terminates g (Efp.Graph.wfOk_sound g hwf) (fun x => rk[x]!)
    (Efp.Graph.rankOk_RankOK g rk fuel hrk) (Efp.Graph.ancInChiOk_sound g hbi) fuel u hu hfuel

/-- **the bookkeeping operations keep the links mirrored**: for every sequence of value creations,
attribute assignments, replacements and detachments that does not raise -/
theorem links_mirrored_after_any_operations (ops : List Efp.Links.Op)
    (hp : ∀ op ∈ ops, op.isPlain = true)       -- plain attributes (dict-held values: see below)
    (s : Efp.Links.LS) (h : Efp.Links.run ops = .ok s) : Efp.Links.Mirror s ∧ Efp.Links.Uniq s :=
  ⟨(Efp.Links.run_inv ops hp s h).mirror, (Efp.Links.run_inv ops hp s h).slot.uniq⟩

/-- … and one assignment or replacement keeps them mirrored from any state that satisfies the invariant -/
theorem replace_keeps_links_mirrored (s : Efp.Links.LS) (old new : Nat) (s' : Efp.Links.LS)
    (hI : Efp.Links.Inv s) (ho : old < s.size) (hn : new < s.size)
    (h : Efp.Links.replace s old new = .ok s') : Efp.Links.Inv s' :=
  Efp.Links.replace_inv s old new s' hI ho hn h

theorem setattr_keeps_links_mirrored (s : Efp.Links.LS) (sl : Efp.Links.Slot) (v : Nat) (s' : Efp.Links.LS)
    (hI : Efp.Links.Inv s) (hv : v < s.size)
    (h : Efp.Links.setAttr s sl v = .ok s') : Efp.Links.Inv s' :=
  Efp.Links.setAttr_inv s sl v s' hI hv h

/-- **replacing a value held in a per-usage-pattern dict** (`dict[key] = new`, which links the new
value while the old one is still linked; then the old one is unlinked and the new one linked again)
keeps the links mirrored and the ids unique — provided ids are unique before, i.e. every dict holds
one value (no job shared by several usage patterns; with shared ids the statement is false: D2) -/
theorem replace_in_dict_keeps_links_mirrored (s : Efp.Links.LS) (old new : Nat) (s' : Efp.Links.LS)
    (hM : Efp.Links.Mirror s) (hU : Efp.Links.Uniq s) (hnew : (s.get new).cont = none)
    (h : Efp.Links.replaceInDict s old new = .ok s') : Efp.Links.Mirror s' ∧ Efp.Links.Uniq s' :=
  Efp.Links.replaceInDict_links s old new s' hM hU hnew h

/-- **with shared ids the graph cannot be consistent**: if children lists never hold two entries with the
same id (what `add_child_to_direct_children_with_id` enforces) then two attached values with the same id
and a common recorded ancestor — two entries of the per-usage-pattern dict of a job reachable from two usage
patterns — cannot both be listed by it: the statement of C08 (and C01) is false on that domain (D2) -/
theorem shared_ids_cannot_be_mirrored (s : Efp.Links.LS) (hU : Efp.Links.ChiUniq s) (v₁ v₂ a : Nat) (sl : Efp.Links.Slot)
    (h₁ : (s.get v₁).cont = some sl) (h₂ : (s.get v₂).cont = some sl) (hne : v₁ ≠ v₂)
    (ha₁ : a ∈ (s.get v₁).anc) (ha₂ : a ∈ (s.get v₂).anc) : ¬ Efp.Links.Mirror s :=
  Efp.Links.shared_id_contradicts_mirror s hU v₁ v₂ a sl h₁ h₂ hne ha₁ ha₂

/-- input 0 in slot (0,0); value 1 computed from it, held in the dict (0,100) under key 0; a freshly
computed replacement 2 -/
def demoDict : Except Efp.Links.LErr Efp.Links.LS :=
  Efp.Links.run [.mk [], .setAttr (0, 0) 0, .mk [0], .dictSet (0, 100) 0 1, .mk [0]]

/-- **skipping the final re-linking** (an "already linked to this attribute, nothing to do" shortcut
in `set_modeling_obj_container`: seed C05-a) loses the child link: the replacement was not added
because the old value had the same id, and unlinking the old value removed that id -/
theorem no_relink_breaks_links :
    (match demoDict with
     | .ok s => (match Efp.Links.replaceInDictNoRelink s 1 2 with
                 | .ok s' => Efp.Links.mirrorOk s'
                 | .error _ => true)
     | .error _ => true) = false := by decide +kernel

example : (match demoDict with
     | .ok s => (match Efp.Links.replaceInDict s 1 2 with
                 | .ok s' => Efp.Links.mirrorOk s'
                 | .error _ => false)
     | .error _ => false) = true := by decide +kernel

/-- two values sharing an id (two entries of one dict) and an ancestor: only one of them is listed
as a child — the root of finding D2 -/
theorem shared_id_breaks_mirror :
    (match Efp.Links.run [.mk [], .setAttr (0, 0) 0, .mk [0], .mk [0], .dictSet (0, 100) 0 1, .dictSet (0, 100) 1 2] with
     | .ok s => Efp.Links.mirrorOk s
     | .error _ => true) = false := by decide +kernel

/-- **a complete accepted update keeps the graph consistent**: starting from a state in which every
attribute's value records exactly the values currently held by what it reads, replacing the edited
inputs and recomputing the attributes of a chain — in any order that has no repetition, is closed
under "reads something refreshed" and refreshes nothing before what it reads (what `chainOk`
establishes, and what the code's own chain satisfies: `C01.code_chain_total`) — gives a state with
the same property: links mirrored, ids unique, **every recorded ancestor held by the model** -/
theorem accepted_update_keeps_graph_consistent (reads : Efp.Links.Slot → List Efp.Links.Slot) (L : List Efp.Links.Slot)
    (hreads : ∀ n, (reads n).Nodup) (hplain : ∀ n ∈ L, Efp.Links.isDictSlot n = false)
    (hclosed : ∀ n, n ∉ L → ∀ m ∈ reads n, m ∉ L)
    (hordered : ∀ l₁ n l₂, L = l₁ ++ n :: l₂ → ∀ m ∈ reads n, m ∉ l₂ ∧ m ≠ n)
    (s s' : Efp.Links.LS) (hI : Efp.Links.Inv s) (hD : Efp.Links.NoDict s) (hC : Efp.Links.Consistent reads s)
    (h : L.foldlM (Efp.Links.refresh reads) s = .ok s') :
    Efp.Links.Consistent reads s' ∧ Efp.Links.Mirror s' ∧ Efp.Links.Uniq s' ∧ Efp.Links.Live s' := by
  obtain ⟨c, i, l, _⟩ := Efp.Links.update_consistent reads L hreads hplain hclosed hordered s s' hI hD hC h
  exact ⟨c, i.mirror, i.slot.uniq, l⟩

/-- … in particular building a model from nothing, attribute after attribute in an order that respects
the reads, gives a consistent graph (the empty state is consistent) -/
theorem build_gives_consistent_graph (reads : Efp.Links.Slot → List Efp.Links.Slot) (L : List Efp.Links.Slot)
    (hreads : ∀ n, (reads n).Nodup) (hplain : ∀ n ∈ L, Efp.Links.isDictSlot n = false)
    (hclosed : ∀ n, n ∉ L → ∀ m ∈ reads n, m ∉ L)
    (hordered : ∀ l₁ n l₂, L = l₁ ++ n :: l₂ → ∀ m ∈ reads n, m ∉ l₂ ∧ m ≠ n)
    (s' : Efp.Links.LS) (h : L.foldlM (Efp.Links.refresh reads) {} = .ok s') :
    Efp.Links.Consistent reads s' ∧ Efp.Links.Live s' := by
  obtain ⟨c, _, l, _⟩ := Efp.Links.update_consistent reads L hreads hplain hclosed hordered {} s'
    Efp.Links.init_inv (fun v sl hc => by cases hc) (fun sl v hv => by cases hv) h
  exact ⟨c, l⟩

/-- **the engine's edit cycle keeps the graph consistent — Models C and F together**: in any consistent
state, for any input attribute, the port of `attr_updates_chain` run on the exported graph terminates,
and refreshing the input and then the attributes of the returned chain gives a consistent state again;
hence after **any number of edits** (`editCycle` folds the cycle over a list of edited inputs) the graph
has mirrored links, unique ids and only live ancestors.  `reads` must be well-founded (`rkS`) and every
attribute that reads something must hold a value (a built model). -/
theorem edit_cycles_keep_graph_consistent (reads : Efp.Links.Slot → List Efp.Links.Slot)
    (rkS : Efp.Links.Slot → Nat) (B : Nat)
    (hrk : ∀ n, ∀ m ∈ reads n, rkS m < rkS n) (hreads : ∀ n, (reads n).Nodup) (hB : ∀ sl, rkS sl ≤ B)
    (edits : List Efp.Links.Slot) (hinputs : ∀ u ∈ edits, reads u = [])
    (s s' : Efp.Links.LS) (hI : Efp.Links.Inv s) (hD : Efp.Links.NoDict s) (hC : Efp.Links.Consistent reads s)
    (hbuilt : ∀ n, reads n ≠ [] → ∃ v, s.holds n = some v)
    (h : edits.foldlM (Efp.Links.editCycle reads B) s = .ok s') :
    Efp.Links.Consistent reads s' ∧ Efp.Links.Mirror s' ∧ Efp.Links.Uniq s' ∧ Efp.Links.Live s' := by
  obtain ⟨c, i, l⟩ := Efp.Links.edit_cycles_consistent reads rkS B hrk hreads hB edits hinputs s s' hI hD hC hbuilt h
  exact ⟨c, i.mirror, i.slot.uniq, l⟩

/-! non-vacuity: input (0,0), (0,1) computed from it, (0,2) from both; built, then the input edited -/
def demoReadsF : Efp.Links.Slot → List Efp.Links.Slot
  | (0, 1) => [(0, 0)]
  | (0, 2) => [(0, 1), (0, 0)]
  | _ => []
example : (match ([(0, 0), (0, 1), (0, 2)] ++ [(0, 0), (0, 1), (0, 2)]).foldlM (Efp.Links.refresh demoReadsF) {} with
           | .ok s => (Efp.Links.mirrorOk s, Efp.Links.liveOk s, (s.get 5).anc, s.size)
           | .error _ => (false, false, [], 0)) = (true, true, [4, 3], 6) := by decide +kernel

/-- the same model built by refreshes, then two edits of the input through the full cycle (chain derived by
the port of `attr_updates_chain` on the exported graph): the cycle returns, links mirrored, ancestors live -/
example : (match [(0, 0), (0, 1), (0, 2)].foldlM (Efp.Links.refresh demoReadsF) {} with
           | .ok s => (match [(0, 0), (0, 0)].foldlM (Efp.Links.editCycle demoReadsF 2) s with
                       | .ok s' => (Efp.Links.mirrorOk s', Efp.Links.liveOk s', s'.size)
                       | .error _ => (false, false, 0))
           | .error _ => (false, false, 0)) = (true, true, 9) := by decide +kernel

/-- the state in which a calculated value 1 (slot (0,1)) depends on an input 0 (slot (0,0)) and a
freshly computed replacement 2 with the same ancestor exists -/
def demoLinks : Except Efp.Links.LErr Efp.Links.LS :=
  Efp.Links.run [.mk [], .setAttr (0, 0) 0, .mk [0], .setAttr (0, 1) 1, .mk [0]]

/-- **attaching the replacement before detaching the old value breaks the links** (the replacement
has the old value's id: it is not added, then the id is removed) -/
theorem attach_before_detach_breaks_links :
    (match demoLinks with
     | .ok s => (match Efp.Links.replaceAttachFirst s 1 2 with
                 | .ok s' => Efp.Links.mirrorOk s'
                 | .error _ => true)
     | .error _ => true) = false := by decide +kernel

/-- … while the code's order keeps them -/
example : (match demoLinks with
     | .ok s => (match Efp.Links.replace s 1 2 with
                 | .ok s' => Efp.Links.mirrorOk s'
                 | .error _ => false)
     | .error _ => false) = true := by decide +kernel

/-! ## completeness of the first computation: the declared object-level dependencies cover the recorded reads

When an object enters the model (or a link changes) its calculated attributes are computed by walking
`modeling_objects_whose_attributes_depend_directly_on_me` from object to object
(`mod_objs_computation_chain`).  For that walk to reach every attribute that reads a value of the object,
every *recorded* read `C.a ← D.b` of a calculated `D.b` held by an object of another class must be covered by
the declared relation: `C` is reachable from `D` through `dependsDirectly`.  `System` is the exception by
design (`optimize_mod_objs_computation_chain` appends the system at the end of every chain).  Both tables
are rewritten from `/repo` on every run (reference systems + the system containing every public class). -/

open Efp.Generated in
def depStep (s : List String) : List String :=
  (s ++ (dependsDirectly.filter (fun p => s.contains p.1)).map (·.2)).eraseDups

open Efp.Generated in
/-- classes reachable from `c` through the declared dependencies -/
def depReach (c : String) : List String := (List.range dependsDirectly.length).foldl (fun s _ => depStep s) [c]

def readDeclared (r : (String × String) × (String × String)) : Bool :=
  let ((c, _), (d, b)) := r
  match Efp.Props.C18.attrIndex d b with
  | none => true                                   -- an input of `D`: propagated through the value graph only
  | some _ => c == d || c == "System" || (depReach d).contains c

/-- **every recorded cross-object read of a calculated value is covered by the declared dependencies**
(seed C17-c — a service that no longer lists its jobs — falsifies it) -/
theorem cross_object_reads_are_declared : Efp.Generated.recordedReads.all readDeclared = true := by decide +kernel

/-! ## non-vacuity -/
example : (depReach "UsagePattern").contains "Storage" = true := by decide +kernel
def demoReads : Nat → List Nat
  | 1 => [0]
  | 2 => [1, 0]
  | _ => []
example : chainOk demoReads [1, 2] [0] [1, 2] = true := by decide
example : DependsOn demoReads [0] 2 := .step (m := 1) (by simp [demoReads]) (.direct (m := 0) (by simp [demoReads]) (by simp))
example : Efp.Graph.graphInv #[{ uid := 0, sid := 0, inDict := false, anc := [], chi := [1] },
                               { uid := 1, sid := 1, inDict := false, anc := [0], chi := [], isCalc := true }] = true := by
  decide +kernel

end Efp.Props.C08

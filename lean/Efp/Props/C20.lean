import Efp.Model.TimeBuilders
import Efp.Proofs.Series
import Efp.Proofs.DailyVolume
import Mathlib.Tactic.FieldSimp
/-!
# C20 — hourly-series builders produce exactly the requested time line

Theorems over `Efp.TimeBuilders` (the model of `builders/time_builders.py`, run against the real
helpers by the `K-time` suite).
-/
namespace Efp.Props.C20
open Efp Efp.TimeBuilders Efp.Series

/-! ## a list is reproduced element for element, one value per hour from the start date -/

theorem ofList_keys (start : Int) (vs : List Rat) :
    keys (Series.ofList start vs) = (List.range vs.length).map (fun (i : Nat) => start + 3600 * (i : Int)) := by
  unfold Series.ofList keys
  rw [List.map_map]
  have : ∀ (l : List Nat) (w : List Rat), l.length = w.length →
      ((l.zip w).map ((Prod.fst : Int × Rat → Int) ∘ fun p => (start + 3600 * (p.1 : Int), p.2)))
        = l.map (fun (i : Nat) => start + 3600 * (i : Int)) := by
    intro l
    induction l with
    | nil => intro w _; simp
    | cons a l ih =>
      intro w hw
      cases w with
      | nil => simp at hw
      | cons b w => simp only [List.zip_cons_cons, List.map_cons, Function.comp]; rw [← ih w (by simpa using hw)]
  exact this _ _ (by simp)

theorem ofList_vals (start : Int) (vs : List Rat) : (Series.ofList start vs).map Prod.snd = vs := by
  unfold Series.ofList
  rw [List.map_map]
  have : ∀ (l : List Nat) (w : List Rat), l.length = w.length →
      ((l.zip w).map ((Prod.snd : Int × Rat → Rat) ∘ fun p => (start + 3600 * (p.1 : Int), p.2))) = w := by
    intro l
    induction l with
    | nil => intro w hw; cases w <;> simp_all
    | cons a l ih =>
      intro w hw
      cases w with
      | nil => simp at hw
      | cons b w => simp only [List.zip_cons_cons, List.map_cons, Function.comp]; rw [ih w (by simpa using hw)]
  exact this _ _ (by simp)

/-- **`create_hourly_usage_df_from_list`**: `len(values)` points, starting at the start date,
contiguous (one per hour, strictly increasing), the values in order -/
theorem fromList_spec (start : Int) (vs : List Rat) :
    (fromList start vs).length = vs.length ∧
    keys (fromList start vs) = (List.range vs.length).map (fun (i : Nat) => start + 3600 * (i : Int)) ∧
    (fromList start vs).map Prod.snd = vs ∧ Sorted (fromList start vs) := by
  refine ⟨?_, ofList_keys start vs, ofList_vals start vs, ?_⟩
  · have := congrArg List.length (ofList_vals start vs); simpa [fromList] using this
  · unfold Sorted fromList
    rw [ofList_keys]
    refine List.Pairwise.map _ (fun a b (h : a < b) => by omega) ?_
    exact List.pairwise_lt_range

/-! ## frequency-based series -/

/-- **`create_hourly_usage_from_frequency`**: `n` points, the i-th at `start + i` hours, carrying the
volume exactly at the hours where the calendar predicate of the frequency holds and 0 elsewhere -/
theorem fromFrequency_spec (start : Int) (n : Nat) (volume : Rat) (f : Freq) (ad hs : List Int) (i : Nat) (hi : i < n) :
    (fromFrequency start n volume f (some ad) (some hs)).length = n ∧
    (fromFrequency start n volume f (some ad) (some hs))[i]? =
      some (start + 3600 * (i : Int), if matchesAt f ad hs (start + 3600 * (i : Int)) then volume else 0) := by
  unfold fromFrequency
  simp [hi]

theorem fromFrequency_sorted (start : Int) (n : Nat) (volume : Rat) (f : Freq) (ad hs : Option (List Int)) :
    Sorted (fromFrequency start n volume f ad hs) := by
  unfold Sorted fromFrequency keys
  rw [List.map_map]
  refine List.Pairwise.map _ (fun a b (h : a < b) => ?_) List.pairwise_lt_range
  simp only [Function.comp]; omega

/-! ## a daily volume spread over chosen hours sums to that volume on every full day -/

theorem hourOfDay_of_whole_hour (m : Int) : hourOfDay (3600 * m) = m % 24 := by
  unfold hourOfDay; omega

theorem fromDailyVolume_get (start : Int) (n : Nat) (vol : Rat) (hours : List Int) (i : Nat) (hi : i < n) :
    (fromDailyVolumeCore start n vol hours)[i]? =
      some (start + 3600 * (i : Int),
            if hours.contains (hourOfDay (start + 3600 * (i : Int))) then vol / (hours.length : Rat) else 0) := by
  unfold fromDailyVolumeCore fromFrequency
  simp [hi, matchesAt]

/-- the spreading, for duplicate-free hours within 0..23 (the hypothesis the proof needs): a series
starting on a whole hour carries exactly the daily volume on any 24 consecutive hours it contains, in
particular on every full calendar day -/
theorem dailyVolumeCore_sum_full_day (q : Int) (n : Nat) (vol : Rat) (hours : List Int)
    (hnd : hours.Nodup) (hrange : ∀ h ∈ hours, 0 ≤ h ∧ h < 24) (hne : hours ≠ [])
    (i0 : Nat) (hwin : i0 + 24 ≤ n) :
    ((List.range 24).map (fun (j : Nat) =>
        (((fromDailyVolumeCore (3600 * q) n vol hours)[i0 + j]?).map Prod.snd).getD 0)).sum = vol := by
  have hlen : (hours.length : Rat) ≠ 0 := by
    have : 0 < hours.length := List.length_pos_iff.mpr hne
    exact_mod_cast (Nat.pos_iff_ne_zero.mp this)
  have hval : ∀ j ∈ List.range 24,
      (((fromDailyVolumeCore (3600 * q) n vol hours)[i0 + j]?).map Prod.snd).getD 0
        = if hours.contains (((q + (i0 : Int)) + (j : Int)) % 24) then vol / (hours.length : Rat) else 0 := by
    intro j hj
    have hj' : j < 24 := List.mem_range.mp hj
    rw [fromDailyVolume_get _ _ _ _ (i0 + j) (by omega)]
    simp only [Option.map_some, Option.getD_some]
    have : (3600 * q + 3600 * ((i0 + j : Nat) : Int)) = 3600 * ((q + (i0 : Int)) + (j : Int)) := by push_cast; ring
    rw [this, hourOfDay_of_whole_hour]
  rw [List.map_congr_left hval]
  rw [full_day_sum (q + (i0 : Int)) hours hnd hrange (vol / (hours.length : Rat))]
  field_simp

theorem validHours_spec (hours : List Int) (h : validHours hours = true) :
    hours.Nodup ∧ (∀ x ∈ hours, 0 ≤ x ∧ x < 24) ∧ hours ≠ [] := by
  unfold validHours at h
  simp only [Bool.and_eq_true, Bool.not_eq_true', decide_eq_true_eq, List.all_eq_true, List.isEmpty_eq_false_iff] at h
  exact ⟨h.1.2, fun x hx => h.2 x hx, h.1.1⟩

/-- **`create_hourly_usage_from_daily_volume_and_list_of_hours`, for every list of hours**: either the call is
refused (a repeated hour, an hour outside 0..23, no hour at all — finding D12 before its repair: such lists
silently lost a share of the volume) or every 24 consecutive hours of the series, in particular every full
calendar day, carry exactly the daily volume -/
theorem dailyVolume_sum_full_day (q : Int) (n : Nat) (vol : Rat) (hours : List Int) (i0 : Nat) (hwin : i0 + 24 ≤ n) :
    fromDailyVolume (3600 * q) n vol hours = .error (.other "invalid-hours") ∨
    ∃ s, fromDailyVolume (3600 * q) n vol hours = .ok s ∧
      ((List.range 24).map (fun (j : Nat) => ((s[i0 + j]?).map Prod.snd).getD 0)).sum = vol := by
  unfold fromDailyVolume
  by_cases hv : validHours hours = true
  · right
    obtain ⟨hnd, hrange, hne⟩ := validHours_spec hours hv
    exact ⟨_, by simp [hv], dailyVolumeCore_sum_full_day q n vol hours hnd hrange hne i0 hwin⟩
  · left; simp [hv]

/-- a repeated hour or an hour outside 0..23 is refused -/
theorem invalid_hours_refused (start : Int) (n : Nat) (vol : Rat) (hours : List Int)
    (h : ¬ hours.Nodup ∨ ∃ x ∈ hours, x < 0 ∨ 24 ≤ x) :
    fromDailyVolume start n vol hours = .error (.other "invalid-hours") := by
  unfold fromDailyVolume
  have : validHours hours = false := by
    by_contra hc
    have hv : validHours hours = true := by simpa using hc
    obtain ⟨hnd, hrange, _⟩ := validHours_spec hours hv
    rcases h with h | ⟨x, hx, hx2⟩
    · exact h hnd
    · have := hrange x hx; omega
  simp [this]

example : fromDailyVolume 0 48 120 [8, 8, 9] = .error (.other "invalid-hours") := by decide +kernel
example : fromDailyVolume 0 48 120 [5, 24] = .error (.other "invalid-hours") := by decide +kernel

/-! ## calendar facts used by the predicates -/

theorem hourOfDay_add_day (t : Int) : hourOfDay (t + 86400) = hourOfDay t := by
  unfold hourOfDay; omega

theorem hourOfDay_range (t : Int) : 0 ≤ hourOfDay t ∧ hourOfDay t < 24 := by
  unfold hourOfDay; omega

theorem dayOfWeek_add_week (t : Int) : dayOfWeek (t + 7 * 86400) = dayOfWeek t := by
  unfold dayOfWeek dayNumber; omega

theorem dayOfWeek_next_day (t : Int) : dayOfWeek (t + 86400) = (dayOfWeek t + 1) % 7 := by
  unfold dayOfWeek dayNumber; omega

/-- the date algorithm and its inverse agree on every day from 2023-01-01 to 2028-12-31 (two leap years)
(a finite table checked by the kernel — a test of the calendar algorithm, not an unbounded claim;
`K-time` additionally compares day-of-week / month / year with pandas) -/
theorem civil_round_trip_2023_2028 :
    (List.range 2192).all (fun (i : Nat) =>
      let z : Int := (i : Int) + 19358
      let c := civilFromDays z
      daysFromCivil c.1 c.2.1 c.2.2 == z && decide (1 ≤ c.2.1 ∧ c.2.1 ≤ 12 ∧ 1 ≤ c.2.2 ∧ c.2.2 ≤ 31)) = true := by
  decide +kernel

/-! ## non-vacuity -/
example : fromList 0 [1, 2, 3] = [(0, 1), (3600, 2), (7200, 3)] := by decide +kernel
-- 2025-01-06 is a Monday: weekly on Mondays at 08:00
example : (fromFrequency (daysFromCivil 2025 1 6 * 86400) 10 5 .weekly (some [0]) (some [8])).map Prod.snd
    = [0, 0, 0, 0, 0, 0, 0, 0, 5, 0] := by decide +kernel

end Efp.Props.C20

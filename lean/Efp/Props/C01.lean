import Efp.Theory.Checker
import Efp.Model.Graph
import Efp.Proofs.ChainAccepted
import Efp.Proofs.Grouped
import Efp.Proofs.ChainTerm
/-!
# C01 — incremental recomputation equals recomputation from scratch

The abstract theory (`Efp.Theory`): a *rule system* has calculated nodes, each with a read-set and
a rule that depends only on what it reads.  A state is *consistent* when every calculated node
holds the value of its rule.  Consistent states are unique given the inputs (`consistent_unique`),
so "equals a system freshly built from the same final inputs" is "is consistent".

What the code does on an edit is: replace the edited inputs `J`, then run the rules along a chain.
`chainOk` is an executable test on (read-sets, calculated nodes, `J`, chain); `chainOk_sound` shows
an accepted chain re-establishes consistency, for every rule system with those read-sets.  The
check run evaluates `chainOk` on the real graph and the real chain of every input of every explored
system (`K-graph`; the Lean port `attrUpdatesChain` of the code's algorithm must also return exactly
the real chain).  Chains the checker rejects are exactly the recorded findings D2/D13 (a job
reachable from several usage patterns).

The general theorem is proved too (`Proofs/Chain.lean`, `code_chain_accepted` below): on **every**
graph without shared ids whose ancestor links are mirrored and which is acyclic within the fuel —
three executable hypotheses that the check run evaluates on each exported real graph — whenever the
literal port of `attr_updates_chain` returns, its chain is accepted by the checker, hence
(`edit_with_code_chain_consistent`) an edit followed by the code's own update order re-establishes
consistency.  *Termination* is proved as well (`Proofs/ChainTerm.lean`, `code_chain_total`): on such
graphs the port returns as soon as the fuel exceeds `2·size + 1` (the driver gives `4·size² + 100`),
because every pass of the `while` loop adds a value or retires a parent — D13 is a hang of exactly
this loop when ids *are* shared.  Link edits stay with the oracle.
-/
namespace Efp.Props.C01
open Efp.Theory

/-- an edit: new values for the inputs `J`, then recomputation along `chain` -/
structure Edit (V : Type) where
  J : List Nat
  newVals : Nat → V
  chain : List Nat

def applyEdit {V : Type} (S : RuleSys Nat V) (σ : Nat → V) (e : Edit V) : Nat → V :=
  run S (fun n => if n ∈ e.J then e.newVals n else σ n) e.chain

/-- **one accepted edit keeps the model consistent** -/
theorem edit_preserves_consistency {V : Type} (reads : Nat → List Nat) (calcs : List Nat)
    (S : RuleSys Nat V) (hreads : ∀ n, S.reads n = reads n) (hcalc : ∀ n, S.isCalc n = true → n ∈ calcs)
    (σ : Nat → V) (h0 : Consistent S σ) (e : Edit V) (hok : chainOk reads calcs e.J e.chain = true) :
    Consistent S (applyEdit S σ e) := by
  unfold applyEdit
  apply chainOk_sound reads calcs e.J e.chain hok S hreads hcalc σ _ h0
  intro n hn
  simp [hn]

/-- **any finite sequence of accepted edits** (applied one at a time, or several inputs grouped in
one edit) leaves the model consistent -/
theorem history_consistent {V : Type} (reads : Nat → List Nat) (calcs : List Nat)
    (S : RuleSys Nat V) (hreads : ∀ n, S.reads n = reads n) (hcalc : ∀ n, S.isCalc n = true → n ∈ calcs)
    (es : List (Edit V)) (hok : ∀ e ∈ es, chainOk reads calcs e.J e.chain = true)
    (σ : Nat → V) (h0 : Consistent S σ) :
    Consistent S (es.foldl (applyEdit S) σ) := by
  induction es generalizing σ with
  | nil => exact h0
  | cons e es ih =>
    simp only [List.foldl_cons]
    exact ih (fun e' he' => hok e' (by simp [he'])) _
      (edit_preserves_consistency reads calcs S hreads hcalc σ h0 e (hok e (by simp)))

/-- **the result depends only on the current inputs**, never on the order or number of edits:
two consistent states with the same inputs are equal (reads are well-founded: `rk`) -/
theorem result_depends_only_on_inputs {V : Type} (S : RuleSys Nat V) (rk : Nat → Nat)
    (wf : ∀ n, S.isCalc n = true → ∀ m ∈ S.reads n, rk m < rk n)
    (σ σ' : Nat → V) (hσ : Consistent S σ) (hσ' : Consistent S σ')
    (inp : ∀ n, S.isCalc n = false → σ n = σ' n) : σ = σ' :=
  funext (consistent_unique S rk wf σ σ' hσ hσ' inp)

/-- **undoing an edit restores the previous footprints**: after any accepted history that ends
with the inputs back at their original values, every value is the original one -/
theorem undo_restores {V : Type} (reads : Nat → List Nat) (calcs : List Nat)
    (S : RuleSys Nat V) (hreads : ∀ n, S.reads n = reads n) (hcalc : ∀ n, S.isCalc n = true → n ∈ calcs)
    (rk : Nat → Nat) (wf : ∀ n, S.isCalc n = true → ∀ m ∈ S.reads n, rk m < rk n)
    (es : List (Edit V)) (hok : ∀ e ∈ es, chainOk reads calcs e.J e.chain = true)
    (σ : Nat → V) (h0 : Consistent S σ)
    (hback : ∀ n, S.isCalc n = false → (es.foldl (applyEdit S) σ) n = σ n) :
    es.foldl (applyEdit S) σ = σ :=
  result_depends_only_on_inputs S rk wf _ σ (history_consistent reads calcs S hreads hcalc es hok σ h0) h0 hback

/-- from-scratch computation (one pass over all calculated nodes in an order that respects the
reads) yields *the* consistent state: so "incremental = from scratch" -/
theorem incremental_eq_from_scratch {V : Type} (reads : Nat → List Nat) (calcs : List Nat)
    (S : RuleSys Nat V) (hreads : ∀ n, S.reads n = reads n) (hcalc : ∀ n, S.isCalc n = true → n ∈ calcs)
    (rk : Nat → Nat) (wf : ∀ n, S.isCalc n = true → ∀ m ∈ S.reads n, rk m < rk n)
    (es : List (Edit V)) (hok : ∀ e ∈ es, chainOk reads calcs e.J e.chain = true)
    (σ : Nat → V) (h0 : Consistent S σ)
    (full : List Nat) (hnd : full.Nodup) (hall : ∀ n, S.isCalc n = true → n ∈ full)
    (hord : ∀ l₁ n l₂, full = l₁ ++ n :: l₂ → ∀ m ∈ S.reads n, m ∉ l₂ ∧ m ≠ n)
    (hfull_inputs : ∀ n ∈ full, S.isCalc n = true) :
    run S (es.foldl (applyEdit S) σ) full = es.foldl (applyEdit S) σ := by
  have hc := history_consistent reads calcs S hreads hcalc es hok σ h0
  exact run_fixed S _ hc full hfull_inputs

/-- **the code's own update order is accepted by the checker**, for every graph meeting the three
executable hypotheses, every edited value `u` and every amount of fuel, whenever the algorithm
returns -/
theorem code_chain_accepted (g : Efp.Graph.G) (fuel u : Nat) (rk : Array Nat)
    (hwf : Efp.Graph.wfOk g = true) (hbi : Efp.Graph.ancInChiOk g = true)
    (hrk : Efp.Graph.rankOk g rk fuel = true) (hu : u < g.size)
    (calcs : List Nat) (hcalcs : ∀ n ∈ calcs, n < g.size ∧ n ≠ u)
    (chain : List (Nat × Bool)) (h : Efp.Graph.attrUpdatesChain g fuel u = some chain) :
    chainOk (fun n => (g.node n).anc) calcs [u] (chain.map Prod.fst) = true :=
  Efp.Graph.code_chain_accepted g fuel u rk hwf hbi hrk hu calcs hcalcs chain h

/-- **editing an input and recomputing along the code's own chain keeps the model consistent**:
for every rule system whose read-sets are the recorded ancestors of such a graph -/
theorem edit_with_code_chain_consistent {V : Type} (g : Efp.Graph.G) (fuel u : Nat) (rk : Array Nat)
    (hwf : Efp.Graph.wfOk g = true) (hbi : Efp.Graph.ancInChiOk g = true)
    (hrk : Efp.Graph.rankOk g rk fuel = true) (hu : u < g.size)
    (calcs : List Nat) (hcalcs : ∀ n ∈ calcs, n < g.size ∧ n ≠ u)
    (S : RuleSys Nat V) (hreads : ∀ n, S.reads n = (g.node n).anc) (hcalc : ∀ n, S.isCalc n = true → n ∈ calcs)
    (σ : Nat → V) (h0 : Consistent S σ) (newVal : V)
    (chain : List (Nat × Bool)) (h : Efp.Graph.attrUpdatesChain g fuel u = some chain) :
    Consistent S (applyEdit S σ { J := [u], newVals := fun _ => newVal, chain := chain.map Prod.fst }) :=
  edit_preserves_consistency (fun n => (g.node n).anc) calcs S hreads hcalc σ h0 _
    (code_chain_accepted g fuel u rk hwf hbi hrk hu calcs hcalcs chain h)

/-- **total correctness of the code's update order**: on every graph meeting the three executable
hypotheses the algorithm terminates (fuel `≥ 2·size + 2`) and its chain is accepted by the checker -/
theorem code_chain_total (g : Efp.Graph.G) (fuel u : Nat) (rk : Array Nat)
    (hwf : Efp.Graph.wfOk g = true) (hbi : Efp.Graph.ancInChiOk g = true)
    (hrk : Efp.Graph.rankOk g rk fuel = true) (hu : u < g.size) (hfuel : 2 * g.size + 2 ≤ fuel)
    (calcs : List Nat) (hcalcs : ∀ n ∈ calcs, n < g.size ∧ n ≠ u) :
    ∃ chain, Efp.Graph.attrUpdatesChain g fuel u = some chain ∧
      chainOk (fun n => (g.node n).anc) calcs [u] (chain.map Prod.fst) = true := by
  obtain ⟨chain, h⟩ := Efp.Graph.attrUpdatesChain_terminates g (Efp.Graph.wfOk_sound g hwf) (fun x => rk[x]!)
    (Efp.Graph.rankOk_RankOK g rk fuel hrk) (Efp.Graph.ancInChiOk_sound g hbi) fuel u hu hfuel
  exact ⟨chain, h, code_chain_accepted g fuel u rk hwf hbi hrk hu calcs hcalcs chain h⟩

/-- **grouped updates**: when several inputs `us` change in one `ModelingUpdate`, the code concatenates
their chains and keeps the last occurrence of each value (`optimize_attr_updates_chain`, ported as
`keepLast`); the result is accepted by the checker, on every graph meeting the hypotheses -/
theorem grouped_code_chain_accepted (g : Efp.Graph.G) (fuel : Nat) (rk : Array Nat)
    (hwf : Efp.Graph.wfOk g = true) (hbi : Efp.Graph.ancInChiOk g = true)
    (hrk : Efp.Graph.rankOk g rk fuel = true)
    (us : List Nat) (hus : ∀ u ∈ us, u < g.size) (chains : List (List (Nat × Bool)))
    (h : us.map (Efp.Graph.attrUpdatesChain g fuel) = chains.map some)
    (calcs : List Nat) (hcalcs : ∀ n ∈ calcs, n < g.size ∧ n ∉ us) :
    chainOk (fun n => (g.node n).anc) calcs us ((Efp.Graph.keepLast chains.flatten).map Prod.fst) = true := by
  have hW := Efp.Graph.wfOk_sound g hwf
  have hB := Efp.Graph.ancInChiOk_sound g hbi
  have key : ∃ ucs : List (Nat × List Nat), ucs.map Prod.fst = us ∧
      ucs.map Prod.snd = chains.map (fun c => c.map Prod.fst) ∧
      ∀ p ∈ ucs, p.1 < g.size ∧ Efp.Graph.ChainSpec g p.1 p.2 := by
    clear hcalcs
    induction us generalizing chains with
    | nil =>
      cases chains with
      | nil => exact ⟨[], rfl, rfl, fun p hp => by cases hp⟩
      | cons c cs => simp at h
    | cons u us' ih =>
      cases chains with
      | nil => simp at h
      | cons c cs' =>
        simp only [List.map_cons, List.cons.injEq] at h
        obtain ⟨huc, hrest⟩ := h
        obtain ⟨ucs, e1, e2, e3⟩ := ih (fun u hu => hus u (by simp [hu])) cs' hrest
        have hu : u < g.size := hus u (by simp)
        refine ⟨(u, c.map Prod.fst) :: ucs, by simp [e1], by simp [e2], ?_⟩
        intro p hp
        rcases List.mem_cons.mp hp with rfl | hp
        · exact ⟨hu, Efp.Graph.chainSpec_of_correct g hW fuel u hu
            (fun k a hr => Efp.Graph.rankOk_depth g hW rk fuel hrk u hu k a hr) c huc⟩
        · exact e3 p hp
  obtain ⟨ucs, e1, e2, e3⟩ := key
  have := Efp.Graph.merged_chain_accepted g hW hB ucs e3 calcs (by rw [e1]; exact hcalcs)
  rw [e1, e2] at this
  rw [Efp.Graph.keepLast_map_fst, List.map_flatten]
  exact this

/-! keeping the *first* occurrence instead (seed C01-a) is rejected: inputs 0 and 1, 0 → 2 → 3, 1 → 3;
chains [2, 3] and [3]: keep-last gives [2, 3], keep-first of the reversed grouping [3] ++ [2, 3] gives [3, 2] -/
def demoG2 : Efp.Graph.G := #[
  { uid := 0, sid := 0, inDict := false, anc := [], chi := [2] },
  { uid := 1, sid := 1, inDict := false, anc := [], chi := [3] },
  { uid := 2, sid := 2, inDict := false, anc := [0], chi := [3], isCalc := true },
  { uid := 3, sid := 3, inDict := false, anc := [2, 1], chi := [], isCalc := true }]
example : chainOk (fun n => (demoG2.node n).anc) [2, 3] [1, 0] (Efp.Graph.keepLastN ([3] ++ [2, 3])) = true := by decide +kernel
example : chainOk (fun n => (demoG2.node n).anc) [2, 3] [1, 0] [3, 2] = false := by decide +kernel

/-! non-vacuity of the hypotheses: input 0 → 1 → 3, 0 → 2 → 3 (a diamond); the port returns [1, 2, 3] -/
def demoG : Efp.Graph.G := #[
  { uid := 0, sid := 0, inDict := false, anc := [], chi := [1, 2] },
  { uid := 1, sid := 1, inDict := false, anc := [0], chi := [3], isCalc := true },
  { uid := 2, sid := 2, inDict := false, anc := [0], chi := [3], isCalc := true },
  { uid := 3, sid := 3, inDict := false, anc := [1, 2], chi := [], isCalc := true }]
example : Efp.Graph.wfOk demoG = true ∧ Efp.Graph.ancInChiOk demoG = true ∧
    Efp.Graph.rankOk demoG #[0, 1, 1, 2] 10 = true := by decide +kernel
example : (Efp.Graph.attrUpdatesChain demoG 10 0).map (·.map Prod.fst) = some [1, 2, 3] := by decide +kernel

/-! ## non-vacuity: a three-node system  input 0 → 1 → 2  -/
def demoReads : Nat → List Nat
  | 1 => [0]
  | 2 => [1]
  | _ => []
example : chainOk demoReads [1, 2] [0] [1, 2] = true := by decide
example : chainOk demoReads [1, 2] [0] [2, 1] = false := by decide   -- wrong order is rejected
example : chainOk demoReads [1, 2] [0] [1] = false := by decide      -- an incomplete chain is rejected

end Efp.Props.C01

import Efp.Model.JsonModel
import Efp.Theory.Checker
import Mathlib.Algebra.Order.Field.Basic
import Mathlib.Algebra.Order.Field.Rat
import Mathlib.Tactic.Positivity
import Mathlib.Tactic.FieldSimp
import Mathlib.Tactic.Linarith
/-!
# C13 — saving a system to JSON and loading it back loses nothing

Theorems over Model E (`Efp.JsonModel`).  "Loses nothing" is: `decode (encode m) = m` up to the
documented 3-decimal rounding of hourly inputs; re-export gives the same JSON because that
rounding is idempotent; every object reachable from the system is written.
"Recomputed results equal the original's" and "the loaded system is live": the loader discards any
saved calculated value and recomputes everything from the decoded inputs (`json_to_system` ends with
`system.after_init()`), so the loaded state is *the* consistent state of those inputs
(`loaded_results_equal_original`), on which edits behave as on any consistent state (C01).
-/
namespace Efp.Props.C13
open Efp Efp.JsonModel

/-! ## the 3-decimal rounding is idempotent -/

theorem round_of_scaled_int (k : Int) (n : Nat) :
    roundHalfEven ((k : Rat) / (10 : Rat) ^ n) n = (k : Rat) / (10 : Rat) ^ n := by
  have hs : (0 : Rat) < (10 : Rat) ^ n := by positivity
  unfold roundHalfEven
  simp only
  have hy : (k : Rat) / (10 : Rat) ^ n * (10 : Rat) ^ n = (k : Rat) := by field_simp
  rw [hy, Rat.floor_intCast]
  simp

theorem round_is_scaled_int (x : Rat) (n : Nat) : ∃ k : Int, roundHalfEven x n = (k : Rat) / (10 : Rat) ^ n := by
  unfold roundHalfEven
  exact ⟨_, rfl⟩

/-- rounding an already rounded hourly value changes nothing -/
theorem round3_idem (x : Rat) : round3 (round3 x) = round3 x := by
  unfold round3
  obtain ⟨k, hk⟩ := round_is_scaled_int x 3
  rw [hk, round_of_scaled_int]

theorem round3Val_idem (v : MVal) : round3Val (round3Val v) = round3Val v := by
  cases v <;> simp [round3Val, List.map_map, Function.comp_def, round3_idem]

/-! ## value and object round trip -/

/-- a value is *resolvable* under key `key` when links point to exported objects and a raw string is
not the id of an exported object (the hypothesis the proof forces: `json_to_system` cannot tell a
name that happens to equal an object id from a link) -/
def Resolvable (ids : List String) (key : String) : MVal → Prop
  | .link i => i ∈ ids ∧ key ≠ "id"
  | .list is => ∀ i ∈ is, i ∈ ids
  | .raw s => s ∉ ids ∨ key = "id"
  | _ => True

theorem decode_encode_val (ids : List String) (key : String) (v : MVal) (h : Resolvable ids key v) :
    decodeVal ids key (encodeVal v) = round3Val v := by
  cases v with
  | link i =>
    obtain ⟨hi, hk⟩ := h
    simp [encodeVal, decodeVal, round3Val, hi, hk]
  | list is =>
    simp only [encodeVal, decodeVal, round3Val]
    congr 1
    rw [List.filter_eq_self]
    intro i hi
    simpa using h i hi
  | raw s =>
    rcases h with h | h
    · simp [encodeVal, decodeVal, round3Val, h]
    · simp [encodeVal, decodeVal, round3Val, h]
  | _ => simp [encodeVal, decodeVal, round3Val]

/-- **export then load gives the same objects, ids, classes, links, labels, sources and inputs**,
hourly inputs rounded to 3 decimals -/
theorem decode_encode (objs : Model)
    (h : ∀ o ∈ objs, ∀ p ∈ o.attrs, Resolvable (objs.map (·.id)) p.1 p.2) :
    decode (objs.map encodeObj) = objs.map round3Obj := by
  have hids : (objs.map encodeObj).map (·.id) = objs.map (·.id) := by
    rw [List.map_map]; apply List.map_congr_left; intro o _; rfl
  unfold decode
  rw [hids, List.map_map]
  apply List.map_congr_left
  intro o ho
  simp only [Function.comp, encodeObj, round3Obj, MObj.mk.injEq, true_and, List.map_map]
  apply List.map_congr_left
  intro p hp
  simp only [Function.comp, Prod.mk.injEq, true_and]
  exact decode_encode_val (objs.map (·.id)) p.1 p.2 (h o ho p hp)

/-- **exporting the loaded system again gives the same JSON** -/
theorem encode_round3 (o : MObj) : encodeObj (round3Obj o) = encodeObj o := by
  simp only [encodeObj, round3Obj, List.map_map, JObj.mk.injEq, true_and]
  apply List.map_congr_left
  intro p _
  simp only [Function.comp, Prod.mk.injEq, true_and]
  cases p.2 <;> simp [round3Val, encodeVal, List.map_map, Function.comp_def, round3_idem]

theorem reexport_same (objs : Model)
    (h : ∀ o ∈ objs, ∀ p ∈ o.attrs, Resolvable (objs.map (·.id)) p.1 p.2) :
    (decode (objs.map encodeObj)).map encodeObj = objs.map encodeObj := by
  rw [decode_encode objs h, List.map_map]
  apply List.map_congr_left
  intro o _
  exact encode_round3 o

/-! ## every reachable object is written -/

inductive Reach (m : Model) (root : String) : String → Prop
  | refl : Reach m root root
  | step {i j : String} : Reach m root i → j ∈ succ m i → Reach m root j

def Inv (m : Model) (root : String) (st : List String × List String) : Prop :=
  (root ∈ st.1 ∨ root ∈ st.2) ∧ ∀ x ∈ st.1, ∀ y ∈ succ m x, y ∈ st.1 ∨ y ∈ st.2

theorem step_inv (m : Model) (root : String) (st : List String × List String) (h : Inv m root st) :
    Inv m root (step m st) := by
  obtain ⟨hr, hc⟩ := h
  unfold step
  cases hst : st.2 with
  | nil => exact ⟨hr, hc⟩
  | cons x rest =>
    simp only
    by_cases hv : st.1.contains x = true
    · simp only [hv, if_true]
      have hx : x ∈ st.1 := by simpa using hv
      refine ⟨?_, ?_⟩
      · rcases hr with h | h
        · exact Or.inl h
        · rw [hst] at h
          rcases List.mem_cons.mp h with rfl | h
          · exact Or.inl hx
          · exact Or.inr h
      · intro a ha y hy
        rcases hc a ha y hy with h | h
        · exact Or.inl h
        · rw [hst] at h
          rcases List.mem_cons.mp h with rfl | h
          · exact Or.inl hx
          · exact Or.inr h
    · simp only [hv, Bool.false_eq_true, if_false]
      refine ⟨?_, ?_⟩
      · rcases hr with h | h
        · exact Or.inl (List.mem_append_left _ h)
        · rw [hst] at h
          rcases List.mem_cons.mp h with rfl | h
          · exact Or.inl (by simp)
          · exact Or.inr (List.mem_append_right _ h)
      · intro a ha y hy
        rcases List.mem_append.mp ha with ha | ha
        · rcases hc a ha y hy with h | h
          · exact Or.inl (List.mem_append_left _ h)
          · rw [hst] at h
            rcases List.mem_cons.mp h with rfl | h
            · exact Or.inl (by simp)
            · exact Or.inr (List.mem_append_right _ h)
        · simp only [List.mem_singleton] at ha
          subst ha
          exact Or.inr (List.mem_append_left _ hy)

theorem iter_inv (m : Model) (root : String) (n : Nat) (st : List String × List String) (h : Inv m root st) :
    Inv m root (iter m n st) := by
  induction n generalizing st with
  | zero => exact h
  | succ n ih => exact ih _ (step_inv m root st h)

/-- **every object reachable from the system through attribute links and list links is written**
(whenever the traversal finished, which the run checks) -/
theorem reachability_complete (m : Model) (fuel : Nat) (root : String)
    (hdone : (collect m fuel root).2 = true) (i : String) (hi : Reach m root i) :
    i ∈ (collect m fuel root).1 := by
  have hinv := iter_inv m root fuel ([], [root]) ⟨Or.inr (by simp), by simp⟩
  unfold collect at hdone ⊢
  simp only at hdone ⊢
  have hempty : (iter m fuel ([], [root])).2 = [] := by simpa using hdone
  obtain ⟨hr, hc⟩ := hinv
  rw [hempty] at hr hc
  induction hi with
  | refl => rcases hr with h | h; exact h; simp at h
  | step _ hj ih => rcases hc _ ih _ hj with h | h; exact h; simp at h

/-! ## files written by the previous major version -/

/-- the version-9 → 10 handler only renames the class key, so loading commutes with it -/
theorem upgrade_commutes (j : JSys) :
    decode (upgrade9to10 j) = (decode j).map (fun o => if o.cls == "Hardware" then { o with cls := "Device" } else o) := by
  have hids : (upgrade9to10 j).map (·.id) = j.map (·.id) := by
    unfold upgrade9to10
    rw [List.map_map]; apply List.map_congr_left; intro o _; simp only [Function.comp]; split <;> rfl
  unfold decode
  rw [hids]
  unfold upgrade9to10
  simp only [List.map_map]
  apply List.map_congr_left
  intro o _
  simp only [Function.comp]
  split <;> simp_all

/-! ## non-vacuity -/
def demo : Model :=
  [⟨"System", "sys", [("name", .raw "my system"), ("usage_patterns", .list ["up"])]⟩,
   ⟨"UsagePattern", "up", [("name", .raw "my usage pattern"), ("hourly_usage_journey_starts", .h 0 [(12345 : Rat) / 10000] "dimensionless" "starts" none)]⟩]
example : collect demo 10 "sys" = (["sys", "up"], true) := by decide +kernel
example : decode (demo.map encodeObj) = demo.map round3Obj := by decide +kernel
example : round3 ((12345 : Rat) / 10000) = (617 : Rat) / 500 := by decide +kernel

/-- **the loaded system has the original's results**: the original (consistent) state and the state the
loader computes by a full pass over the calculated attributes, from any starting values, agree
everywhere as soon as they agree on the inputs — for every rule system with well-founded reads -/
theorem loaded_results_equal_original {V : Type} (S : Efp.Theory.RuleSys Nat V) (rk : Nat → Nat)
    (wf : ∀ n, S.isCalc n = true → ∀ m ∈ S.reads n, rk m < rk n)
    (original : Nat → V) (horig : Efp.Theory.Consistent S original)
    (order : List Nat) (start : Nat → V)
    (hnd : order.Nodup) (hall : ∀ n, S.isCalc n = true → n ∈ order) (honly : ∀ n ∈ order, S.isCalc n = true)
    (hord : ∀ l₁ n l₂, order = l₁ ++ n :: l₂ → ∀ m ∈ S.reads n, m ∉ l₂ ∧ m ≠ n)
    (hinputs : ∀ n, S.isCalc n = false → start n = original n) :
    Efp.Theory.run S start order = original := by
  have c := Efp.Theory.full_pass_consistent S order start hnd hall hord
  funext n
  apply Efp.Theory.consistent_unique S rk wf _ _ c horig
  intro m hm
  have h1 : m ∉ order := fun h => by rw [honly m h] at hm; cases hm
  rw [Efp.Theory.run_not_mem S order start m h1]
  exact hinputs m hm

/-- the hypothesis of `decode_encode` is needed: an object whose *name* equals the id of another
exported object is loaded with a link in place of its name (replayed on the real code: finding D19) -/
theorem name_equal_to_an_id_is_misread :
    ∃ objs : Model, decode (objs.map encodeObj) ≠ objs.map round3Obj :=
  ⟨[⟨"Device", "dev", [("name", .raw "net")]⟩, ⟨"Network", "net", [("name", .raw "my network")]⟩], by decide +kernel⟩

end Efp.Props.C13

import Efp.Proofs.Val
import Efp.Proofs.Prefix
import Mathlib.Algebra.Order.Field.Basic
import Mathlib.Tactic.Positivity
import Mathlib.Tactic.Linarith
/-!
# C04 — infrastructure is always sized to cover the computed need

Theorems over the sizing rules of Model B (`serverNbOfInstances`, `storageNbOfInstances`,
`Series.ceil`, `Series.cumsum`, `Series.zipPos`), in exact arithmetic.
-/
namespace Efp.Props.C04
open Efp

/-! ## ceilings -/

theorem get_ceil (a : Series) (t : Int) : Series.get (Series.ceil a) t = ((Series.get a t).ceil : Int) := by
  unfold Series.ceil
  rw [Series.get_mapVals]
  show (((0 : Rat).ceil : Int) : Rat) = 0
  rw [show (0 : Rat) = ((0 : Int) : Rat) by simp, Rat.ceil_intCast]

/-- **autoscaling**: at every hour the number of instances is the ceiling of the raw need — at
least the need, less than one instance above it -/
theorem autoscaling_eq_ceil (raw : HQ) (t : Int) :
    serverNbOfInstances "autoscaling" (.h raw) .empty = .ok (.h ⟨Series.ceil raw.vals, raw.unit⟩) ∧
    Series.get raw.vals t ≤ Series.get (Series.ceil raw.vals) t ∧
    Series.get (Series.ceil raw.vals) t < Series.get raw.vals t + 1 := by
  refine ⟨rfl, ?_, ?_⟩
  · rw [get_ceil]; exact Rat.le_ceil
  · rw [get_ceil]; exact Rat.ceil_lt

/-- **serverless**: exactly the raw need -/
theorem serverless_eq_raw (raw : Val) : serverNbOfInstances "serverless" raw .empty = .ok raw := rfl

/-! ## on-premise: a constant covering the peak -/

theorem foldl_max_ge (l : Series) (m0 : Rat) :
    m0 ≤ l.foldl (fun m p => if p.2 > m then p.2 else m) m0 ∧
    ∀ p ∈ l, p.2 ≤ l.foldl (fun m p => if p.2 > m then p.2 else m) m0 := by
  induction l generalizing m0 with
  | nil => exact ⟨le_refl _, by simp⟩
  | cons q qs ih =>
    simp only [List.foldl_cons]
    obtain ⟨h1, h2⟩ := ih (if q.2 > m0 then q.2 else m0)
    have hm : m0 ≤ (if q.2 > m0 then q.2 else m0) := by split <;> [exact le_of_lt ‹_›; exact le_refl _]
    have hq : q.2 ≤ (if q.2 > m0 then q.2 else m0) := by
      split
      · exact le_refl _
      · exact not_lt.mp ‹_›
    refine ⟨le_trans hm h1, ?_⟩
    intro p hp
    rcases List.mem_cons.mp hp with rfl | hp
    · exact le_trans hq h1
    · exact h2 p hp

/-- `.max()` is an upper bound of every hourly value -/
theorem maxVal_ge (a : Series) (m : Rat) (h : Series.maxVal a = some m) : ∀ p ∈ a, p.2 ≤ m := by
  cases a with
  | nil => cases h
  | cons q qs =>
    obtain ⟨k, v⟩ := q
    simp only [Series.maxVal, Option.some.injEq] at h
    subst h
    intro p hp
    obtain ⟨h1, h2⟩ := foldl_max_ge qs v
    rcases List.mem_cons.mp hp with rfl | hp
    · exact h1
    · exact h2 p hp

/-- **on-premise without a fixed count**: a constant number of instances, the ceiling of the peak
raw need, hence at least the raw need at every hour -/
theorem onprem_const_ge_peak (r : Series) (v : Val)
    (h : serverNbOfInstances "on-premise" (.h ⟨r, U.dimless⟩) .empty = .ok v) :
    ∃ c : Rat, v = .h ⟨Series.constLike r c, U.dimless⟩ ∧ ∀ p ∈ r, p.2 ≤ c := by
  simp only [serverNbOfInstances, Val.max, bind, Except.bind] at h
  cases hm : Series.maxVal r with
  | none => simp [hm] at h
  | some m =>
    simp only [hm, Val.ceil, Val.to, Qty.to, Qty.ceil, pure, Except.pure, U.dimless, if_true, Except.bind,
      Except.map, bind] at h
    injection h with h
    subst h
    refine ⟨_, rfl, ?_⟩
    intro p hp
    have := maxVal_ge r m hm p hp
    simp only [Qty.phys, div_one, mul_one]
    exact le_trans this Rat.le_ceil

/-- **a user-fixed count is honoured exactly or the model raises**: with a fixed number `f` of
on-premise instances the result is either the error `fixedInstances` (when the ceiling of the peak
need exceeds `f`) or the constant `f` at every hour with `f` covering every hourly need —
never a smaller series -/
theorem fixed_honoured_or_raises (r : Series) (f : Rat) :
    serverNbOfInstances "on-premise" (.h ⟨r, U.dimless⟩) (.q ⟨f, U.dimless⟩) = .error .fixedInstances ∨
    serverNbOfInstances "on-premise" (.h ⟨r, U.dimless⟩) (.q ⟨f, U.dimless⟩) = .error .nan ∨
    (serverNbOfInstances "on-premise" (.h ⟨r, U.dimless⟩) (.q ⟨f, U.dimless⟩)
        = .ok (.h ⟨Series.constLike r f, U.dimless⟩) ∧ ∀ p ∈ r, p.2 ≤ f) := by
  simp only [serverNbOfInstances, Val.max, bind, Except.bind]
  cases hm : Series.maxVal r with
  | none => right; left; rfl
  | some m =>
    simp only [Val.ceil, Val.to, Qty.to, Qty.ceil, Qty.gt, pure, Except.pure, U.dimless, if_true, Except.bind,
      Except.map, bind, Qty.phys, div_one, mul_one]
    by_cases hgt : ((m.ceil : Int) : Rat) > f
    · left; simp [hgt]; rfl
    · right; right
      simp only [hgt, decide_false, Bool.false_eq_true, if_false, true_and]
      intro p hp
      exact le_trans (le_trans (maxVal_ge r m hm p hp) Rat.le_ceil) (not_lt.mp hgt)

theorem ceil_mono (x y : Rat) (h : x ≤ y) : x.ceil ≤ y.ceil := by
  have h1 : ((x.ceil : Int) : Rat) < x + 1 := Rat.ceil_lt
  have h2 : y ≤ ((y.ceil : Int) : Rat) := Rat.le_ceil
  have h3 : ((x.ceil : Int) : Rat) < ((y.ceil : Int) : Rat) + 1 := by linarith
  have h4 : x.ceil < y.ceil + 1 := by exact_mod_cast h3
  omega

/-- … and an accepted fixed count covers *whole machines*: it is at least the ceiling of the need at every
hour, also when the count itself is not a whole number (a count between the peak need and its ceiling is
refused — seed C04-f compares with the un-rounded peak and accepts it) -/
theorem accepted_fixed_count_covers_whole_machines (r : Series) (f : Rat)
    (h : serverNbOfInstances "on-premise" (.h ⟨r, U.dimless⟩) (.q ⟨f, U.dimless⟩)
        = .ok (.h ⟨Series.constLike r f, U.dimless⟩)) :
    ∀ p ∈ r, ((p.2.ceil : Int) : Rat) ≤ f := by
  simp only [serverNbOfInstances, Val.max, bind, Except.bind] at h
  cases hm : Series.maxVal r with
  | none => simp [hm] at h
  | some m =>
    simp only [hm, Val.ceil, Val.to, Qty.to, Qty.ceil, Qty.gt, pure, Except.pure, U.dimless, if_true, Except.bind,
      Except.map, bind, Qty.phys, div_one, mul_one] at h
    by_cases hgt : ((m.ceil : Int) : Rat) > f
    · simp [hgt] at h
    · intro p hp
      have h1 : p.2.ceil ≤ m.ceil := ceil_mono _ _ (maxVal_ge r m hm p hp)
      have h2 : ((p.2.ceil : Int) : Rat) ≤ ((m.ceil : Int) : Rat) := by exact_mod_cast h1
      exact le_trans h2 (not_lt.mp hgt)

example : serverNbOfInstances "on-premise" (.h ⟨[(0, 463 / 1000), (3600, 2315 / 1000)], U.dimless⟩) (.q ⟨5 / 2, U.dimless⟩)
    = .error .fixedInstances := by decide +kernel

/-! ## storage -/

/-- **storage instances × capacity cover the cumulative need** (capacity > 0) -/
theorem storage_covers_cumulative (cum cap : Rat) (hcap : 0 < cap) :
    cum ≤ (((cum / cap).ceil : Int) : Rat) * cap := by
  have : cum / cap ≤ (((cum / cap).ceil : Int) : Rat) := Rat.le_ceil
  calc cum = cum / cap * cap := by field_simp
    _ ≤ _ := by gcongr

/-- the storage rule without a fixed count is the hour-by-hour ceiling of the raw need -/
theorem storage_nb_eq_ceil (raw : HQ) :
    storageNbOfInstances (.h raw) .empty = .ok (.h ⟨Series.ceil raw.vals, raw.unit⟩) := rfl

/-- with a fixed count: the constant, or the error — never fewer instances than needed -/
theorem storage_fixed_honoured_or_raises (r : Series) (f : Rat) :
    storageNbOfInstances (.h ⟨r, U.dimless⟩) (.q ⟨f, U.dimless⟩) = .error .fixedInstances ∨
    storageNbOfInstances (.h ⟨r, U.dimless⟩) (.q ⟨f, U.dimless⟩) = .error .nan ∨
    (storageNbOfInstances (.h ⟨r, U.dimless⟩) (.q ⟨f, U.dimless⟩)
        = .ok (.h ⟨Series.constLike r f, U.dimless⟩) ∧ ∀ p ∈ Series.ceil r, p.2 ≤ f) := by
  simp only [storageNbOfInstances, bind, Except.bind]
  cases hm : Series.maxVal (Series.ceil r) with
  | none => right; left; rfl
  | some m =>
    simp only [Qty.gt, Qty.to, U.dimless, if_true, Qty.phys, div_one, mul_one, pure, Except.pure]
    by_cases hgt : m > f
    · left; simp [hgt]; rfl
    · right; right
      simp only [hgt, decide_false, Bool.false_eq_true, if_false, true_and]
      intro p hp
      exact le_trans (maxVal_ge _ m hm p hp) (not_lt.mp hgt)

/-! ## the cumulative need is the initial need plus the running sum of the delta -/

open Efp.Series in
theorem prefixSum_of_lt (a : Series) (t : Int) (h : ∀ k ∈ Series.keys a, t < k) : Series.prefixSum a t = 0 := by
  unfold Series.prefixSum
  have : a.filter (fun p => decide (p.1 ≤ t)) = [] := by
    rw [List.filter_eq_nil_iff]
    intro p hp
    have := h p.1 (List.mem_map_of_mem (f := Prod.fst) hp)
    simp only [decide_eq_true_eq]; omega
  rw [this]; simp

theorem cumsumAux_get (a : Series) (ha : Series.Sorted a) (acc : Rat) (t : Int) (ht : t ∈ Series.keys a) :
    Series.get (Series.cumsumAux acc a) t = acc + Series.prefixSum a t := by
  induction a generalizing acc with
  | nil => simp at ht
  | cons p rest ih =>
    obtain ⟨k, v⟩ := p
    have hs := List.pairwise_cons.mp ha
    have hrest : Series.Sorted rest := hs.2
    simp only [Series.cumsumAux, Series.get_cons]
    by_cases hk : k = t
    · subst hk
      simp only [if_true]
      have h0 : Series.prefixSum rest k = 0 := prefixSum_of_lt rest k (fun k' hk' => hs.1 k' hk')
      unfold Series.prefixSum at h0 ⊢
      simp only [List.filter_cons, le_refl, decide_true, if_true, List.map_cons, List.sum_cons, h0]; ring
    · simp only [hk, if_false]
      have ht' : t ∈ Series.keys rest := by
        simp only [Series.keys_cons, List.mem_cons] at ht
        rcases ht with h | h
        · exact absurd h.symm hk
        · exact h
      rw [ih hrest (acc + v) ht']
      have hlt : k < t := hs.1 t ht'
      unfold Series.prefixSum
      simp only [List.filter_cons, decide_eq_true_eq, le_of_lt hlt, if_true, List.map_cons, List.sum_cons]; ring

/-- **cumulative storage need = initial need + running sum of the storage delta**, at every hour
of the delta's index -/
theorem storage_cumulative_formula (delta : Series) (hd : Series.Sorted delta) (base : Rat) (t : Int)
    (ht : t ∈ Series.keys delta) :
    Series.get (Series.cumsum (Series.bumpFirst base delta)) t = base + Series.prefixSum delta t := by
  cases delta with
  | nil => simp at ht
  | cons p rest =>
    obtain ⟨k, v⟩ := p
    have hs := List.pairwise_cons.mp hd
    have hsorted : Series.Sorted ((k, v + base) :: rest) := hd
    have ht' : t ∈ Series.keys ((k, v + base) :: rest) := ht
    unfold Series.cumsum
    show Series.get (Series.cumsumAux 0 ((k, v + base) :: rest)) t = _
    rw [cumsumAux_get _ hsorted 0 t ht']
    have hk : k ≤ t := by
      simp only [Series.keys_cons, List.mem_cons] at ht
      rcases ht with h | h
      · omega
      · exact le_of_lt (hs.1 t h)
    unfold Series.prefixSum
    simp only [List.filter_cons, decide_eq_true_eq, hk, if_true, List.map_cons, List.sum_cons]; ring

/-! ## a model in which no job deletes data is never rejected for negative storage (over ℚ) -/

/-- the storage delta of a deletion-free model: what is written, minus the same volume `d` hours
later (automatic dumps after the storage duration), the dumps being cut at the last written hour -/
def deletionFreeDelta (needed : Series) (d : Int) (last : Int) : Series :=
  Series.add needed (Series.truncateTo last (Series.neg (Series.shift d needed)))

/-- **every running sum of a deletion-free storage delta is non-negative** -/
theorem running_sum_nonneg_without_deletion (needed : Series) (hs : Series.Sorted needed)
    (hpos : ∀ p ∈ needed, 0 ≤ p.2) (d : Int) (hd : 0 ≤ d) (last : Int) (t : Int) :
    0 ≤ Series.prefixSum (deletionFreeDelta needed d last) t := by
  unfold deletionFreeDelta
  have hsd : Series.Sorted (Series.truncateTo last (Series.neg (Series.shift d needed))) :=
    Series.sorted_truncateTo _ _ (Series.sorted_neg _ (Series.sorted_shift d needed hs))
  rw [Series.prefixSum_add _ _ hs hsd, Series.prefixSum_truncateTo, Series.prefixSum_neg, Series.prefixSum_shift]
  have hle : min t last - 3600 * d ≤ t := by
    have : min t last ≤ t := min_le_left t last
    nlinarith
  have := (Series.prefixSum_mono needed hpos (min t last - 3600 * d) t hle).2
  linarith

/-- **cumulative storage need ≥ 0 at every hour**, hence the sign test of
`update_full_cumulative_storage_need` never rejects a model without deleting jobs — in exact
arithmetic; in floating point the running sum can come out as −1e-25 (finding D4) -/
theorem cumulative_nonneg_without_deletion (needed : Series) (hs : Series.Sorted needed)
    (hpos : ∀ p ∈ needed, 0 ≤ p.2) (d : Int) (hd : 0 ≤ d) (last : Int) (base : Rat) (hb : 0 ≤ base) (t : Int)
    (ht : t ∈ Series.keys (deletionFreeDelta needed d last)) :
    0 ≤ Series.get (Series.cumsum (Series.bumpFirst base (deletionFreeDelta needed d last))) t := by
  have hsorted : Series.Sorted (deletionFreeDelta needed d last) := Series.sorted_add _ _ hs
  rw [storage_cumulative_formula _ hsorted base t ht]
  have := running_sum_nonneg_without_deletion needed hs hpos d hd last t
  linarith

/-! ## active instances never exceed provisioned ones -/

/-- the element-wise minimum with the provisioned count is at most the provisioned count, position
by position (`np_compared_with(nb_of_instances, "min")`) -/
theorem active_le_provisioned (tmp nb z : Series)
    (h : Series.zipPos (fun x y => if x ≤ y then x else y) tmp nb = .ok z) (hlen : tmp.length = nb.length) :
    ∀ i (hi : i < z.length) (hi' : i < nb.length), (z[i]).2 ≤ (nb[i]).2 := by
  unfold Series.zipPos at h
  simp only [hlen, if_true] at h
  injection h with h
  subst h
  intro i hi hi'
  simp only [List.getElem_zipWith]
  split
  · assumption
  · exact le_refl _

/-! ## non-vacuity -/
example : serverNbOfInstances "on-premise" (.h ⟨[(0, 3/2), (3600, 5/2)], U.dimless⟩) .empty
    = .ok (.h ⟨[(0, 3), (3600, 3)], U.dimless⟩) := by decide +kernel
example : serverNbOfInstances "on-premise" (.h ⟨[(0, 3/2), (3600, 5/2)], U.dimless⟩) (.q ⟨2, U.dimless⟩)
    = .error .fixedInstances := by decide +kernel
example : Series.cumsum (Series.bumpFirst 10 [(0, 1), (3600, -2), (7200, 5)]) = [(0, 11), (3600, 9), (7200, 14)] := by
  decide +kernel

end Efp.Props.C04

import Efp.Proofs.Val
import Efp.Props.C02
import Efp.Theory.Checker
import Mathlib.Algebra.BigOperators.Group.List.Basic
/-!
# C19 — results are independent of creation order, identifiers and hashing

In Model B identifiers never enter a rule (objects are referred to by their position in the
specification, names are only look-up keys), and every iteration order that Python derives from a
`set` or from an order-irrelevant list is an explicit list of the specification.  What has to be
shown is that permuting such a list does not change any physical value.  Every such iteration in
the code is an accumulation `x += …` of hourly values in one unit, i.e. `sumVals`.
At the level of the whole computation, `builds_agree`: any two computation orders that respect the
reads give the same state (the abstract recomputation theory of C01).
-/
namespace Efp.Props.C19
open Efp

/-- **Accumulations do not depend on the order of their terms**: for any permutation of the parts
(usage patterns of a job, jobs of a server, servers / storages / networks / patterns of the system,
devices of a pattern, jobs listed in the same step) the hour-by-hour physical result and the total
are the same. -/
theorem sumVals_perm_invariant (u : Efp.Unit) (hu : u.scale ≠ 0) (parts parts' : List Val)
    (hperm : parts.Perm parts') (hparts : ∀ v ∈ parts, v.HourlyIn u) :
    ∃ r r', sumVals .empty parts = .ok r ∧ sumVals .empty parts' = .ok r' ∧
      (∀ t, r.physAt t = r'.physAt t) ∧ r.totalPhys = r'.totalPhys := by
  have hparts' : ∀ v ∈ parts', v.HourlyIn u := fun v hv => hparts v (hperm.mem_iff.mpr hv)
  obtain ⟨r, hr, hp, ht⟩ := C02.total_is_sum_of_parts u hu parts hparts
  obtain ⟨r', hr', hp', ht'⟩ := C02.total_is_sum_of_parts u hu parts' hparts'
  refine ⟨r, r', hr, hr', ?_, ?_⟩
  · intro t; rw [hp t, hp' t]; exact (hperm.map _).sum_eq
  · rw [ht, ht']; exact (hperm.map _).sum_eq

/-- the collections the system iterates over contain the same objects whatever order the
reachable objects are enumerated in (creation order, hash order) -/
theorem collections_perm_invariant (l l' : List String) (h : l.Perm l') (x : String) :
    x ∈ dedup l ↔ x ∈ dedup l' := by
  rw [(C02.counted_exactly_once l).2 x, (C02.counted_exactly_once l').2 x]; exact h.mem_iff

/-- occurrences of a job do not depend on the order in which same-step jobs are listed: the
delays contributed by a step depend only on how many times the job appears in it -/
theorem same_step_order_irrelevant (jobs jobs' : List String) (h : jobs.Perm jobs') (job : String) (dh : Int) :
    (jobs.filter (· == job)).map (fun _ => dh) = (jobs'.filter (· == job)).map (fun _ => dh) := by
  have : (jobs.filter (· == job)).length = (jobs'.filter (· == job)).length := (h.filter _).length_eq
  rw [List.map_const', List.map_const', this]

/-- **building the same model twice gives the same numbers, whatever the order of computation**:
two full passes over the calculated nodes, in any two orders that respect the reads (creation order,
hash order of the objects, canonical class order…), from any two starting states that agree on the
inputs, end in the same state — for every rule system whose reads are well-founded -/
theorem builds_agree {V : Type} (S : Efp.Theory.RuleSys Nat V) (rk : Nat → Nat)
    (wf : ∀ n, S.isCalc n = true → ∀ m ∈ S.reads n, rk m < rk n)
    (order order' : List Nat) (σ σ' : Nat → V)
    (hnd : order.Nodup) (hnd' : order'.Nodup)
    (hall : ∀ n, S.isCalc n = true → n ∈ order) (hall' : ∀ n, S.isCalc n = true → n ∈ order')
    (honly : ∀ n ∈ order, S.isCalc n = true) (honly' : ∀ n ∈ order', S.isCalc n = true)
    (hord : ∀ l₁ n l₂, order = l₁ ++ n :: l₂ → ∀ m ∈ S.reads n, m ∉ l₂ ∧ m ≠ n)
    (hord' : ∀ l₁ n l₂, order' = l₁ ++ n :: l₂ → ∀ m ∈ S.reads n, m ∉ l₂ ∧ m ≠ n)
    (hin : ∀ n, S.isCalc n = false → σ n = σ' n) :
    Efp.Theory.run S σ order = Efp.Theory.run S σ' order' := by
  have c := Efp.Theory.full_pass_consistent S order σ hnd hall hord
  have c' := Efp.Theory.full_pass_consistent S order' σ' hnd' hall' hord'
  funext n
  apply Efp.Theory.consistent_unique S rk wf _ _ c c'
  intro m hm
  have h1 : m ∉ order := fun h => by rw [honly m h] at hm; cases hm
  have h2 : m ∉ order' := fun h => by rw [honly' m h] at hm; cases hm
  rw [Efp.Theory.run_not_mem S order σ m h1, Efp.Theory.run_not_mem S order' σ' m h2]
  exact hin m hm

example : (["a", "b", "a"] : List String).Perm ["a", "a", "b"] := by decide

end Efp.Props.C19

import Efp.Proofs.Val
import Efp.Props.C02
import Efp.Theory.Checker
import Mathlib.Algebra.BigOperators.Group.List.Basic
/-!
# C19 — results are independent of creation order, identifiers and hashing

In Model B identifiers never enter a rule (objects are referred to by their position in the
specification, names are only look-up keys), and every iteration order that Python derives from a
`set` or from an order-irrelevant list is an explicit list of the specification.  What has to be
shown is that permuting such a list does not change any physical value.  Every such iteration in
the code is an accumulation `x += …` of hourly values in one unit, i.e. `sumVals`.
At the level of the whole computation, `builds_agree`: any two computation orders that respect the
reads give the same state (the abstract recomputation theory of C01).
-/
namespace Efp.Props.C19
open Efp

/-- **Accumulations do not depend on the order of their terms**: for any permutation of the parts
(usage patterns of a job, jobs of a server, servers / storages / networks / patterns of the system,
devices of a pattern, jobs listed in the same step) the hour-by-hour physical result and the total
are the same. -/
theorem sumVals_perm_invariant (u : Efp.Unit) (hu : u.scale ≠ 0) (parts parts' : List Val)
    (hperm : parts.Perm parts') (hparts : ∀ v ∈ parts, v.HourlyIn u) :
    ∃ r r', sumVals .empty parts = .ok r ∧ sumVals .empty parts' = .ok r' ∧
      (∀ t, r.physAt t = r'.physAt t) ∧ r.totalPhys = r'.totalPhys := by
  have hparts' : ∀ v ∈ parts', v.HourlyIn u := fun v hv => hparts v (hperm.mem_iff.mpr hv)
  obtain ⟨r, hr, hp, ht⟩ := C02.total_is_sum_of_parts u hu parts hparts
  obtain ⟨r', hr', hp', ht'⟩ := C02.total_is_sum_of_parts u hu parts' hparts'
  refine ⟨r, r', hr, hr', ?_, ?_⟩
  · intro t; rw [hp t, hp' t]; exact (hperm.map _).sum_eq
  · rw [ht, ht']; exact (hperm.map _).sum_eq

/-- the collections the system iterates over contain the same objects whatever order the
reachable objects are enumerated in (creation order, hash order) -/
theorem collections_perm_invariant (l l' : List String) (h : l.Perm l') (x : String) :
    x ∈ dedup l ↔ x ∈ dedup l' := by
  rw [(C02.counted_exactly_once l).2 x, (C02.counted_exactly_once l').2 x]; exact h.mem_iff

/-- occurrences of a job do not depend on the order in which same-step jobs are listed: the
delays contributed by a step depend only on how many times the job appears in it -/
theorem same_step_order_irrelevant (jobs jobs' : List String) (h : jobs.Perm jobs') (job : String) (dh : Int) :
    (jobs.filter (· == job)).map (fun _ => dh) = (jobs'.filter (· == job)).map (fun _ => dh) := by
  have : (jobs.filter (· == job)).length = (jobs'.filter (· == job)).length := (h.filter _).length_eq
  rw [List.map_const', List.map_const', this]

/-- **building the same model twice gives the same numbers, whatever the order of computation**:
two full passes over the calculated nodes, in any two orders that respect the reads (creation order,
hash order of the objects, canonical class order…), from any two starting states that agree on the
inputs, end in the same state — for every rule system whose reads are well-founded -/
theorem builds_agree {V : Type} (S : Efp.Theory.RuleSys Nat V) (rk : Nat → Nat)
    (wf : ∀ n, S.isCalc n = true → ∀ m ∈ S.reads n, rk m < rk n)
    (order order' : List Nat) (σ σ' : Nat → V)
    (hnd : order.Nodup) (hnd' : order'.Nodup)
    (hall : ∀ n, S.isCalc n = true → n ∈ order) (hall' : ∀ n, S.isCalc n = true → n ∈ order')
    (honly : ∀ n ∈ order, S.isCalc n = true) (honly' : ∀ n ∈ order', S.isCalc n = true)
    (hord : ∀ l₁ n l₂, order = l₁ ++ n :: l₂ → ∀ m ∈ S.reads n, m ∉ l₂ ∧ m ≠ n)
    (hord' : ∀ l₁ n l₂, order' = l₁ ++ n :: l₂ → ∀ m ∈ S.reads n, m ∉ l₂ ∧ m ≠ n)
    (hin : ∀ n, S.isCalc n = false → σ n = σ' n) :
    Efp.Theory.run S σ order = Efp.Theory.run S σ' order' := by
  have c := Efp.Theory.full_pass_consistent S order σ hnd hall hord
  have c' := Efp.Theory.full_pass_consistent S order' σ' hnd' hall' hord'
  funext n
  apply Efp.Theory.consistent_unique S rk wf _ _ c c'
  intro m hm
  have h1 : m ∉ order := fun h => by rw [honly m h] at hm; cases hm
  have h2 : m ∉ order' := fun h => by rw [honly' m h] at hm; cases hm
  rw [Efp.Theory.run_not_mem S order σ m h1, Efp.Theory.run_not_mem S order' σ' m h2]
  exact hin m hm

example : (["a", "b", "a"] : List String).Perm ["a", "a", "b"] := by decide

/-! ## identifiers

Rebuilding the same model gives every object a fresh random id and therefore every value a new
name (`attr-in-<id>`).  `renamed S f g` is the rule system of the rebuilt model: the node that was
called `n` is now called `f n` (`g` is the inverse of `f`), it reads the renamed nodes and its rule
is the same function of what it reads. -/

def renamed {V : Type} (S : Efp.Theory.RuleSys Nat V) (f g : Nat → Nat) (hgf : ∀ n, g (f n) = n) :
    Efp.Theory.RuleSys Nat V where
  isCalc n := S.isCalc (g n)
  reads n := (S.reads (g n)).map f
  rule n σ := S.rule (g n) (fun m => σ (f m))
  rule_local := by
    intro n σ σ' h
    apply S.rule_local
    intro m hm
    exact h (f m) (List.mem_map.mpr ⟨m, hm, rfl⟩)

/-- the renamed copy of a consistent state is consistent for the renamed rules -/
theorem renamed_consistent {V : Type} (S : Efp.Theory.RuleSys Nat V) (f g : Nat → Nat)
    (hgf : ∀ n, g (f n) = n) (σ : Nat → V) (h : Efp.Theory.Consistent S σ) :
    Efp.Theory.Consistent (renamed S f g hgf) (fun n => σ (g n)) := by
  intro n hn
  show σ (g n) = S.rule (g n) (fun m => σ (g (f m)))
  rw [h (g n) hn]
  apply S.rule_local
  intro m _
  rw [hgf m]

/-- **results do not depend on the identifiers**: whatever consistent state the rebuilt model is
in, the value now called `f n` is the value that was called `n`, as soon as the two models have the
same inputs — for every rule system whose reads are well-founded and every renaming `f` -/
theorem identifiers_irrelevant {V : Type} (S : Efp.Theory.RuleSys Nat V) (rk : Nat → Nat)
    (wf : ∀ n, S.isCalc n = true → ∀ m ∈ S.reads n, rk m < rk n)
    (f g : Nat → Nat) (hgf : ∀ n, g (f n) = n) (hfg : ∀ n, f (g n) = n)
    (σ σ' : Nat → V) (h : Efp.Theory.Consistent S σ)
    (h' : Efp.Theory.Consistent (renamed S f g hgf) σ')
    (hin : ∀ n, S.isCalc n = false → σ' (f n) = σ n) :
    ∀ n, σ' (f n) = σ n := by
  have wf' : ∀ n, (renamed S f g hgf).isCalc n = true →
      ∀ m ∈ (renamed S f g hgf).reads n, rk (g m) < rk (g n) := by
    intro n hn m hm
    obtain ⟨m0, hm0, rfl⟩ := List.mem_map.mp hm
    rw [hgf m0]
    exact wf (g n) hn m0 hm0
  have key := Efp.Theory.consistent_unique (renamed S f g hgf) (fun n => rk (g n)) wf' σ'
    (fun n => σ (g n)) h' (renamed_consistent S f g hgf σ h) (by
      intro n hn
      have := hin (g n) hn
      rw [hfg n] at this
      exact this)
  intro n
  rw [key (f n), hgf n]

/-- … in particular for the two builds themselves: a full pass over the rebuilt model, in any order
that respects its reads and from any starting values, ends with the original's numbers under the
new names -/
theorem rebuilt_model_has_the_same_numbers {V : Type} (S : Efp.Theory.RuleSys Nat V) (rk : Nat → Nat)
    (wf : ∀ n, S.isCalc n = true → ∀ m ∈ S.reads n, rk m < rk n)
    (f g : Nat → Nat) (hgf : ∀ n, g (f n) = n) (hfg : ∀ n, f (g n) = n)
    (order order' : List Nat) (σ σ' : Nat → V)
    (hnd : order.Nodup) (hnd' : order'.Nodup)
    (hall : ∀ n, S.isCalc n = true → n ∈ order)
    (hall' : ∀ n, (renamed S f g hgf).isCalc n = true → n ∈ order')
    (honly : ∀ n ∈ order, S.isCalc n = true)
    (honly' : ∀ n ∈ order', (renamed S f g hgf).isCalc n = true)
    (hord : ∀ l₁ n l₂, order = l₁ ++ n :: l₂ → ∀ m ∈ S.reads n, m ∉ l₂ ∧ m ≠ n)
    (hord' : ∀ l₁ n l₂, order' = l₁ ++ n :: l₂ → ∀ m ∈ (renamed S f g hgf).reads n, m ∉ l₂ ∧ m ≠ n)
    (hin : ∀ n, S.isCalc n = false → σ' (f n) = σ n) :
    ∀ n, Efp.Theory.run (renamed S f g hgf) σ' order' (f n) = Efp.Theory.run S σ order n := by
  have c := Efp.Theory.full_pass_consistent S order σ hnd hall hord
  have c' := Efp.Theory.full_pass_consistent (renamed S f g hgf) order' σ' hnd' hall' hord'
  apply identifiers_irrelevant S rk wf f g hgf hfg _ _ c c'
  intro n hn
  have h1 : n ∉ order := fun h => by rw [honly n h] at hn; cases hn
  have h2 : f n ∉ order' := fun h => by
    have := honly' (f n) h
    change S.isCalc (g (f n)) = true at this
    rw [hgf n, hn] at this; cases this
  rw [Efp.Theory.run_not_mem S order σ n h1, Efp.Theory.run_not_mem _ order' σ' (f n) h2]
  exact hin n hn

/-- non-vacuity: a two-node system (node 1 doubles node 0) renamed by swapping 0 ↔ 5 -/
def demoSys : Efp.Theory.RuleSys Nat Nat where
  isCalc n := n == 1
  reads n := if n == 1 then [0] else []
  rule n σ := if n == 1 then 2 * σ 0 else 0
  rule_local := by
    intro n σ σ' h
    by_cases hn : n = 1
    · subst hn; simp at h ⊢; exact h
    · have : (n == 1) = false := by simpa using hn
      simp [this]

def swap05 (n : Nat) : Nat := if n = 0 then 5 else if n = 5 then 0 else n
theorem swap05_invol (n : Nat) : swap05 (swap05 n) = n := by
  unfold swap05; split <;> (try split) <;> (try split) <;> omega

example : Efp.Theory.run (renamed demoSys swap05 swap05 swap05_invol) (fun n => if n = 5 then 21 else 0) [1] 1 = 42 := by
  decide

end Efp.Props.C19

import Efp.Proofs.Val
import Efp.Props.C02
import Mathlib.Algebra.BigOperators.Group.List.Basic
/-!
# C19 — results are independent of creation order, identifiers and hashing

In Model B identifiers never enter a rule (objects are referred to by their position in the
specification, names are only look-up keys), and every iteration order that Python derives from a
`set` or from an order-irrelevant list is an explicit list of the specification.  What has to be
shown is that permuting such a list does not change any physical value.  Every such iteration in
the code is an accumulation `x += …` of hourly values in one unit, i.e. `sumVals`.
-/
namespace Efp.Props.C19
open Efp

/-- **Accumulations do not depend on the order of their terms**: for any permutation of the parts
(usage patterns of a job, jobs of a server, servers / storages / networks / patterns of the system,
devices of a pattern, jobs listed in the same step) the hour-by-hour physical result and the total
are the same. -/
theorem sumVals_perm_invariant (u : Efp.Unit) (hu : u.scale ≠ 0) (parts parts' : List Val)
    (hperm : parts.Perm parts') (hparts : ∀ v ∈ parts, v.HourlyIn u) :
    ∃ r r', sumVals .empty parts = .ok r ∧ sumVals .empty parts' = .ok r' ∧
      (∀ t, r.physAt t = r'.physAt t) ∧ r.totalPhys = r'.totalPhys := by
  have hparts' : ∀ v ∈ parts', v.HourlyIn u := fun v hv => hparts v (hperm.mem_iff.mpr hv)
  obtain ⟨r, hr, hp, ht⟩ := C02.total_is_sum_of_parts u hu parts hparts
  obtain ⟨r', hr', hp', ht'⟩ := C02.total_is_sum_of_parts u hu parts' hparts'
  refine ⟨r, r', hr, hr', ?_, ?_⟩
  · intro t; rw [hp t, hp' t]; exact (hperm.map _).sum_eq
  · rw [ht, ht']; exact (hperm.map _).sum_eq

/-- the collections the system iterates over contain the same objects whatever order the
reachable objects are enumerated in (creation order, hash order) -/
theorem collections_perm_invariant (l l' : List String) (h : l.Perm l') (x : String) :
    x ∈ dedup l ↔ x ∈ dedup l' := by
  rw [(C02.counted_exactly_once l).2 x, (C02.counted_exactly_once l').2 x]; exact h.mem_iff

/-- occurrences of a job do not depend on the order in which same-step jobs are listed: the
delays contributed by a step depend only on how many times the job appears in it -/
theorem same_step_order_irrelevant (jobs jobs' : List String) (h : jobs.Perm jobs') (job : String) (dh : Int) :
    (jobs.filter (· == job)).map (fun _ => dh) = (jobs'.filter (· == job)).map (fun _ => dh) := by
  have : (jobs.filter (· == job)).length = (jobs'.filter (· == job)).length := (h.filter _).length_eq
  rw [List.map_const', List.map_const', this]

example : (["a", "b", "a"] : List String).Perm ["a", "a", "b"] := by decide

end Efp.Props.C19

import Efp.Proofs.Val
/-!
# C03 — usage volumes are conserved from journey starts down to job load

Theorems about the executable cores of Model B that the correspondence suite `K-calc` runs
against the real code: `occFold` (job occurrences), `dataFold` (data transferred / stored),
`avgOccSeries` (`compute_nb_avg_hourly_occurrences`: average occurrences, journeys in parallel).
They hold for every start series (any length, zeros, gaps), every list of delays, every duration.
-/
namespace Efp.Props.C03
open Efp

/-! ## job occurrences -/

theorem occFold_aux (utc : HQ) (hs : Series.Sorted utc.vals) (hu : utc.unit.scale ≠ 0)
    (ds : List Int) (acc : Val) (hacc : acc.HourlyIn utc.unit) :
    ∃ v, ds.foldlM (fun occ d => do occ.add (← (Val.h utc).shiftBy d)) acc = .ok v ∧
      v.HourlyIn utc.unit ∧
      (∀ t, v.physAt t = acc.physAt t + (ds.map (fun d => utc.phys (t - 3600 * d))).sum) ∧
      v.totalPhys = acc.totalPhys + ds.length * utc.totalPhys := by
  induction ds generalizing acc with
  | nil => exact ⟨acc, rfl, hacc, by simp, by simp⟩
  | cons d ds ih =>
    obtain ⟨v1, h1, hv1, _, hp1, ht1⟩ :=
      add_hourlyIn acc (Series.shift d utc.vals) utc.unit hu hacc (Series.sorted_shift d _ hs)
    obtain ⟨v, h2, hv, hp, ht⟩ := ih v1 hv1
    refine ⟨v, ?_, hv, ?_, ?_⟩
    · simp only [List.foldlM_cons, Val.shiftBy, bind, Except.bind, pure, Except.pure] at h2 ⊢
      rw [h1]; exact h2
    · intro t
      rw [hp t, hp1 t, Series.get_shift]
      simp only [List.map_cons, List.sum_cons, HQ.phys]; ring
    · rw [ht, ht1, Series.total_shift]
      simp only [List.length_cons, HQ.totalPhys]; push_cast; ring

/-- **Occurrences are conserved and placed at the shifted starts.** For every UTC start series and
every list of delays (one per appearance of the job in the journey, each the whole hours of the
preceding steps): the computation succeeds, the value at hour `t` is the sum over appearances of
the starts at `t − delay`, and the total is (number of appearances) × (total starts). -/
theorem occurrences_conserved (utc : HQ) (hs : Series.Sorted utc.vals) (hu : utc.unit.scale ≠ 0)
    (ds : List Int) :
    ∃ v, occFold (.h utc) ds = .ok v ∧
      (∀ t, v.physAt t = (ds.map (fun d => utc.phys (t - 3600 * d))).sum) ∧
      v.totalPhys = ds.length * utc.totalPhys := by
  obtain ⟨v, h, _, hp, ht⟩ := occFold_aux utc hs hu ds .empty (Or.inl rfl)
  refine ⟨v, h, ?_, ?_⟩
  · intro t; rw [hp t]; simp [Val.physAt]
  · rw [ht]; simp [Val.totalPhys]

/-! ## data transferred / stored -/

theorem dataFold_aux (occ : HQ) (hs : Series.Sorted occ.vals) (q : Qty)
    (hu : (occ.unit.mul q.unit).scale ≠ 0) (ks : List Nat) (acc : Val)
    (hacc : acc.HourlyIn (occ.unit.mul q.unit)) :
    ∃ v, ks.foldlM (fun (acc : Val) (k : Nat) => do
        match (Val.h occ) with
        | .empty => pure acc
        | _ => acc.add (← (← (Val.h occ).shiftBy (Int.ofNat k)).mul (.q q))) acc = .ok v ∧
      v.HourlyIn (occ.unit.mul q.unit) ∧
      (∀ t, v.physAt t = acc.physAt t + (ks.map (fun (k : Nat) => occ.phys (t - 3600 * (k : Int)) * q.phys)).sum) ∧
      v.totalPhys = acc.totalPhys + ks.length * (occ.totalPhys * q.phys) := by
  induction ks generalizing acc with
  | nil => exact ⟨acc, rfl, hacc, by simp, by simp⟩
  | cons k ks ih =>
    have hsorted : Series.Sorted (Series.scale q.mag (Series.shift (Int.ofNat k) occ.vals)) :=
      Series.sorted_scale _ _ (Series.sorted_shift _ _ hs)
    obtain ⟨v1, h1, hv1, _, hp1, ht1⟩ := add_hourlyIn acc _ (occ.unit.mul q.unit) hu hacc hsorted
    obtain ⟨v, h2, hv, hp, ht⟩ := ih v1 hv1
    refine ⟨v, ?_, hv, ?_, ?_⟩
    · simp only [List.foldlM_cons, Val.shiftBy, Val.mul, bind, Except.bind, pure, Except.pure] at h2 ⊢
      rw [h1]; exact h2
    · intro t
      rw [hp t, hp1 t, Series.get_scale, Series.get_shift]
      simp only [List.map_cons, List.sum_cons, HQ.phys, Qty.phys, Unit.mul, Int.ofNat_eq_natCast]; ring
    · rw [ht, ht1, Series.total_scale, Series.total_shift]
      simp only [List.length_cons, HQ.totalPhys, Qty.phys, Unit.mul]; push_cast; ring

/-- **Data volumes are conserved.** Spreading `perHour` over `n` consecutive hours after each
occurrence gives a series whose total is `n × perHour × occurrences`; with `perHour = amount / n`
(next theorem) that is `amount × occurrences`. -/
theorem data_spread (occ : HQ) (hs : Series.Sorted occ.vals) (q : Qty)
    (hu : (occ.unit.mul q.unit).scale ≠ 0) (n : Nat) :
    ∃ v, dataFold (.h occ) (.q q) n = .ok v ∧
      (∀ t, v.physAt t = ((List.range n).map (fun (k : Nat) => occ.phys (t - 3600 * (k : Int)) * q.phys)).sum) ∧
      v.totalPhys = n * (occ.totalPhys * q.phys) := by
  obtain ⟨v, h, _, hp, ht⟩ := dataFold_aux occ hs q hu (List.range n) .empty (Or.inl rfl)
  refine ⟨v, h, ?_, ?_⟩
  · intro t; rw [hp t]; simp [Val.physAt]
  · rw [ht]; simp [Val.totalPhys]

/-- the per-hour amount times the number of full hours is the per-request amount -/
theorem per_hour_times_hours (amount perHour : Qty) (n : Int) (hn : n ≠ 0)
    (h : amount.div ⟨(n : Rat), U.dimless⟩ = .ok perHour) : (n : Rat) * perHour.phys = amount.phys := by
  unfold Qty.div at h
  have hn' : (n : Rat) ≠ 0 := by exact_mod_cast hn
  simp only [hn', if_false] at h
  injection h with h; subst h
  simp only [Qty.phys, Unit.div, U.dimless]; field_simp

/-- **totals of data transferred / stored equal occurrences × per-request amount** -/
theorem data_conserved (occ : HQ) (hs : Series.Sorted occ.vals) (amount perHour : Qty) (n : Nat) (hn : n ≠ 0)
    (hq : amount.div ⟨((n : Int) : Rat), U.dimless⟩ = .ok perHour)
    (hu : (occ.unit.mul perHour.unit).scale ≠ 0) :
    ∃ v, dataFold (.h occ) (.q perHour) n = .ok v ∧ v.totalPhys = occ.totalPhys * amount.phys := by
  obtain ⟨v, h, _, ht⟩ := data_spread occ hs perHour hu n
  refine ⟨v, h, ?_⟩
  have := per_hour_times_hours amount perHour (n : Int) (by exact_mod_cast hn) hq
  rw [ht, ← this]; push_cast; ring

/-! ## average occurrences / journeys in parallel -/

theorem sumShifts_spec (s : Series) (hs : Series.Sorted s) (n : Nat) :
    Series.Sorted (sumShifts s n) ∧ Series.total (sumShifts s n) = n * Series.total s ∧
    ∀ t, Series.get (sumShifts s n) t = ((List.range n).map (fun (k : Nat) => Series.get s (t - 3600 * (k : Int)))).sum := by
  induction n with
  | zero => exact ⟨by simp [sumShifts, Series.Sorted], by simp [sumShifts], by intro t; simp [sumShifts]⟩
  | succ n ih =>
    obtain ⟨h1, h2, h3⟩ := ih
    refine ⟨Series.sorted_add _ _ h1, ?_, ?_⟩
    · show Series.total (Series.add (sumShifts s n) (Series.shift n s)) = _
      rw [Series.total_add _ _ h1 (Series.sorted_shift _ _ hs).nodup, h2, Series.total_shift]
      push_cast; ring
    · intro t
      show Series.get (Series.add (sumShifts s n) (Series.shift n s)) t = _
      rw [Series.get_add, h3 t, Series.get_shift, List.range_succ, List.map_append, List.sum_append]
      simp

/-- **Occurrence-hours equal occurrences × duration** (`compute_nb_avg_hourly_occurrences`):
for every start series and every duration `dh ≥ 0` in hours — `dh = 0`, sub-hour, whole hours,
multi-hour with a fractional rest — the total of the averaged series is `dh × total`. The same
function gives journeys in parallel (starts × journey duration) and, through it, device energy. -/
theorem avg_occurrences_conserved (s : Series) (hs : Series.Sorted s) (dh : Rat) (hd : 0 ≤ dh) :
    Series.total (avgOccSeries s dh) = dh * Series.total s := by
  have hfl : (0 : Int) ≤ dh.floor := Rat.le_floor_iff.mpr (by simpa using hd)
  have hn : ((dh.floor.toNat : Nat) : Rat) = (dh.floor : Rat) := by
    have : ((dh.floor.toNat : Nat) : Int) = dh.floor := Int.toNat_of_nonneg hfl
    exact_mod_cast this
  obtain ⟨hsorted, htot, _⟩ := sumShifts_spec s hs dh.floor.toNat
  have hrest_nonneg : 0 ≤ dh - (dh.floor.toNat : Rat) := by rw [hn]; linarith [Rat.floor_le dh]
  unfold avgOccSeries
  simp only
  split
  · split
    · rename_i h0
      rw [Series.total_scale, Series.total_shift]
      rw [h0]; simp
    · rw [Series.total_add _ _ hsorted (Series.sorted_scale _ _ (Series.sorted_shift _ _ hs)).nodup, htot,
          Series.total_scale, Series.total_shift]
      ring
  · rename_i hr
    have : dh - (dh.floor.toNat : Rat) = 0 := le_antisymm (not_lt.mp hr) hrest_nonneg
    rw [htot]
    have : (dh.floor.toNat : Rat) = dh := by linarith
    rw [this]

/-- nothing is placed before the first start or more than `⌊dh⌋` hours after a start:
at every hour the averaged series is the full-hour window plus the fractional last hour -/
theorem avg_occurrences_placement (s : Series) (hs : Series.Sorted s) (dh : Rat) (hd : 0 ≤ dh) (t : Int) :
    Series.get (avgOccSeries s dh) t =
      ((List.range dh.floor.toNat).map (fun (k : Nat) => Series.get s (t - 3600 * (k : Int)))).sum
      + (dh - (dh.floor.toNat : Rat)) * Series.get s (t - 3600 * (dh.floor.toNat : Int)) := by
  have hfl : (0 : Int) ≤ dh.floor := Rat.le_floor_iff.mpr (by simpa using hd)
  have hn : ((dh.floor.toNat : Nat) : Rat) = (dh.floor : Rat) := by
    have : ((dh.floor.toNat : Nat) : Int) = dh.floor := Int.toNat_of_nonneg hfl
    exact_mod_cast this
  obtain ⟨_, _, hget⟩ := sumShifts_spec s hs dh.floor.toNat
  have hrest_nonneg : 0 ≤ dh - (dh.floor.toNat : Rat) := by rw [hn]; linarith [Rat.floor_le dh]
  unfold avgOccSeries
  simp only
  split
  · split
    · rename_i h0
      rw [Series.get_scale, Series.get_shift, h0]; simp
    · rw [Series.get_add, hget t, Series.get_scale, Series.get_shift]
  · rename_i hr
    have : dh - (dh.floor.toNat : Rat) = 0 := le_antisymm (not_lt.mp hr) hrest_nonneg
    rw [hget t, this]; simp

/-! ## non-vacuity -/

example : Series.Sorted [(0, 3), (3600, 0), (10800, 5)] := by decide
example : occFold (.h ⟨[(0, 3), (3600, 1)], U.dimless⟩) [0, 2] =
    .ok (.h ⟨[(0, 3), (3600, 1), (7200, 3), (10800, 1)], U.dimless⟩) := by decide +kernel
example : Series.total (avgOccSeries [(0, 3), (3600, 1)] (5/2)) = 5/2 * 4 := by decide +kernel

end Efp.Props.C03

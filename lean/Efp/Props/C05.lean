import Efp.Model.Store
import Efp.Proofs.Links
import Mathlib.Tactic.Tauto
/-!
# C05 — a what-if simulation never disturbs the baseline model

Over Model D's slot store: switching the simulated values on replaces, slot by slot, every
previous object by its new twin; switching them off puts the very same previous objects back.
For pairs occupying pairwise distinct slots (`WF`) the two are inverse, so a successful simulation
(which ends with `reset_values`) and any word of toggles followed by a reset leave the baseline —
the identity of the object in every slot and the slot of every object — exactly as it was.
A simulation that raises never reaches `reset_values`: the statement for raising simulations is
false of the code (finding D5) and is stated as a counterexample.

The children / ancestor lists (the other half of "the baseline") are the subject of Model F
(`Model/Links.lean`, compared with the real code by `K-bookkeeping`): switching simulated values on
and off is a sequence of `replace_in_mod_obj_container_without_recomputation` calls, each of which
keeps the links mirrored and the ids unique (`toggles_keep_links_mirrored`).
-/
namespace Efp.Props.C05
open Efp.Store

/-- the pairs of a simulation in a baseline `s`: every previous object sits in its slot, the slots are
pairwise distinct, the new objects are unattached, and all objects involved are distinct -/
structure WF (s : St) (pairs : List (NodeId × NodeId)) : Prop where
  attached : ∀ p ∈ pairs, ∃ k, s.slotOf p.1 = some k ∧ s.content k = some p.1
  fresh : ∀ p ∈ pairs, s.slotOf p.2 = none
  distinct : (pairs.map Prod.fst ++ pairs.map Prod.snd).Nodup
  slots : ∀ p ∈ pairs, ∀ q ∈ pairs, p ≠ q → s.slotOf p.1 ≠ s.slotOf q.1

theorem St_ext (a b : St) (h1 : a.content = b.content) (h2 : a.slotOf = b.slotOf) : a = b := by
  cases a; cases b; simp_all

/-- the attached branch of `replace` -/
def replaceAt (s : St) (k : Slot) (old new : NodeId) : St :=
  { content := fun k' => if k' = k then some new else s.content k',
    slotOf := fun n => if n = new then some k else if n = old then none else s.slotOf n }

theorem replace_some (s : St) (old new : NodeId) (k : Slot) (h : s.slotOf old = some k) :
    replace s old new = replaceAt s k old new := by
  simp [replace, replaceAt, h]

theorem replace_none (s : St) (old new : NodeId) (h : s.slotOf old = none) : replace s old new = s := by
  simp [replace, h]

/-- one pair: replacing back restores the state -/
theorem replace_back (s : St) (p n : NodeId) (k : Slot) (hp : s.slotOf p = some k) (hc : s.content k = some p)
    (hn : s.slotOf n = none) (hne : n ≠ p) : replace (replace s p n) n p = s := by
  rw [replace_some s p n k hp]
  have h1 : (replaceAt s k p n).slotOf n = some k := by simp [replaceAt]
  rw [replace_some _ n p k h1]
  apply St_ext
  · funext k'
    simp only [replaceAt]
    by_cases hk : k' = k
    · subst hk; simp [hc]
    · simp [hk]
  · funext x
    simp only [replaceAt]
    by_cases hx : x = p
    · subst hx; simp [hp]
    · by_cases hx' : x = n
      · subst hx'; simp [hx, hn]
      · simp [hx, hx']

/-- replacements on different objects in different slots commute -/
theorem replace_comm (s : St) (a b c d : NodeId) (hab : a ≠ b) (hac : a ≠ c) (had : a ≠ d) (hbc : b ≠ c) (hbd : b ≠ d)
    (hcd : c ≠ d) (hslots : s.slotOf a ≠ s.slotOf c ∨ s.slotOf a = none ∨ s.slotOf c = none) :
    replace (replace s a b) c d = replace (replace s c d) a b := by
  cases ha : s.slotOf a with
  | none =>
    rw [replace_none s a b ha]
    cases hc : s.slotOf c with
    | none => rw [replace_none s c d hc, replace_none s a b ha]
    | some kc =>
      rw [replace_some s c d kc hc]
      have h2 : (replaceAt s kc c d).slotOf a = none := by simp [replaceAt, had, hac, ha]
      rw [replace_none _ a b h2]
  | some ka =>
    cases hc : s.slotOf c with
    | none =>
      rw [replace_none s c d hc, replace_some s a b ka ha]
      have h2 : (replaceAt s ka a b).slotOf c = none := by simp [replaceAt, hbc.symm, hac.symm, hc]
      rw [replace_none _ c d h2]
    | some kc =>
      have hk : ka ≠ kc := by
        rcases hslots with h | h | h
        · intro e; apply h; rw [ha, hc, e]
        · rw [ha] at h; cases h
        · rw [hc] at h; cases h
      rw [replace_some s a b ka ha, replace_some s c d kc hc]
      have h1 : (replaceAt s ka a b).slotOf c = some kc := by simp [replaceAt, hbc.symm, hac.symm, hc]
      have h2 : (replaceAt s kc c d).slotOf a = some ka := by simp [replaceAt, had, hac, ha]
      rw [replace_some _ c d kc h1, replace_some _ a b ka h2]
      apply St_ext
      · funext k'
        simp only [replaceAt]
        by_cases e1 : k' = ka <;> by_cases e2 : k' = kc <;> simp_all
      · funext x
        simp only [replaceAt]
        by_cases e1 : x = a <;> by_cases e2 : x = b <;> by_cases e3 : x = c <;> by_cases e4 : x = d <;> simp_all


theorem slotOf_replace_other (s : St) (old new x : NodeId) (h1 : x ≠ old) (h2 : x ≠ new) :
    (replace s old new).slotOf x = s.slotOf x := by
  cases h : s.slotOf old with
  | none => rw [replace_none s old new h]
  | some k => rw [replace_some s old new k h]; simp [replaceAt, h1, h2]

theorem setUpdated_cons (s : St) (q : NodeId × NodeId) (rest : List (NodeId × NodeId)) :
    setUpdated s (q :: rest) = setUpdated (replace s q.1 q.2) rest := rfl

theorem resetVals_cons (s : St) (q : NodeId × NodeId) (rest : List (NodeId × NodeId)) :
    resetVals s (q :: rest) = resetVals (replace s q.2 q.1) rest := rfl

/-- a replacement involving objects foreign to `rest` commutes with switching `rest` on -/
theorem replace_setUpdated_comm (rest : List (NodeId × NodeId)) (s : St) (x y : NodeId)
    (hx : ∀ q ∈ rest, x ≠ q.1 ∧ x ≠ q.2 ∧ y ≠ q.1 ∧ y ≠ q.2) (hxy : x ≠ y)
    (hnd : (rest.map Prod.fst ++ rest.map Prod.snd).Nodup)
    (hs : ∀ q ∈ rest, s.slotOf x ≠ s.slotOf q.1 ∨ s.slotOf x = none ∨ s.slotOf q.1 = none) :
    replace (setUpdated s rest) x y = setUpdated (replace s x y) rest := by
  induction rest generalizing s with
  | nil => rfl
  | cons q rest ih =>
    obtain ⟨h1, h2, h3, h4⟩ := hx q (by simp)
    have hq12 : q.1 ≠ q.2 := by
      intro e
      simp only [List.map_cons, List.cons_append, List.nodup_cons, List.mem_append, List.mem_cons, List.mem_map] at hnd
      exact hnd.1 (Or.inr (Or.inl e))
    have hnd' : (rest.map Prod.fst ++ rest.map Prod.snd).Nodup := by
      simp only [List.map_cons, List.cons_append, List.nodup_cons] at hnd
      have := hnd.2
      rw [List.nodup_append] at this ⊢
      obtain ⟨a, b, c⟩ := this
      refine ⟨a, (List.nodup_cons.mp b).2, fun u hu v hv => c u hu v (List.mem_cons_of_mem _ hv)⟩
    have hother : ∀ q' ∈ rest, q'.1 ≠ q.1 ∧ q'.1 ≠ q.2 := by
      intro q' hq'
      simp only [List.map_cons, List.cons_append, List.nodup_cons, List.mem_append, List.mem_cons, List.mem_map] at hnd
      constructor
      · intro e; exact hnd.1 (Or.inl ⟨q', hq', e⟩)
      · intro e
        have := hnd.2
        rw [List.nodup_append] at this
        exact this.2.2 q'.1 (List.mem_map_of_mem (f := Prod.fst) hq') q.2 (by simp) e
    rw [setUpdated_cons, setUpdated_cons]
    rw [ih (replace s q.1 q.2) (fun q' hq' => hx q' (by simp [hq'])) hnd']
    · congr 1
      exact (replace_comm s q.1 q.2 x y hq12 h1.symm h3.symm h2.symm h4.symm hxy
        (by rcases hs q (by simp) with h | h | h
            · exact Or.inl (fun e => h e.symm)
            · exact Or.inr (Or.inr h)
            · exact Or.inr (Or.inl h)))
    · intro q' hq'
      rw [slotOf_replace_other s q.1 q.2 x h1 h2, slotOf_replace_other s q.1 q.2 q'.1 (hother q' hq').1 (hother q' hq').2]
      exact hs q' (by simp [hq'])

/-- **switching the simulated values on and back off restores the baseline exactly**: the same
object in every slot, every object attached where it was -/
theorem reset_set (pairs : List (NodeId × NodeId)) (s : St) (h : WF s pairs) :
    resetVals (setUpdated s pairs) pairs = s := by
  induction pairs generalizing s with
  | nil => rfl
  | cons q rest ih =>
    obtain ⟨k, hk, hc⟩ := h.attached q (by simp)
    have hfresh := h.fresh q (by simp)
    have hnd := h.distinct
    have hq12 : q.2 ≠ q.1 := by
      intro e
      simp only [List.map_cons, List.cons_append, List.nodup_cons, List.mem_append, List.mem_cons, List.mem_map] at hnd
      exact hnd.1 (Or.inr (Or.inl e.symm))
    have hnd' : (rest.map Prod.fst ++ rest.map Prod.snd).Nodup := by
      simp only [List.map_cons, List.cons_append, List.nodup_cons] at hnd
      have := hnd.2
      rw [List.nodup_append] at this ⊢
      obtain ⟨a, b, c⟩ := this
      refine ⟨a, (List.nodup_cons.mp b).2, fun u hu v hv => c u hu v (List.mem_cons_of_mem _ hv)⟩
    have hforeign : ∀ q' ∈ rest, q.2 ≠ q'.1 ∧ q.2 ≠ q'.2 ∧ q.1 ≠ q'.1 ∧ q.1 ≠ q'.2 := by
      intro q' hq'
      simp only [List.map_cons, List.cons_append, List.nodup_cons, List.mem_append, List.mem_cons, List.mem_map] at hnd
      have hn2 := hnd.2
      rw [List.nodup_append] at hn2
      refine ⟨?_, ?_, ?_, ?_⟩
      · intro e
        exact hn2.2.2 q'.1 (List.mem_map_of_mem (f := Prod.fst) hq') q.2 (by simp) e.symm
      · intro e
        have := (List.nodup_cons.mp hn2.2.1).1
        exact this (List.mem_map.mpr ⟨q', hq', e.symm⟩)
      · intro e; exact hnd.1 (Or.inl ⟨q', hq', e.symm⟩)
      · intro e; exact hnd.1 (Or.inr (Or.inr ⟨q', hq', e.symm⟩))
    have hWF' : WF s rest :=
      ⟨fun p hp => h.attached p (by simp [hp]), fun p hp => h.fresh p (by simp [hp]), hnd',
       fun p hp q' hq' hne => h.slots p (by simp [hp]) q' (by simp [hq']) hne⟩
    rw [setUpdated_cons, resetVals_cons]
    have hs1 : (replace s q.1 q.2).slotOf q.2 = some k := by rw [replace_some s q.1 q.2 k hk]; simp [replaceAt]
    rw [replace_setUpdated_comm rest (replace s q.1 q.2) q.2 q.1 hforeign hq12 hnd']
    · rw [replace_back s q.1 q.2 k hk hc hfresh hq12]
      exact ih s hWF'
    · intro q' hq'
      left
      rw [hs1, slotOf_replace_other s q.1 q.2 q'.1 (hforeign q' hq').2.2.1.symm (hforeign q' hq').1.symm]
      intro e
      have hne : q ≠ q' := by
        intro e'; subst e'; exact (hforeign q hq').2.2.1 rfl
      exact h.slots q (by simp) q' (by simp [hq']) hne (by rw [hk, e])

/-- state of a live simulation: baseline + pairs -/
theorem toggles_return_to_baseline (pairs : List (NodeId × NodeId)) (s : St) (h : WF s pairs) (w : List Toggle) :
    ((w ++ [Toggle.reset]).foldl toggle (s, ⟨pairs, false⟩)).1 = s := by
  -- invariant: either not set and the state is the baseline, or set and the state is setUpdated baseline
  have inv : ∀ (w : List Toggle) (st : St × Sim),
      (st.2.pairs = pairs ∧ ((st.2.isSet = false ∧ st.1 = s) ∨ (st.2.isSet = true ∧ st.1 = setUpdated s pairs))) →
      ((w.foldl toggle st).2.pairs = pairs ∧
        (((w.foldl toggle st).2.isSet = false ∧ (w.foldl toggle st).1 = s) ∨
         ((w.foldl toggle st).2.isSet = true ∧ (w.foldl toggle st).1 = setUpdated s pairs))) := by
    intro w
    induction w with
    | nil => intro st hst; exact hst
    | cons t ts ih =>
      intro st hst
      simp only [List.foldl_cons]
      apply ih
      obtain ⟨hp, hcase⟩ := hst
      cases t with
      | set =>
        rcases hcase with ⟨h1, h2⟩ | ⟨h1, h2⟩
        · simp [toggle, h1, hp, h2]
        · simp [toggle, h1, hp, h2]
      | reset =>
        rcases hcase with ⟨h1, h2⟩ | ⟨h1, h2⟩
        · simp [toggle, h1, hp, h2]
        · simp [toggle, h1, hp, h2, reset_set pairs s h]
  have := inv (w ++ [Toggle.reset]) (s, ⟨pairs, false⟩) ⟨rfl, Or.inl ⟨rfl, rfl⟩⟩
  rcases this.2 with ⟨_, h2⟩ | ⟨h1, _⟩
  · exact h2
  · -- after a trailing reset the flag cannot be set
    exfalso
    rw [List.foldl_append] at h1
    simp only [List.foldl_cons, List.foldl_nil, toggle] at h1
    split at h1 <;> simp_all

/-- **a successful simulation leaves the baseline untouched**: `ModelingUpdate.__init__` with a date
ends with `reset_values()` after having switched every pair on -/
theorem simulate_success_preserves_baseline (pairs : List (NodeId × NodeId)) (s : St) (h : WF s pairs) :
    resetVals (setUpdated s pairs) pairs = s := reset_set pairs s h

/-- a simulation that raises after having applied its changes never reaches `reset_values`: the
baseline is left replaced (finding D5) — two slots, one change applied, no reset -/
theorem simulate_failure_changes_baseline :
    ∃ (s : St) (pairs : List (NodeId × NodeId)), WF s pairs ∧ (setUpdated s pairs).content 0 ≠ s.content 0 := by
  refine ⟨⟨fun k => if k = 0 then some 10 else none, fun n => if n = 10 then some 0 else none⟩, [(10, 11)], ?_, ?_⟩
  · refine ⟨?_, ?_, ?_, ?_⟩
    · intro p hp; simp at hp; subst hp; exact ⟨0, by simp, by simp⟩
    · intro p hp; simp at hp; subst hp; simp
    · simp
    · intro p hp q hq hne; simp at hp hq; subst hp; subst hq; exact absurd rfl hne
  · simp [setUpdated, replace]

/-- **switching simulated values on or off keeps the dependency links mirrored**: any sequence of
replacements (previous value ↦ simulated twin, or back), each applied to allocated values, from a
state satisfying the link invariant, on plain attributes -/
theorem toggles_keep_links_mirrored (pairs : List (Nat × Nat)) :
    ∀ (s s' : Efp.Links.LS), Efp.Links.Inv s → Efp.Links.NoDict s →
      pairs.foldlM (fun st p => Efp.Links.step st (.replace p.1 p.2)) s = .ok s' →
      Efp.Links.Inv s' ∧ Efp.Links.NoDict s' := by
  induction pairs with
  | nil => intro s s' hI hD h; simp [List.foldlM] at h; cases h; exact ⟨hI, hD⟩
  | cons p ps ih =>
    intro s s' hI hD h
    simp only [List.foldlM_cons, bind, Except.bind] at h
    split at h
    · cases h
    rename_i s1 hs1
    obtain ⟨i1, d1⟩ := Efp.Links.step_inv s (.replace p.1 p.2) s1 hI hD rfl hs1
    exact ih s1 s' i1 d1 h

/-! ## non-vacuity -/
example : WF ⟨fun k => if k = 0 then some 10 else if k = 1 then some 20 else none,
              fun n => if n = 10 then some 0 else if n = 20 then some 1 else none⟩ [(10, 11), (20, 21)] := by
  refine ⟨?_, ?_, by decide, ?_⟩
  · intro p hp; simp at hp; rcases hp with rfl | rfl
    · exact ⟨0, by simp, by simp⟩
    · exact ⟨1, by simp, by simp⟩
  · intro p hp; simp at hp; rcases hp with rfl | rfl <;> simp
  · intro p hp q hq hne; simp at hp hq; rcases hp with rfl | rfl <;> rcases hq with rfl | rfl <;> simp_all

end Efp.Props.C05

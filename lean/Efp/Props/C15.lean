import Efp.Theory.Checker
import Efp.Model.Links
/-!
# C15 — a failed recomputation can always be recovered from

In the abstract theory: an accepted edit whose recomputation raises at position `i` of its chain
leaves the state `run S σ₁ (chain.take i)` — inputs new, a prefix recomputed, the rest untouched
(`failed_state`).  Whatever that prefix was, re-assigning the previous input values and running the
*whole* chain again restores exactly the state before the failed edit (`revert_restores_values`):
the only requirement is that the state agrees with the old consistent state outside the chain, which
every failure position (and every number of failed attempts on the same inputs) satisfies
(`no_unrecoverable_state`).

This is about *values*.  The code additionally keeps per-value children lists from which later
chains are derived; after a failure the values recomputed before the failure have lost theirs, so
"edits after that behave as on a freshly built system" is false of the code (finding D10, replayed by
the oracle at every raising rule and at injected crash points).  The link-bookkeeping model (Model F,
`Model/Links.lean`, compared with the real code by `K-bookkeeping`) exhibits the mechanism:
`failed_update_then_revert_loses_children` below.
-/
namespace Efp.Props.C15
open Efp.Theory

variable {N V : Type} [DecidableEq N]

/-- the state left by an edit whose recomputation raised at position `i` -/
def failedState (S : RuleSys N V) (σ₁ : N → V) (chain : List N) (i : Nat) : N → V := run S σ₁ (chain.take i)

/-- outside the chain a failed edit changes nothing but the edited inputs -/
theorem failed_state_outside_chain (S : RuleSys N V) (σ₁ : N → V) (chain : List N) (i : Nat) (n : N) (h : n ∉ chain) :
    failedState S σ₁ chain i n = σ₁ n := by
  unfold failedState
  exact run_not_mem S _ σ₁ n (fun hm => h (List.mem_of_mem_take hm))

/-- **re-assigning the previous value restores exactly the values that existed before the failed edit** -/
theorem revert_restores_values (S : RuleSys N V) (rk : N → Nat)
    (wf : ∀ n, S.isCalc n = true → ∀ m ∈ S.reads n, rk m < rk n)
    (σ₀ σ : N → V) (chain : List N)
    (h0 : Consistent S σ₀)
    (hagree : ∀ n, n ∉ chain → σ n = σ₀ n)                 -- inputs are back, nothing outside the chain was touched
    (hcalc : ∀ n ∈ chain, S.isCalc n = true)
    (nodup : chain.Nodup)
    (closed : ∀ n, S.isCalc n = true → n ∉ chain → ∀ m ∈ S.reads n, m ∉ chain)
    (ordered : ∀ l₁ n l₂, chain = l₁ ++ n :: l₂ → ∀ m ∈ S.reads n, m ∉ l₂ ∧ m ≠ n) :
    run S σ chain = σ₀ := by
  have hcons : Consistent S (run S σ chain) := by
    intro n hn
    by_cases hc : n ∈ chain
    · exact run_consistent_aux S chain nodup σ ordered n hc
    · rw [run_not_mem S chain σ n hc, hagree n hc, h0 n hn]
      apply S.rule_local
      intro m hm
      have := closed n hn hc m hm
      rw [run_not_mem S chain σ m this, hagree m this]
  funext n
  apply consistent_unique S rk wf _ σ₀ hcons h0
  intro m hm
  have : m ∉ chain := fun hc => by rw [hcalc m hc] at hm; cases hm
  rw [run_not_mem S chain σ m this, hagree m this]

/-- **no failure position leaves an unrecoverable state**: after a failure at any position `i`
(and then any further failed attempts that only touch the same chain), putting the old inputs back
and recomputing restores the old state -/
theorem no_unrecoverable_state (S : RuleSys N V) (rk : N → Nat)
    (wf : ∀ n, S.isCalc n = true → ∀ m ∈ S.reads n, rk m < rk n)
    (σ₀ σ₁ : N → V) (J chain : List N) (i : Nat)
    (h0 : Consistent S σ₀)
    (hin : ∀ n, n ∉ J → σ₁ n = σ₀ n)                        -- the failed edit changed the inputs J only
    (hJ : ∀ j ∈ J, j ∉ chain)
    (hcalc : ∀ n ∈ chain, S.isCalc n = true)
    (nodup : chain.Nodup)
    (closed : ∀ n, S.isCalc n = true → n ∉ chain → ∀ m ∈ S.reads n, m ∉ chain)
    (ordered : ∀ l₁ n l₂, chain = l₁ ++ n :: l₂ → ∀ m ∈ S.reads n, m ∉ l₂ ∧ m ≠ n) :
    run S (fun n => if n ∈ J then σ₀ n else failedState S σ₁ chain i n) chain = σ₀ := by
  apply revert_restores_values S rk wf σ₀ _ chain h0 _ hcalc nodup closed ordered
  intro n hn
  by_cases hj : n ∈ J
  · simp [hj]
  · simp only [hj, if_false]
    rw [failed_state_outside_chain S σ₁ chain i n hn, hin n hj]

/-! ## non-vacuity: input 0 → 1 → 2, failure after recomputing node 1 -/
def demo : RuleSys Nat Nat where
  isCalc := fun n => n == 1 || n == 2
  reads := fun n => if n = 1 then [0] else if n = 2 then [1] else []
  rule := fun n σ => if n = 1 then σ 0 + 1 else if n = 2 then σ 1 * 2 else 0
  rule_local := by
    intro n σ σ' h
    by_cases h1 : n = 1
    · subst h1; simp [h 0 (by simp)]
    · by_cases h2 : n = 2
      · subst h2; simp [h 1 (by simp)]
      · simp [h1, h2]

example : Consistent demo (fun n => if n = 0 then 5 else if n = 1 then 6 else if n = 2 then 12 else 0) := by
  intro n hn
  simp only [demo, Bool.or_eq_true, beq_iff_eq] at hn
  rcases hn with rfl | rfl <;> simp [demo]

/-! ## D10 in the link-bookkeeping model

input 0 in slot (0,0); 1 in slot (0,1) computed from 0; 2 in slot (0,2) computed from 1.
A failing edit: 0 is replaced by 3, then 1 is recomputed (value 4, computed from 3) and the
recomputation of 2 raises.  Recovery: the previous input 0 is put back in place of 3. -/
def d10Ops : List Efp.Links.Op :=
  [.mk [], .setAttr (0, 0) 0, .mk [0], .setAttr (0, 1) 1, .mk [1], .setAttr (0, 2) 2,   -- the model
   .mk [], .replace 0 3,                                                                -- the edit …
   .mk [3], .setAttr (0, 1) 4,                                                          -- … first recomputation, then the failure
   .replace 3 0]                                                                        -- recovery: previous value re-assigned

/-- after the failure and the recovery the links are still mirrored, **but** the re-assigned input
has lost its children (so a later edit of it derives an empty update order and recomputes nothing),
and the value recomputed before the failure still records the discarded input as its ancestor -/
theorem failed_update_then_revert_loses_children :
    (match Efp.Links.run d10Ops with
     | .ok s => (Efp.Links.mirrorOk s, (s.get 0).chi, (s.get 4).anc, Efp.Links.liveOk s)
     | .error _ => (false, [], [], true)) = (true, [], [3], false) := by decide +kernel

/-- while re-running the whole chain after the recovery (what the theorem `revert_restores_values`
describes for values) would also restore the links -/
example :
    (match Efp.Links.run (d10Ops ++ [.mk [0], .setAttr (0, 1) 5, .mk [5], .setAttr (0, 2) 6]) with
     | .ok s => (Efp.Links.mirrorOk s, (s.get 0).chi, Efp.Links.liveOk s)
     | .error _ => (false, [], false)) = (true, [5], true) := by decide +kernel

end Efp.Props.C15

import Efp.Proofs.Val
import Efp.Props.C09
import Efp.Props.C03
/-!
# C12 — footprints respond to each driver in the documented proportion

Every footprint rule of Model B is a product/quotient chain ending in `.to(unit)`:
`energy_footprint = (energy × intensity).to(kg)`, `energy = (power × PUE × 1h × count).to(kWh)`,
`fabrication = (footprint × count × 1h / lifespan).to(kg)`, network `= (intensity × data).to(kWh) × country intensity`,
devices `= (journeys in parallel × Σ power × 1h).to(kWh)`.  The theorems: multiplying one scalar
factor of such a chain by `k` multiplies the result by `k` (dividing by `k` for a divisor) at every
hour, and multiplying all traffic by `k` multiplies every load-proportional series by `k`.
-/
namespace Efp.Props.C12
open Efp

/-- a quantity multiplied by `k` (the driver after the change) -/
def scaleQty (k : Rat) (q : Qty) : Qty := ⟨k * q.mag, q.unit⟩

theorem phys_scaleQty (k : Rat) (q : Qty) : (scaleQty k q).phys = k * q.phys := by
  simp only [scaleQty, Qty.phys]; ring

/-- scalar chains: a factor × k gives product × k -/
theorem mul_scales_left (k : Rat) (a b : Qty) : ((scaleQty k a).mul b).phys = k * (a.mul b).phys := by
  rw [C09.phys_mul, C09.phys_mul, phys_scaleQty]; ring

theorem mul_scales_right (k : Rat) (a b : Qty) : (a.mul (scaleQty k b)).phys = k * (a.mul b).phys := by
  rw [C09.phys_mul, C09.phys_mul, phys_scaleQty]; ring

/-- a divisor × k gives quotient / k (lifespan, fraction of usage time) -/
theorem div_scales_inverse (k : Rat) (hk : k ≠ 0) (a b c c' : Qty) (hs : b.unit.scale ≠ 0)
    (h : a.div b = .ok c) (h' : a.div (scaleQty k b) = .ok c') : c'.phys = c.phys / k := by
  have e := (C09.phys_div a b c hs h).1
  have e' := (C09.phys_div a (scaleQty k b) c' hs h').1
  rw [e', e, phys_scaleQty]
  have hb : b.mag ≠ 0 := by
    intro h0; simp [Qty.div, h0] at h
  have : b.phys ≠ 0 := mul_ne_zero hb hs
  field_simp

/-- **hourly × driver**: multiplying the scalar driver by `k` multiplies the series by `k` at every
hour (PUE, carbon intensity, bandwidth energy intensity, device power, unit fabrication footprint) -/
theorem hourly_times_driver_scales (k : Rat) (x z z' : HQ) (q : Qty)
    (h : Val.mul (.h x) (.q q) = .ok (.h z)) (h' : Val.mul (.h x) (.q (scaleQty k q)) = .ok (.h z')) (t : Int) :
    z'.phys t = k * z.phys t := by
  rw [C09.hourly_mul_scalar (scaleQty k q) x z' h' t, C09.hourly_mul_scalar q x z h t, phys_scaleQty]; ring

/-- `.to(unit)` keeps the proportion -/
theorem to_keeps_proportion (k : Rat) (z z' w w' : HQ) (u : Efp.Unit) (hu : u.scale ≠ 0)
    (hz : ∀ t, z'.phys t = k * z.phys t) (h : z.to u = .ok w) (h' : z'.to u = .ok w') (t : Int) :
    w'.phys t = k * w.phys t := by
  rw [C09.hourly_to_phys z' w' u hu h' t, C09.hourly_to_phys z w u hu h t, hz t]

/-- **server / storage energy footprint scales with the carbon intensity** (and, identically, with
PUE inside the energy): `(energy × (k·ci)).to(kg) = k · (energy × ci).to(kg)` at every hour -/
theorem energy_footprint_scales_with_intensity (k : Rat) (energy fp fp' fpkg fpkg' : HQ) (ci : Qty)
    (h : Val.mul (.h energy) (.q ci) = .ok (.h fp)) (hk : fp.to U.kg = .ok fpkg)
    (h' : Val.mul (.h energy) (.q (scaleQty k ci)) = .ok (.h fp')) (hk' : fp'.to U.kg = .ok fpkg') (t : Int) :
    fpkg'.phys t = k * fpkg.phys t :=
  to_keeps_proportion k fp fp' fpkg fpkg' U.kg (by decide)
    (hourly_times_driver_scales k energy fp fp' ci h h') hk hk' t

/-! ### all traffic × k -/

/-- the series with every value multiplied by `k` -/
theorem shift_scale_comm (k : Rat) (d : Int) (s : Series) :
    Series.shift d (Series.scale k s) = Series.scale k (Series.shift d s) := by
  simp [Series.shift, Series.scale, Series.mapVals, List.map_map, Function.comp_def]

theorem sum_scale {α : Type} (k : Rat) (l : List α) (f : α → Rat) (c : Rat) :
    (l.map (fun d => k * f d * c)).sum = k * (l.map (fun d => f d * c)).sum := by
  induction l with
  | nil => simp
  | cons a l ih => simp only [List.map_cons, List.sum_cons, ih]; ring

/-- **job occurrences are proportional to traffic**: with all journey starts × k, the occurrences
of every job are × k at every hour (same delays) -/
theorem occurrences_scale_with_traffic (k : Rat) (utc : HQ) (hs : Series.Sorted utc.vals)
    (hu : utc.unit.scale ≠ 0) (ds : List Int) :
    ∃ v v', occFold (.h utc) ds = .ok v ∧ occFold (.h ⟨Series.scale k utc.vals, utc.unit⟩) ds = .ok v' ∧
      ∀ t, v'.physAt t = k * v.physAt t := by
  obtain ⟨v, h, hp, _⟩ := C03.occurrences_conserved utc hs hu ds
  obtain ⟨v', h', hp', _⟩ := C03.occurrences_conserved ⟨Series.scale k utc.vals, utc.unit⟩
    (Series.sorted_scale k _ hs) hu ds
  refine ⟨v, v', h, h', ?_⟩
  intro t
  rw [hp t, hp' t]
  simp only [HQ.phys, Series.get_scale]
  exact sum_scale k ds (fun d => Series.get utc.vals (t - 3600 * d)) utc.unit.scale

/-- **occurrence-hours, journeys in parallel (hence device energy) are proportional to traffic** -/
theorem avg_occurrences_scale_with_traffic (k : Rat) (s : Series) (hs : Series.Sorted s) (dh : Rat) (hd : 0 ≤ dh) (t : Int) :
    Series.get (avgOccSeries (Series.scale k s) dh) t = k * Series.get (avgOccSeries s dh) t := by
  rw [C03.avg_occurrences_placement _ (Series.sorted_scale k s hs) dh hd t,
      C03.avg_occurrences_placement s hs dh hd t]
  simp only [Series.get_scale]
  have : ∀ l : List Nat, (l.map (fun (i : Nat) => k * Series.get s (t - 3600 * (i : Int)))).sum
      = k * (l.map (fun (i : Nat) => Series.get s (t - 3600 * (i : Int)))).sum := by
    intro l
    induction l with
    | nil => simp
    | cons a l ih => simp only [List.map_cons, List.sum_cons, ih]; ring
  rw [this]; ring

/-! ## one device among several: the pattern's footprint moves by exactly that device's share -/

/-- physical value of a scalar (0 for anything else) -/
def scalarPhys : Val → Rat
  | .q x => x.phys
  | _ => 0

/-- the per-device terms (all converted to one unit by the rule: `.to(u.g)`, `.to(u.W)`) are summed
term by term: nothing is lost, nothing counted twice — whatever the devices are called -/
theorem sum_of_device_terms (u : Efp.Unit) (hu : u.scale ≠ 0) (terms : List Qty) (hterms : ∀ q ∈ terms, q.unit = u)
    (acc : Qty) (hacc : acc.unit = u) :
    ∃ r : Qty, sumVals (.q acc) (terms.map Val.q) = .ok (.q r) ∧ r.unit = u ∧
      r.phys = acc.phys + (terms.map Qty.phys).sum := by
  induction terms generalizing acc with
  | nil => exact ⟨acc, rfl, hacc, by simp⟩
  | cons x xs ih =>
    have hx : x.unit = u := hterms x (by simp)
    have hadd : acc.add x = .ok ⟨acc.mag + x.phys / acc.unit.scale, acc.unit⟩ := by
      simp [Qty.add, hacc, hx]
    obtain ⟨r, h2, hr, hp⟩ := ih (fun q hq => hterms q (by simp [hq])) ⟨acc.mag + x.phys / acc.unit.scale, acc.unit⟩ hacc
    refine ⟨r, ?_, hr, ?_⟩
    · simp only [sumVals, List.map_cons, List.foldlM_cons, bind, Except.bind, Val.add, hadd, pure, Except.pure] at h2 ⊢
      exact h2
    · rw [hp]
      simp only [List.map_cons, List.sum_cons, Qty.phys]
      have hs : acc.unit.scale ≠ 0 := by rw [hacc]; exact hu
      field_simp
      ring

/-- **multiplying one device's term by `k` moves the sum over the devices by `(k − 1)` times that term**
(the shadowing of seed C12-e — terms keyed by device name — would make the move 0) -/
theorem device_share (u : Efp.Unit) (hu : u.scale ≠ 0) (before after : List Qty) (t : Qty) (k : Rat)
    (hb : ∀ q ∈ before ++ t :: after, q.unit = u) (acc : Qty) (hacc : acc.unit = u) :
    ∃ r r' : Qty,
      sumVals (.q acc) ((before ++ t :: after).map Val.q) = .ok (.q r) ∧
      sumVals (.q acc) ((before ++ scaleQty k t :: after).map Val.q) = .ok (.q r') ∧
      r'.phys = r.phys + (k - 1) * t.phys := by
  have hb' : ∀ q ∈ before ++ scaleQty k t :: after, q.unit = u := by
    intro q hq
    rcases List.mem_append.mp hq with h | h
    · exact hb q (List.mem_append_left _ h)
    · rcases List.mem_cons.mp h with rfl | h
      · exact hb t (by simp)
      · exact hb q (List.mem_append_right _ (List.mem_cons_of_mem _ h))
  obtain ⟨r, h1, _, hp⟩ := sum_of_device_terms u hu _ hb acc hacc
  obtain ⟨r', h1', _, hp'⟩ := sum_of_device_terms u hu _ hb' acc hacc
  refine ⟨r, r', h1, h1', ?_⟩
  rw [hp, hp']
  simp only [List.map_append, List.map_cons, List.sum_append, List.sum_cons, phys_scaleQty]
  ring

/-- the autoscaling / on-premise instance counts are **not** proportional (ceiling): witness -/
theorem ceil_not_proportional : Series.ceil (Series.scale 3 [(0, 1/2)]) ≠ Series.scale 3 (Series.ceil [(0, 1/2)]) := by
  decide +kernel

example : (scaleQty 2 ⟨3, U.kg⟩).phys = 2 * (Qty.mk 3 U.kg).phys := phys_scaleQty _ _

end Efp.Props.C12

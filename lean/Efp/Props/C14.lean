import Efp.Model.Validate
/-!
# C14 — invalid inputs are rejected, and a rejected edit changes nothing

Over the parameter table regenerated from `/repo` on every run (`Generated.params`), for **every**
quantity-valued parameter of every public class: a wrong dimension, a negative value (unless the
class declares the attribute may be negative), and a value of the wrong type are refused *by the
parse phase*, i.e. before `ModelingUpdate` mutates anything; a list containing an object of the wrong
class is refused likewise.  The statements are proved by `decide` over the whole table (finite), so a
parameter added to the code without a default value, or with an annotation the check does not
cover, breaks the proof.  `K-valid` runs the same table rows against the real code.

What is **false** of the code and therefore not a theorem: "a value outside the allowed list is
refused before anything changes" — the check runs after `apply_changes` (`refusedAfterApply`,
finding D8); parameters annotated with a `Union` are not checked at all (finding D9).
-/
namespace Efp.Props.C14
open Efp.Validate Efp.Generated

def quantityRows : List Row := params.filter (fun r => r.kind == "quantity")
def listRows : List Row := params.filter (fun r => r.kind.startsWith "list:")

/-- every quantity-valued parameter has a default value (the check reads its dimension from it) -/
theorem every_quantity_param_has_default : quantityRows.all (fun r => r.hasDefault) = true := by decide +kernel

/-- a dimension different from the default's is refused before anything is applied -/
theorem wrong_dimension_refused :
    quantityRows.all (fun r => update r (.quantity (r.dim.map (· + 1)) false) == .refusedBeforeApply .dim) = true := by
  decide +kernel

/-- a negative value is refused before anything is applied, except where negatives are meaningful -/
theorem negative_refused :
    quantityRows.all (fun r => r.mayBeNegative || update r (.quantity r.dim true) == .refusedBeforeApply .neg) = true := by
  decide +kernel

/-- the only attributes that may be negative are the `data_stored` of jobs -/
theorem negatives_only_data_stored :
    (params.filter (fun (r : Row) => r.mayBeNegative)).all (fun (r : Row) => r.2.1 == "data_stored") = true := by decide +kernel

/-- a value of the wrong type (a bare number, a string, an hourly series) is refused before apply -/
theorem wrong_type_refused :
    quantityRows.all (fun r => update r .pyfloat == .refusedBeforeApply .type
      && update r .pystr == .refusedBeforeApply .type && update r .hourly == .refusedBeforeApply .type) = true := by
  decide +kernel

/-- a list containing an object of a class outside the annotation is refused before apply -/
theorem wrong_class_in_list_refused :
    listRows.all (fun r => update r (.list ["System"]) == .refusedBeforeApply .listType) = true := by decide +kernel

/-- a well-formed value is accepted (the refusals above are not vacuous) -/
theorem valid_quantity_accepted :
    quantityRows.all (fun r => update r (.quantity r.dim false) == .accepted) = true := by decide +kernel

/-- whatever is refused by the parse phase is refused before any mutation (by construction of
`update`, mirrored by K-valid's "state unchanged" observation on the real code) -/
theorem parse_refusal_precedes_apply (r : Row) (v : InVal) (e : VErr) (h : checkInput r v = .error e) :
    ∃ e', update r v = .refusedBeforeApply e' := by
  unfold update
  split
  · exact ⟨_, rfl⟩
  · simp [h]

/-- the allowed-values refusal comes after apply: full statement of "rejected ⇒ unchanged" is false of
this model of the code (counterexample: any object-valued parameter with a value outside its list) -/
theorem allowed_values_checked_after_apply (r : Row) (hi : immutableAfterInit.contains (r.1, r.2.1) = false)
    (h : checkInput r (.sobj false) = .ok ()) :
    update r (.sobj false) = .refusedAfterApply .notAllowed := by
  have hi' : ¬ (r.1, r.2.1) ∈ immutableAfterInit := by simpa using hi
  simp [update, h, hi']

example : (findRow "Server" "server_type").isSome = true := by decide +kernel
example : quantityRows.length > 50 := by decide +kernel

end Efp.Props.C14

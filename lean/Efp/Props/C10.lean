import Efp.Proofs.Val
import Efp.Props.C09
/-!
# C10 — results do not depend on the units inputs are expressed in

`PhysEq` relates two quantities that denote the same physical value in (possibly) different units.
Every operator of Model A is a congruence for `PhysEq`, and `.to u` *canonicalises*: two
`PhysEq` values become **equal** after `.to u`.  Every bare `.magnitude` read of Model B
(`durationInFullHours`, the shift amounts, `nbAvgHourlyOccurrences`, the storage duration) is
preceded by `.to U.hour`, and sign/zero tests are unit independent for positive scales; those
are the theorems below.  The system-level statement `computeSystem_unit_independent` is not
proved as one theorem (it would be the composition of these congruences through every rule); the
composition is validated by the `K-calc` correspondence, whose generator draws a random unit for
every input, and by the direct oracle that re-expresses every input and rebuilds.
-/
namespace Efp.Props.C10
open Efp

/-- same physical value, same dimension; representation (unit, magnitude) may differ -/
def PhysEq (a b : Qty) : Prop := a.phys = b.phys ∧ a.unit.dim = b.unit.dim

theorem PhysEq.refl (a : Qty) : PhysEq a a := ⟨rfl, rfl⟩
theorem PhysEq.symm {a b : Qty} (h : PhysEq a b) : PhysEq b a := ⟨h.1.symm, h.2.symm⟩

/-- re-expressing a quantity in another unit of the same dimension gives a `PhysEq` quantity -/
theorem reexpress_physEq (q q' : Qty) (u : Efp.Unit) (hs : u.scale ≠ 0) (h : q.to u = .ok q') : PhysEq q q' := by
  have := C09.phys_to q q' u hs h
  refine ⟨this.1.symm, ?_⟩
  unfold Qty.to at h
  split at h
  · rename_i hd; rw [this.2]; exact hd
  · cases h

/-- **`.to u` canonicalises**: physically equal quantities become *equal* — so a `.magnitude`
read after `.to` of a fixed unit cannot depend on the unit the input was written in -/
theorem to_canonical (a b : Qty) (u : Efp.Unit) (h : PhysEq a b) : a.to u = b.to u := by
  unfold Qty.to
  rw [h.1, h.2]

/-- the number of full hours of a request (`math.ceil(request_duration in hours)`) is unit independent -/
theorem durationInFullHours_unit_independent (a b : Qty) (h : PhysEq a b) :
    durationInFullHours (.q a) = durationInFullHours (.q b) := by
  simp only [durationInFullHours, to_canonical a b U.hour h]

/-- sign tests (`data_stored.magnitude >= 0`, `available < 0`) are unit independent for positive scales -/
theorem sign_unit_independent (a b : Qty) (ha : 0 < a.unit.scale) (hb : 0 < b.unit.scale) (h : PhysEq a b) :
    (a.mag < 0 ↔ b.mag < 0) ∧ (a.mag = 0 ↔ b.mag = 0) := by
  have h1 := h.1
  simp only [Qty.phys] at h1
  constructor
  · constructor
    · intro hn
      by_contra hc
      have : 0 ≤ b.mag * b.unit.scale := mul_nonneg (not_lt.mp hc) hb.le
      have : a.mag * a.unit.scale < 0 := mul_neg_of_neg_of_pos hn ha
      linarith
    · intro hn
      by_contra hc
      have : 0 ≤ a.mag * a.unit.scale := mul_nonneg (not_lt.mp hc) ha.le
      have : b.mag * b.unit.scale < 0 := mul_neg_of_neg_of_pos hn hb
      linarith
  · constructor
    · intro h0
      rw [h0, zero_mul] at h1
      rcases mul_eq_zero.mp h1.symm with h | h
      · exact h
      · exact absurd h hb.ne'
    · intro h0
      rw [h0, zero_mul] at h1
      rcases mul_eq_zero.mp h1 with h | h
      · exact h
      · exact absurd h ha.ne'

/-! ### the operators are congruences -/

theorem mul_congr (a a' b b' : Qty) (ha : PhysEq a a') (hb : PhysEq b b') : PhysEq (a.mul b) (a'.mul b') := by
  refine ⟨?_, ?_⟩
  · rw [C09.phys_mul, C09.phys_mul, ha.1, hb.1]
  · simp only [Qty.mul, Unit.mul, ha.2, hb.2]

theorem add_congr (a a' b b' c c' : Qty) (hsa : a.unit.scale ≠ 0) (hsa' : a'.unit.scale ≠ 0)
    (ha : PhysEq a a') (hb : PhysEq b b') (h : a.add b = .ok c) (h' : a'.add b' = .ok c') : PhysEq c c' := by
  obtain ⟨h1, h2⟩ := C09.phys_add a b c hsa h
  obtain ⟨h1', h2'⟩ := C09.phys_add a' b' c' hsa' h'
  exact ⟨by rw [h1, h1', ha.1, hb.1], by rw [h2, h2', ha.2]⟩

/-- and addition raises for one representation iff it raises for the other -/
theorem add_raises_congr (a a' b b' : Qty) (ha : PhysEq a a') (hb : PhysEq b b') :
    (∃ c, a.add b = .ok c) ↔ (∃ c', a'.add b' = .ok c') := by
  rw [C09.add_ok_iff, C09.add_ok_iff, ha.2, hb.2]

theorem sub_congr (a a' b b' c c' : Qty) (hsa : a.unit.scale ≠ 0) (hsa' : a'.unit.scale ≠ 0)
    (ha : PhysEq a a') (hb : PhysEq b b') (h : a.sub b = .ok c) (h' : a'.sub b' = .ok c') : PhysEq c c' := by
  obtain ⟨h1, h2⟩ := C09.phys_sub a b c hsa h
  obtain ⟨h1', h2'⟩ := C09.phys_sub a' b' c' hsa' h'
  exact ⟨by rw [h1, h1', ha.1, hb.1], by rw [h2, h2', ha.2]⟩

theorem div_congr (a a' b b' c c' : Qty) (hsb : b.unit.scale ≠ 0) (hsb' : b'.unit.scale ≠ 0)
    (ha : PhysEq a a') (hb : PhysEq b b') (h : a.div b = .ok c) (h' : a'.div b' = .ok c') : PhysEq c c' := by
  obtain ⟨h1, h2⟩ := C09.phys_div a b c hsb h
  obtain ⟨h1', h2'⟩ := C09.phys_div a' b' c' hsb' h'
  exact ⟨by rw [h1, h1', ha.1, hb.1], by rw [h2, h2', ha.2, hb.2]⟩

/-- hourly series: same hours, same physical value at every hour -/
def HPhysEq (x y : HQ) : Prop :=
  Series.keys x.vals = Series.keys y.vals ∧ x.unit.dim = y.unit.dim ∧ ∀ t, x.phys t = y.phys t

/-- scalar × hourly is a congruence -/
theorem hourly_mul_scalar_congr (x x' z z' : HQ) (q q' : Qty) (hx : HPhysEq x x') (hq : PhysEq q q')
    (h : Val.mul (.h x) (.q q) = .ok (.h z)) (h' : Val.mul (.h x') (.q q') = .ok (.h z')) : HPhysEq z z' := by
  have e := C09.hourly_mul_scalar q x z h
  have e' := C09.hourly_mul_scalar q' x' z' h'
  simp only [Val.mul] at h h'
  injection h with h; injection h with h; subst h
  injection h' with h'; injection h' with h'; subst h'
  refine ⟨by simpa using hx.1, by simp only [Unit.mul, hx.2.1, hq.2], ?_⟩
  intro t; rw [e t, e' t, hx.2.2 t, hq.1]

/-- hourly + hourly is a congruence -/
theorem hourly_add_congr (x x' y y' z z' : HQ) (hsx : x.unit.scale ≠ 0) (hsx' : x'.unit.scale ≠ 0)
    (hx : HPhysEq x x') (hy : HPhysEq y y')
    (h : Val.add (.h x) (.h y) = .ok (.h z)) (h' : Val.add (.h x') (.h y') = .ok (.h z')) : HPhysEq z z' := by
  have e := C09.hourly_add_pointwise x y z hsx h
  have e' := C09.hourly_add_pointwise x' y' z' hsx' h'
  refine ⟨?_, by rw [(e 0).2, (e' 0).2]; exact hx.2.1, fun t => by rw [(e t).1, (e' t).1, hx.2.2 t, hy.2.2 t]⟩
  simp only [Val.add] at h h'
  split at h
  · split at h'
    · injection h with h; injection h with h; subst h
      injection h' with h'; injection h' with h'; subst h'
      simp only [Series.keys_add, Series.keys_scale, hx.1, hy.1]
    · cases h'
  · cases h

/-- `.to u` on hourly series canonicalises the physical content: equal physical values at every hour -/
theorem hourly_to_congr (x x' z z' : HQ) (u : Efp.Unit) (hu : u.scale ≠ 0) (hx : HPhysEq x x')
    (h : x.to u = .ok z) (h' : x'.to u = .ok z') : ∀ t, Series.get z.vals t = Series.get z'.vals t := by
  intro t
  have e := C09.hourly_to_phys x z u hu h t
  have e' := C09.hourly_to_phys x' z' u hu h' t
  have hz : z.unit = u := by
    unfold HQ.to at h; split at h
    · injection h with h; subst h; rfl
    · cases h
  have hz' : z'.unit = u := by
    unfold HQ.to at h'; split at h'
    · injection h' with h'; subst h'; rfl
    · cases h'
  have := hx.2.2 t
  rw [← e, ← e'] at this
  simp only [HQ.phys, hz, hz'] at this
  exact mul_right_cancel₀ hu this

/-! ## non-vacuity -/
example : PhysEq ⟨1, U.GB⟩ ⟨1/1000, U.TB⟩ := by unfold PhysEq; decide +kernel
example : durationInFullHours (.q ⟨90, ⟨60, {time := 1}⟩⟩) = durationInFullHours (.q ⟨3/2, U.hour⟩) := by decide +kernel

end Efp.Props.C10

import Efp.Model.Expl
/-!
# C07 — every computed value is reproduced by the formula it displays

Over Model A's explanation trees: each operator records its operands and its own operator string
together with the value it computed, so re-evaluating the record reproduces the value
(`wellRecorded`), for every operand, and labelling does not disturb it.  The renderer is a total
function.  The `K-expl` suite re-evaluates every node of every explanation tree of the real code.
-/
namespace Efp.Props.C07
open Efp Efp.Expl

theorem beq_self_val (v : Val) : (v == v) = true := by simp

/-- **`+` records a formula that reproduces its value** (likewise `−`, `×`, `÷`, `sum`, `abs`) -/
theorem add_wellRecorded (a b t : Tree) (ha : wellRecorded a = true) (hb : wellRecorded b = true)
    (h : mkAdd a b = .ok t) : wellRecorded t = true := by
  unfold mkAdd at h
  cases hv : a.val.add b.val with
  | error e => simp [hv, bind, Except.bind] at h
  | ok v =>
    simp only [hv, bind, Except.bind, pure, Except.pure] at h
    injection h with h; subst h
    simp [wellRecorded, evalOp, hv, ha, hb]

theorem sub_wellRecorded (a b t : Tree) (ha : wellRecorded a = true) (hb : wellRecorded b = true)
    (h : mkSub a b = .ok t) : wellRecorded t = true := by
  unfold mkSub at h
  cases hv : a.val.sub b.val with
  | error e => simp [hv, bind, Except.bind] at h
  | ok v =>
    simp only [hv, bind, Except.bind, pure, Except.pure] at h
    injection h with h; subst h
    simp [wellRecorded, evalOp, hv, ha, hb]

theorem mul_wellRecorded (a b t : Tree) (ha : wellRecorded a = true) (hb : wellRecorded b = true)
    (h : mkMul a b = .ok t) : wellRecorded t = true := by
  unfold mkMul at h
  cases hv : a.val.mul b.val with
  | error e => simp [hv, bind, Except.bind] at h
  | ok v =>
    simp only [hv, bind, Except.bind, pure, Except.pure] at h
    injection h with h; subst h
    simp [wellRecorded, evalOp, hv, ha, hb]

theorem div_wellRecorded (a b t : Tree) (ha : wellRecorded a = true) (hb : wellRecorded b = true)
    (h : mkDiv a b = .ok t) : wellRecorded t = true := by
  unfold mkDiv at h
  cases hv : a.val.div b.val with
  | error e => simp [hv, bind, Except.bind] at h
  | ok v =>
    simp only [hv, bind, Except.bind, pure, Except.pure] at h
    injection h with h; subst h
    simp [wellRecorded, evalOp, hv, ha, hb]

/-- the hour-by-hour comparison records a formula that reproduces its value too -/
theorem compared_wellRecorded (isMax : Bool) (a b t : Tree) (ha : wellRecorded a = true) (hb : wellRecorded b = true)
    (h : mkCompared isMax a b = .ok t) : wellRecorded t = true := by
  unfold mkCompared at h
  cases hv : a.val.npCompared isMax b.val with
  | error e => simp [hv, bind, Except.bind] at h
  | ok v =>
    simp only [hv, bind, Except.bind, pure, Except.pure] at h
    injection h with h; subst h
    cases isMax <;> simp [wellRecorded, evalOp, hv, ha, hb]

theorem sum_wellRecorded (a t : Tree) (ha : wellRecorded a = true) (h : mkSum a = .ok t) : wellRecorded t = true := by
  unfold mkSum at h
  cases hv : a.val.sum with
  | error e => simp [hv, bind, Except.bind] at h
  | ok v =>
    simp only [hv, bind, Except.bind, pure, Except.pure] at h
    injection h with h; subst h
    simp [wellRecorded, evalOp, hv, ha]

/-- giving a calculated value its label keeps every recorded step valid -/
theorem setLabel_wellRecorded (t : Tree) (l : String) (hl : l ≠ "") (h : wellRecorded t = true) :
    wellRecorded (setLabel t l) = true := by
  cases t with
  | leaf _ s v => simp [setLabel, wellRecorded, hl]
  | node op _ v a b =>
    unfold setLabel
    unfold wellRecorded at h ⊢
    exact h

/-- the value of a labelled result is the value the operator computed -/
theorem setLabel_val (t : Tree) (l : String) : (setLabel t l).val = t.val := by
  cases t <;> rfl

/-- a well-recorded tree has only labelled leaves -/
theorem leaves_labelled (t : Tree) (h : wellRecorded t = true) :
    ∀ l s v, t = .leaf l s v → l ≠ "" := by
  intro l s v e
  subst e
  simpa [wellRecorded] using h

/-- every intermediate step of a well-recorded explanation is itself well recorded: the property
holds for every node of the tree, not only for its root -/
theorem wellRecorded_subtrees (op l : String) (v : Val) (a : Tree) (b : Option Tree)
    (h : wellRecorded (.node op l v a b) = true) :
    wellRecorded a = true ∧ (∀ r, b = some r → wellRecorded r = true) := by
  unfold wellRecorded at h
  simp only [Bool.and_eq_true] at h
  refine ⟨h.1.2, ?_⟩
  intro r hr
  subst hr
  exact h.2

/-- the root step reproduces the displayed value: re-evaluating the recorded operator on the recorded
operands gives exactly the value held by the node -/
theorem root_reproduced (op l : String) (v : Val) (a : Tree) (b : Option Tree)
    (h : wellRecorded (.node op l v a b) = true) (r : Except Err Val)
    (he : evalOp op a.val (b.map Tree.val) = some r) : r = .ok v := by
  unfold wellRecorded at h
  simp only [Bool.and_eq_true] at h
  rw [he] at h
  cases r with
  | error e => simp at h
  | ok v' => simp at h; rw [h.1.1]

/-! ## non-vacuity -/
def leafA : Tree := .leaf "a" true (.q ⟨3, ⟨1, {}⟩⟩)
def leafB : Tree := .leaf "b" true (.q ⟨4, ⟨1, {}⟩⟩)
example : (match mkAdd leafA leafB with | .ok t => wellRecorded t | .error _ => false) = true := by decide +kernel
example : (match mkAdd leafA leafB with | .ok t => explain (setLabel t "total") | .error _ => "") = "total = a + b = <value>" := by
  decide +kernel

end Efp.Props.C07

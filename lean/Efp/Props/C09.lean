import Efp.Model.Val
import Efp.Proofs.Series
import Efp.Props.C04
/-!
# C09 — explainable quantities obey unit-safe arithmetic

Statements over Model A (`Qty`, `HQ`, `Val`); every theorem holds for all operands.
"Physical value" is `phys` (magnitude × unit scale to base units): what pint preserves under `.to`.
Positivity of unit scales is the only side condition (true of every pint unit; `K-qty` checks the
units the code uses through `Generated/Units.lean`).
-/
namespace Efp.Props.C09
open Efp

/-! ## scalars -/

/-- addition gives the physical sum, in the left operand's unit -/
theorem phys_add (a b c : Qty) (hs : a.unit.scale ≠ 0) (h : a.add b = .ok c) :
    c.phys = a.phys + b.phys ∧ c.unit = a.unit := by
  unfold Qty.add at h
  split at h
  · injection h with h; subst h
    constructor
    · simp only [Qty.phys]; field_simp
    · rfl
  · cases h

theorem phys_sub (a b c : Qty) (hs : a.unit.scale ≠ 0) (h : a.sub b = .ok c) :
    c.phys = a.phys - b.phys ∧ c.unit = a.unit := by
  unfold Qty.sub at h
  split at h
  · injection h with h; subst h
    constructor
    · simp only [Qty.phys]; field_simp
    · rfl
  · cases h

/-- combining incompatible dimensions raises instead of yielding a number -/
theorem add_dim_mismatch_raises (a b : Qty) (h : a.unit.dim ≠ b.unit.dim) :
    a.add b = .error .dim ∧ a.sub b = .error .dim := by
  simp [Qty.add, Qty.sub, h]

/-- and addition succeeds exactly when the dimensions agree -/
theorem add_ok_iff (a b : Qty) : (∃ c, a.add b = .ok c) ↔ a.unit.dim = b.unit.dim := by
  unfold Qty.add
  constructor
  · rintro ⟨c, h⟩; split at h
    · assumption
    · cases h
  · intro h; simp [h]

theorem phys_mul (a b : Qty) : (a.mul b).phys = a.phys * b.phys := by
  simp only [Qty.mul, Qty.phys, Unit.mul]; ring

theorem dim_mul (a b : Qty) : (a.mul b).unit.dim = a.unit.dim.add b.unit.dim := rfl

theorem phys_div (a b c : Qty) (hs : b.unit.scale ≠ 0) (h : a.div b = .ok c) :
    c.phys = a.phys / b.phys ∧ c.unit.dim = a.unit.dim.sub b.unit.dim := by
  unfold Qty.div at h
  split at h
  · cases h
  · rename_i hb
    injection h with h; subst h
    constructor
    · simp only [Qty.phys, Unit.div]; field_simp
    · rfl

/-- `.to` changes the representation only: the physical value is kept -/
theorem phys_to (q q' : Qty) (u : Efp.Unit) (hs : u.scale ≠ 0) (h : q.to u = .ok q') :
    q'.phys = q.phys ∧ q'.unit = u := by
  unfold Qty.to at h
  split at h
  · injection h with h; subst h
    constructor
    · simp only [Qty.phys]; field_simp
    · rfl
  · cases h

theorem to_dim_mismatch_raises (q : Qty) (u : Efp.Unit) (h : q.unit.dim ≠ u.dim) : q.to u = .error .dim := by
  simp [Qty.to, h]

/-- addition is commutative on physical values (the *unit* of the result is the left operand's) -/
theorem add_comm_phys (a b c c' : Qty) (ha : a.unit.scale ≠ 0) (hb : b.unit.scale ≠ 0)
    (h : a.add b = .ok c) (h' : b.add a = .ok c') : c.phys = c'.phys := by
  rw [(phys_add a b c ha h).1, (phys_add b a c' hb h').1]; ring

theorem mul_comm_phys (a b : Qty) : (a.mul b).phys = (b.mul a).phys := by
  rw [phys_mul, phys_mul]; ring

/-! ## the empty value -/

/-- an empty value is neutral for addition … -/
theorem empty_add_neutral (x : Val) : Val.add .empty x = .ok x ∧ Val.add x .empty = .ok x := by
  cases x <;> simp [Val.add]

/-- … and absorbing for multiplication -/
theorem empty_mul_absorbing (x : Val) : Val.mul .empty x = .ok .empty ∧ Val.mul x .empty = .ok .empty := by
  cases x <;> simp [Val.mul]

/-! ## hourly series -/

/-- hourly series are added timestamp by timestamp, missing hours counting as zero -/
theorem hourly_add_pointwise (x y z : HQ) (hs : x.unit.scale ≠ 0)
    (h : Val.add (.h x) (.h y) = .ok (.h z)) (t : Int) :
    z.phys t = x.phys t + y.phys t ∧ z.unit = x.unit := by
  simp only [Val.add] at h
  split at h
  · injection h with h; injection h with h; subst h
    constructor
    · simp only [HQ.phys, Series.get_add, Series.get_scale]; field_simp
    · rfl
  · cases h

/-- … so totals add up -/
theorem hourly_total_add (x y z : HQ) (hs : x.unit.scale ≠ 0) (hx : Series.Sorted x.vals)
    (hy : (Series.keys y.vals).Nodup) (h : Val.add (.h x) (.h y) = .ok (.h z)) :
    z.totalPhys = x.totalPhys + y.totalPhys := by
  simp only [Val.add] at h
  split at h
  · injection h with h; injection h with h; subst h
    simp only [HQ.totalPhys]
    rw [Series.total_add _ _ hx (by simpa using hy), Series.total_scale]
    field_simp
  · cases h

theorem hourly_add_dim_mismatch_raises (x y : HQ) (h : x.unit.dim ≠ y.unit.dim) :
    Val.add (.h x) (.h y) = .error .dim := by
  simp [Val.add, h]

/-- the index of a sum is the sorted union of the two indexes: strictly increasing, no duplicates -/
theorem hourly_add_sorted (x y z : HQ) (hx : Series.Sorted x.vals)
    (h : Val.add (.h x) (.h y) = .ok (.h z)) : Series.Sorted z.vals := by
  simp only [Val.add] at h
  split at h
  · injection h with h; injection h with h; subst h
    exact Series.sorted_add _ _ hx
  · cases h

theorem get_mul (a b : Series) (t : Int) : Series.get (Series.mul a b) t = Series.get a t * Series.get b t := by
  unfold Series.mul
  rw [Series.get_map_pair]
  split
  · rfl
  · rename_i h
    rw [Series.mem_unionKeys] at h
    push_neg at h
    rw [Series.get_eq_zero_of_not_mem a t h.1]; simp

/-- hourly series are multiplied timestamp by timestamp, missing hours counting as zero -/
theorem hourly_mul_pointwise (x y z : HQ) (h : Val.mul (.h x) (.h y) = .ok (.h z)) (t : Int) :
    z.phys t = x.phys t * y.phys t := by
  simp only [Val.mul] at h
  injection h with h; injection h with h; subst h
  simp only [HQ.phys, get_mul, Unit.mul]; ring

/-- scalar × hourly, either way round -/
theorem scalar_mul_hourly (q : Qty) (x z : HQ) (h : Val.mul (.q q) (.h x) = .ok (.h z)) (t : Int) :
    z.phys t = q.phys * x.phys t := by
  simp only [Val.mul] at h
  injection h with h; injection h with h; subst h
  simp only [HQ.phys, Qty.phys, Series.get_scale, Unit.mul]; ring

theorem hourly_mul_scalar (q : Qty) (x z : HQ) (h : Val.mul (.h x) (.q q) = .ok (.h z)) (t : Int) :
    z.phys t = x.phys t * q.phys := by
  simp only [Val.mul] at h
  injection h with h; injection h with h; subst h
  simp only [HQ.phys, Qty.phys, Series.get_scale, Unit.mul]; ring

/-- addition of hourly series is commutative, timestamp by timestamp -/
theorem hourly_add_comm (x y z z' : HQ) (hx : x.unit.scale ≠ 0) (hy : y.unit.scale ≠ 0)
    (h : Val.add (.h x) (.h y) = .ok (.h z)) (h' : Val.add (.h y) (.h x) = .ok (.h z')) (t : Int) :
    z.phys t = z'.phys t := by
  rw [(hourly_add_pointwise x y z hx h t).1, (hourly_add_pointwise y x z' hy h' t).1]; ring

theorem hourly_mul_comm (x y z z' : HQ)
    (h : Val.mul (.h x) (.h y) = .ok (.h z)) (h' : Val.mul (.h y) (.h x) = .ok (.h z')) (t : Int) :
    z.phys t = z'.phys t := by
  rw [hourly_mul_pointwise x y z h t, hourly_mul_pointwise y x z' h' t]; ring

/-- shifting keeps every value, moved by whole hours -/
theorem shift_pointwise (x : HQ) (k : Int) (t : Int) :
    (HQ.mk (Series.shift k x.vals) x.unit).phys t = x.phys (t - 3600 * k) := by
  simp only [HQ.phys, Series.get_shift]

/-- `.to` on an hourly series keeps every physical value -/
theorem hourly_to_phys (x x' : HQ) (u : Efp.Unit) (hs : u.scale ≠ 0) (h : x.to u = .ok x') (t : Int) :
    x'.phys t = x.phys t := by
  unfold HQ.to at h
  split at h
  · injection h with h; subst h
    simp only [HQ.phys, Series.get_scale]; field_simp
  · cases h

/-- negation and sum of a series -/
theorem neg_total (x : HQ) : (HQ.mk (Series.neg x.vals) x.unit).totalPhys = - x.totalPhys := by
  simp only [HQ.totalPhys, Series.total_neg]; ring

theorem sum_is_total (x : HQ) (q : Qty) (h : Val.sum (.h x) = .ok (.q q)) : q.phys = x.totalPhys := by
  simp only [Val.sum] at h
  injection h with h; injection h with h; subst h; rfl

/-! ## `.max()` -/

theorem foldl_max_mem (l : Series) (v : Rat) :
    l.foldl (fun m p => if p.2 > m then p.2 else m) v = v ∨
      ∃ p ∈ l, p.2 = l.foldl (fun m p => if p.2 > m then p.2 else m) v := by
  induction l generalizing v with
  | nil => left; rfl
  | cons q qs ih =>
    simp only [List.foldl_cons]
    rcases ih (if q.2 > v then q.2 else v) with h | ⟨p, hp, h⟩
    · by_cases hq : q.2 > v
      · simp only [hq, if_true] at h ⊢
        right; exact ⟨q, by simp, h.symm⟩
      · simp only [hq, if_false] at h ⊢
        left; exact h
    · right; exact ⟨p, List.mem_cons_of_mem _ hp, h⟩

/-- **the max of an hourly series is one of its hourly values, in the series' unit, and no hourly value
exceeds it** — also when every value is negative (seed C09-e returns 0 there) -/
theorem max_is_the_largest_hourly_value (x : HQ) (v : Val) (h : Val.max (.h x) = .ok v) :
    ∃ m : Rat, v = .q ⟨m, x.unit⟩ ∧ (∃ p ∈ x.vals, p.2 = m) ∧ ∀ p ∈ x.vals, p.2 ≤ m := by
  simp only [Val.max] at h
  cases hm : Series.maxVal x.vals with
  | none => simp [hm] at h
  | some m =>
    simp only [hm, Except.ok.injEq] at h
    refine ⟨m, h.symm, ?_, C04.maxVal_ge x.vals m hm⟩
    cases hx : x.vals with
    | nil => rw [hx] at hm; cases hm
    | cons q qs =>
      obtain ⟨k, w⟩ := q
      rw [hx] at hm
      simp only [Series.maxVal, Option.some.injEq] at hm
      rcases foldl_max_mem qs w with h1 | ⟨p, hp, h1⟩
      · exact ⟨(k, w), by simp, by rw [← hm, h1]⟩
      · exact ⟨p, List.mem_cons_of_mem _ hp, by rw [← hm, h1]⟩

example : Val.max (.h ⟨[(0, -3), (3600, -1), (7200, -2)], ⟨1, {}⟩⟩) = .ok (.q ⟨-1, ⟨1, {}⟩⟩) := by decide +kernel

/-! ## hour-by-hour comparison -/

/-- `np_compared_with(other, "max")` on two series of the same length **in the same unit** is the larger of the
two values at every position — it compares raw magnitudes, which is why every caller normalises the units of the
operands first (seeds C04-b / C07-f convert afterwards instead) -/
theorem npmax_same_unit (a b : Series) (u : Efp.Unit) (h : a.length = b.length) :
    Val.npCompared true (.h ⟨a, u⟩) (.h ⟨b, u⟩)
      = .ok (.h ⟨List.zipWith (fun p q => (p.1, if p.2 ≥ q.2 then p.2 else q.2)) a b, u⟩) := by
  simp [Val.npCompared, Series.zipPos, h, bind, Except.bind, pure, Except.pure]

/-- … and it is *not* the physical maximum when the units differ: 1 TB against 600 GB -/
example : Val.npCompared true (.h ⟨[(0, 1)], ⟨8000000000000, {}⟩⟩) (.h ⟨[(0, 600)], ⟨8000000000, {}⟩⟩)
    = .ok (.h ⟨[(0, 600)], ⟨8000000000000, {}⟩⟩) := by decide +kernel

/-! ## shift by a duration -/

/-- **a shift by the duration `d` moves every hour `t` to the hour that contains `t + d`**: the number
of hours shifted is the `k` with `3600·k ≤ d < 3600·(k+1)` (in seconds), for positive *and negative*
durations and whatever unit the duration is written in -/
theorem shift_by_duration_hour (x : HQ) (d : Qty) (v : Val) (h : (Val.h x).shiftByDuration d = .ok v) :
    ∃ k : Int, v = .h ⟨Series.shift k x.vals, x.unit⟩ ∧
      3600 * (k : Rat) ≤ d.phys ∧ d.phys < 3600 * ((k : Rat) + 1) := by
  unfold Val.shiftByDuration at h
  simp only [bind, Except.bind] at h
  cases hd : d.to ⟨3600, { time := 1 }⟩ with
  | error e => simp [hd] at h
  | ok d' =>
    simp only [hd, Val.shiftBy, Except.ok.injEq] at h
    refine ⟨d'.mag.floor, h.symm, ?_, ?_⟩
    all_goals
      have hp := (phys_to d d' ⟨3600, { time := 1 }⟩ (by norm_num) hd)
      have hm : d'.mag = d.phys / 3600 := by
        have h1 := hp.1
        have h2 := hp.2
        simp only [Qty.phys] at h1 ⊢
        rw [h2] at h1
        simp only at h1
        rw [← h1]; field_simp
    · have := Rat.floor_le d'.mag
      rw [hm] at this ⊢
      have h3600 : (0 : Rat) < 3600 := by norm_num
      calc 3600 * ((d.phys / 3600).floor : Rat) ≤ 3600 * (d.phys / 3600) := by
            exact mul_le_mul_of_nonneg_left this (le_of_lt h3600)
        _ = d.phys := by field_simp
    · have := Rat.lt_floor_add_one d'.mag
      push_cast at this
      rw [hm] at this ⊢
      have h3600 : (0 : Rat) < 3600 := by norm_num
      calc d.phys = 3600 * (d.phys / 3600) := by field_simp
        _ < 3600 * (((d.phys / 3600).floor : Rat) + 1) := by
            exact mul_lt_mul_of_pos_left this h3600

/-- … so two durations of the same physical length shift by the same number of hours -/
theorem shift_by_duration_unit_independent (x : HQ) (d d' : Qty) (v v' : Val) (hp : d.phys = d'.phys)
    (h : (Val.h x).shiftByDuration d = .ok v) (h' : (Val.h x).shiftByDuration d' = .ok v') : v = v' := by
  obtain ⟨k, hv, h1, h2⟩ := shift_by_duration_hour x d v h
  obtain ⟨k', hv', h1', h2'⟩ := shift_by_duration_hour x d' v' h'
  rw [hp] at h1 h2
  have hk : k = k' := by
    have a : (k : Rat) < (k' : Rat) + 1 := by linarith
    have b : (k' : Rat) < (k : Rat) + 1 := by linarith
    have a' : k < k' + 1 := by exact_mod_cast a
    have b' : k' < k + 1 := by exact_mod_cast b
    omega
  rw [hv, hv', hk]

/-- a negative half hour moves a value one hour back (truncation towards zero would not: seed C09-d) -/
example : (Val.h ⟨[(36000, 5)], ⟨1, {}⟩⟩).shiftByDuration ⟨-30, ⟨60, { time := 1 }⟩⟩
    = .ok (.h ⟨[(32400, 5)], ⟨1, {}⟩⟩) := by decide +kernel

/-! ## non-vacuity: concrete operands meeting the hypotheses -/

example : (Qty.mk 3 ⟨1000, {mass := 1}⟩).add (Qty.mk 500 ⟨1, {mass := 1}⟩) = .ok ⟨7/2, ⟨1000, {mass := 1}⟩⟩ := by
  decide +kernel
example : Val.add (.h ⟨[(0, 1), (3600, 2)], ⟨1, {}⟩⟩) (.h ⟨[(3600, 5), (7200, 7)], ⟨1, {}⟩⟩)
    = .ok (.h ⟨[(0, 1), (3600, 7), (7200, 7)], ⟨1, {}⟩⟩) := by decide +kernel
example : Series.Sorted [(0, 1), (3600, 2)] := by decide +kernel

end Efp.Props.C09

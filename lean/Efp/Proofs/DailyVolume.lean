import Efp.Model.TimeBuilders
import Mathlib.Algebra.BigOperators.Group.List.Basic
import Mathlib.Data.List.Perm.Basic
import Mathlib.Data.List.Nodup
import Mathlib.Algebra.Order.Field.Rat
import Mathlib.Tactic.Ring
import Mathlib.Tactic.Linarith
/-!
# The hours of one full day: every hour of day occurs exactly once in any 24 consecutive hours
-/
namespace Efp.TimeBuilders

/-- rotating the hours of a day is a permutation (24 cases, checked by evaluation) -/
theorem rotate_perm : ∀ r : Fin 24, ((List.range 24).map (fun j => (r.val + j) % 24)).Perm (List.range 24) := by
  decide

theorem hours_of_window_perm (c : Int) :
    ((List.range 24).map (fun (j : Nat) => (c + (j : Int)) % 24)).Perm ((List.range 24).map (fun (h : Nat) => (h : Int))) := by
  have hr : 0 ≤ c % 24 ∧ c % 24 < 24 := ⟨Int.emod_nonneg c (by decide), Int.emod_lt_of_pos c (by decide)⟩
  let r : Fin 24 := ⟨(c % 24).toNat, by omega⟩
  have h1 : (List.range 24).map (fun (j : Nat) => (c + (j : Int)) % 24)
      = ((List.range 24).map (fun j => (r.val + j) % 24)).map (fun (h : Nat) => (h : Int)) := by
    rw [List.map_map]
    apply List.map_congr_left
    intro j _
    simp only [Function.comp, r]
    have : ((c % 24).toNat : Int) = c % 24 := Int.toNat_of_nonneg hr.1
    push_cast
    rw [this]
    omega
  rw [h1]
  exact (rotate_perm r).map _

/-- counting the chosen hours over a full day gives the number of chosen hours -/
theorem count_hours (hours : List Int) (hnd : hours.Nodup) (hrange : ∀ h ∈ hours, 0 ≤ h ∧ h < 24) (w : Rat) :
    ((List.range 24).map (fun (h : Nat) => if hours.contains (h : Int) then w else 0)).sum = w * hours.length := by
  -- the chosen hours, as the sub-list of 0..23 that they are
  have hperm : ((List.range 24).map (fun (h : Nat) => (h : Int))).filter (fun x => hours.contains x) |>.Perm hours := by
    apply (List.perm_ext_iff_of_nodup ?_ hnd).mpr
    · intro x
      simp only [List.mem_filter, List.mem_map, List.mem_range, List.contains_eq_mem, decide_eq_true_eq]
      constructor
      · rintro ⟨_, hx⟩; exact hx
      · intro hx
        obtain ⟨h0, h1⟩ := hrange x hx
        exact ⟨⟨x.toNat, by omega, by omega⟩, hx⟩
    · apply List.Nodup.filter
      exact (List.nodup_range).map (fun a b h => by exact_mod_cast h)
  have hlen := hperm.length_eq
  rw [← hlen]
  generalize (List.range 24) = L
  induction L with
  | nil => simp
  | cons a rest ih =>
    simp only [List.map_cons, List.sum_cons, List.filter_cons]
    by_cases h : hours.contains (a : Int) = true
    · simp only [h, if_true, List.length_cons, ih]; push_cast; ring
    · simp only [h, Bool.false_eq_true, if_false, ih]; ring

/-- **any 24 consecutive whole hours carry the daily volume exactly once per chosen hour** -/
theorem full_day_sum (c : Int) (hours : List Int) (hnd : hours.Nodup) (hrange : ∀ h ∈ hours, 0 ≤ h ∧ h < 24) (w : Rat) :
    ((List.range 24).map (fun (j : Nat) => if hours.contains ((c + (j : Int)) % 24) then w else 0)).sum = w * hours.length := by
  have := (hours_of_window_perm c).map (fun x => if hours.contains x then w else 0)
  rw [List.map_map, List.map_map] at this
  rw [← count_hours hours hnd hrange w]
  exact this.sum_eq

end Efp.TimeBuilders

import Efp.Model.Series
import Mathlib.Algebra.BigOperators.Group.Finset.Basic
import Mathlib.Algebra.BigOperators.Ring.Finset
import Mathlib.Algebra.Order.Field.Rat
import Mathlib.Tactic.Ring
import Mathlib.Tactic.Linarith
import Mathlib.Tactic.FieldSimp
/-!
# Characterisation lemmas for the series primitives

Extensional view: a series is its `get` function and its `keys`; everything above is algebra.
-/
namespace Efp
namespace Series

/-! ### get -/

@[simp] theorem get_nil (t : Int) : get [] t = 0 := rfl

theorem get_cons (k : Int) (v : Rat) (a : Series) (t : Int) :
    get ((k, v) :: a) t = if k = t then v else get a t := by
  unfold get
  simp only [List.find?_cons]
  by_cases h : k = t
  · simp [h]
  · have hb : (k == t) = false := by simpa using h
    simp [h, hb]

theorem get_eq_zero_of_not_mem (a : Series) (t : Int) (h : t ∉ keys a) : get a t = 0 := by
  induction a with
  | nil => rfl
  | cons p a ih =>
    obtain ⟨k, v⟩ := p
    simp only [keys, List.map_cons, List.mem_cons, not_or] at h
    rw [get_cons]
    have : ¬ k = t := fun e => h.1 e.symm
    simp only [this, if_false]
    exact ih h.2

@[simp] theorem keys_nil : keys ([] : Series) = [] := rfl
@[simp] theorem keys_cons (p : Int × Rat) (a : Series) : keys (p :: a) = p.1 :: keys a := rfl
@[simp] theorem total_nil : total ([] : Series) = 0 := rfl
@[simp] theorem total_cons (p : Int × Rat) (a : Series) : total (p :: a) = p.2 + total a := by
  simp [total]

theorem Sorted.nodup {a : Series} (h : Sorted a) : (keys a).Nodup := by
  unfold Sorted at h
  exact h.imp (fun hlt => ne_of_lt hlt)

/-- Summing `get a` over any duplicate-free superset of `a`'s keys gives `total a`. -/
theorem sum_get_superset (a : Series) (ha : (keys a).Nodup) (U : List Int) (hU : U.Nodup)
    (hsub : ∀ t ∈ keys a, t ∈ U) : (U.map (get a)).sum = total a := by
  rw [← List.sum_toFinset _ hU]
  induction a with
  | nil =>
    have : get [] = fun _ => (0 : Rat) := by funext t; rfl
    simp [this]
  | cons p a ih =>
    obtain ⟨k, v⟩ := p
    simp only [keys_cons, List.nodup_cons] at ha
    have hk : k ∈ U.toFinset := by
      rw [List.mem_toFinset]; exact hsub k (by simp)
    have hsub' : ∀ t ∈ keys a, t ∈ U := fun t ht => hsub t (by simp [ht])
    have ih' := ih ha.2 hsub'
    have h0 : get a k = 0 := get_eq_zero_of_not_mem a k ha.1
    simp only [get_cons]
    have : ∀ t ∈ U.toFinset, (if k = t then v else get a t) = (if k = t then v else 0) + get a t := by
      intro t _
      by_cases h : k = t
      · subst h; simp [h0]
      · simp [h]
    rw [Finset.sum_congr rfl this, Finset.sum_add_distrib, Finset.sum_ite_eq U.toFinset k (fun _ => v)]
    simp only [hk, if_true, ih', total_cons]

/-! ### insertKey / unionKeys -/

theorem mem_insertKey (t x : Int) (l : List Int) : x ∈ insertKey t l ↔ x = t ∨ x ∈ l := by
  induction l with
  | nil => simp [insertKey]
  | cons k ks ih =>
    unfold insertKey
    split
    · simp
    · split
      · rename_i h; subst h; simp
      · simp only [List.mem_cons, ih]; tauto

theorem insertKey_sorted (t : Int) (l : List Int) (h : l.Pairwise (· < ·)) :
    (insertKey t l).Pairwise (· < ·) := by
  induction l with
  | nil => simp [insertKey]
  | cons k ks ih =>
    unfold insertKey
    have hk := List.pairwise_cons.mp h
    split
    · rename_i hlt
      refine List.pairwise_cons.mpr ⟨?_, h⟩
      intro x hx
      rcases List.mem_cons.mp hx with rfl | hx
      · exact hlt
      · exact lt_trans hlt (hk.1 x hx)
    · split
      · exact h
      · rename_i h1 h2
        refine List.pairwise_cons.mpr ⟨?_, ih hk.2⟩
        intro x hx
        rcases (mem_insertKey t x ks).mp hx with rfl | hx
        · omega
        · exact hk.1 x hx

theorem mem_unionKeys (a b : List Int) (x : Int) : x ∈ unionKeys a b ↔ x ∈ a ∨ x ∈ b := by
  unfold unionKeys
  induction b generalizing a with
  | nil => simp
  | cons t ts ih =>
    simp only [List.foldl_cons, ih, mem_insertKey, List.mem_cons]; tauto

theorem unionKeys_sorted (a b : List Int) (h : a.Pairwise (· < ·)) :
    (unionKeys a b).Pairwise (· < ·) := by
  unfold unionKeys
  induction b generalizing a with
  | nil => simpa
  | cons t ts ih => simp only [List.foldl_cons]; exact ih _ (insertKey_sorted t a h)

/-! ### pointwise combination over a key list -/

theorem keys_map_pair (U : List Int) (f : Int → Rat) : keys (U.map (fun t => (t, f t))) = U := by
  simp [keys, List.map_map, Function.comp_def]

theorem get_map_pair (U : List Int) (f : Int → Rat) (t : Int) :
    get (U.map (fun t => (t, f t))) t = if t ∈ U then f t else 0 := by
  induction U with
  | nil => simp
  | cons k ks ih =>
    simp only [List.map_cons, get_cons, ih, List.mem_cons]
    by_cases h : k = t
    · subst h; simp
    · have h' : ¬ t = k := fun e => h e.symm
      simp [h, h']

theorem total_map_pair (U : List Int) (f : Int → Rat) :
    total (U.map (fun t => (t, f t))) = (U.map f).sum := by
  simp [total, List.map_map, Function.comp_def]

/-! ### add (`df.add(other, fill_value=0)`) -/

theorem keys_add (a b : Series) : keys (add a b) = unionKeys (keys a) (keys b) := by
  unfold add; exact keys_map_pair _ _

/-- hourly series are added timestamp by timestamp, a missing hour counting as zero -/
theorem get_add (a b : Series) (t : Int) : get (add a b) t = get a t + get b t := by
  unfold add
  rw [get_map_pair]
  split
  · rfl
  · rename_i h
    rw [mem_unionKeys] at h
    push_neg at h
    rw [get_eq_zero_of_not_mem a t h.1, get_eq_zero_of_not_mem b t h.2]; simp

theorem sorted_add (a b : Series) (ha : Sorted a) : Sorted (add a b) := by
  unfold Sorted; rw [keys_add]; exact unionKeys_sorted _ _ ha

/-- totals add up -/
theorem total_add (a b : Series) (ha : Sorted a) (hb : (keys b).Nodup) :
    total (add a b) = total a + total b := by
  have hU : (unionKeys (keys a) (keys b)).Nodup :=
    (unionKeys_sorted _ _ ha).imp (fun h => ne_of_lt h)
  unfold add
  rw [total_map_pair]
  have : (unionKeys (keys a) (keys b)).map (fun t => get a t + get b t)
      = List.zipWith (· + ·) ((unionKeys (keys a) (keys b)).map (get a)) ((unionKeys (keys a) (keys b)).map (get b)) := by
    simp [List.zipWith_map]
  have hsum : ∀ (U : List Int) (f g : Int → Rat), (U.map (fun t => f t + g t)).sum = (U.map f).sum + (U.map g).sum := by
    intro U f g
    induction U with
    | nil => simp
    | cons x xs ih => simp only [List.map_cons, List.sum_cons, ih]; ring
  rw [hsum]
  rw [sum_get_superset a ha.nodup _ hU (fun t ht => (mem_unionKeys _ _ t).mpr (Or.inl ht)),
      sum_get_superset b hb _ hU (fun t ht => (mem_unionKeys _ _ t).mpr (Or.inr ht))]

theorem add_nil_right (a : Series) : keys (add a []) = keys a := by
  rw [keys_add]; rfl

/-! ### mapVals / scale / neg / shift -/

@[simp] theorem keys_mapVals (f : Rat → Rat) (a : Series) : keys (mapVals f a) = keys a := by
  simp [keys, mapVals, List.map_map, Function.comp_def]

theorem get_mapVals (f : Rat → Rat) (hf : f 0 = 0) (a : Series) (t : Int) :
    get (mapVals f a) t = f (get a t) := by
  induction a with
  | nil => simp [mapVals, hf]
  | cons p a ih =>
    obtain ⟨k, v⟩ := p
    have : mapVals f ((k, v) :: a) = (k, f v) :: mapVals f a := rfl
    rw [this, get_cons, get_cons, ih]
    split <;> rfl

@[simp] theorem keys_scale (c : Rat) (a : Series) : keys (scale c a) = keys a := keys_mapVals _ a

theorem get_scale (c : Rat) (a : Series) (t : Int) : get (scale c a) t = c * get a t := by
  unfold scale; rw [get_mapVals]; simp

theorem total_scale (c : Rat) (a : Series) : total (scale c a) = c * total a := by
  induction a with
  | nil => simp [scale, mapVals]
  | cons p a ih =>
    have : scale c (p :: a) = (p.1, c * p.2) :: scale c a := rfl
    rw [this, total_cons, total_cons, ih]; ring

theorem sorted_scale (c : Rat) (a : Series) (h : Sorted a) : Sorted (scale c a) := by
  unfold Sorted at *; rw [keys_scale]; exact h

theorem scale_one (a : Series) : scale 1 a = a := by
  induction a with
  | nil => rfl
  | cons p a ih =>
    have : scale 1 (p :: a) = (p.1, 1 * p.2) :: scale 1 a := rfl
    rw [this, ih]; simp

theorem keys_shift (k : Int) (a : Series) : keys (shift k a) = (keys a).map (· + 3600 * k) := by
  simp [keys, shift, List.map_map, Function.comp_def]

/-- shifting moves every value by whole hours: nothing is lost or duplicated -/
theorem total_shift (k : Int) (a : Series) : total (shift k a) = total a := by
  simp [shift, total, List.map_map, Function.comp_def]

theorem get_shift (k : Int) (a : Series) (t : Int) : get (shift k a) t = get a (t - 3600 * k) := by
  induction a with
  | nil => simp [shift]
  | cons p a ih =>
    obtain ⟨k', v⟩ := p
    have : shift k ((k', v) :: a) = (k' + 3600 * k, v) :: shift k a := rfl
    rw [this, get_cons, get_cons, ih]
    by_cases h : k' + 3600 * k = t
    · have : k' = t - 3600 * k := by omega
      simp [h, this]
    · have : ¬ k' = t - 3600 * k := by omega
      simp [h, this]

theorem sorted_shift (k : Int) (a : Series) (h : Sorted a) : Sorted (shift k a) := by
  unfold Sorted at *
  rw [keys_shift]
  exact List.Pairwise.map _ (fun x y hxy => by omega) h

theorem total_neg (a : Series) : total (neg a) = - total a := by
  induction a with
  | nil => simp [neg, mapVals]
  | cons p a ih =>
    have : neg (p :: a) = (p.1, -p.2) :: neg a := rfl
    rw [this, total_cons, total_cons, ih]; ring

end Series
end Efp

import Efp.Proofs.ChainAccepted
/-!
# Grouped updates: concatenated chains with only the last occurrence of each value kept

`ModelingUpdate` concatenates the update chains of all changed inputs and
`optimize_attr_updates_chain` keeps the **last** occurrence of every value.  This file proves that
the result is accepted by the verified checker whenever each individual chain is correct.
(Keeping the *first* occurrence instead is not: seed C01-a.)
-/
namespace Efp.Graph
open Efp.Theory

/-- `keepLast` on plain ids -/
def keepLastN : List Nat → List Nat
  | [] => []
  | x :: xs => if xs.contains x then keepLastN xs else x :: keepLastN xs

theorem any_fst_eq_contains (xs : List (Nat × Bool)) (a : Nat) :
    xs.any (fun y => y.1 == a) = (xs.map Prod.fst).contains a := by
  induction xs with
  | nil => rfl
  | cons y ys ih =>
    simp only [List.any_cons, List.map_cons, List.contains_cons, ih]
    congr 1
    by_cases h : y.1 = a
    · simp [h]
    · have h' : ¬ a = y.1 := fun e => h e.symm
      rw [beq_eq_false_iff_ne.mpr h, beq_eq_false_iff_ne.mpr h']

theorem keepLast_go_map_fst (l : List (Nat × Bool)) : (keepLast.go l).map Prod.fst = keepLastN (l.map Prod.fst) := by
  induction l with
  | nil => rfl
  | cons x xs ih =>
    unfold keepLast.go
    simp only [List.map_cons, keepLastN, any_fst_eq_contains]
    split <;> simp [ih]

theorem keepLast_map_fst (l : List (Nat × Bool)) : (keepLast l).map Prod.fst = keepLastN (l.map Prod.fst) :=
  keepLast_go_map_fst l

theorem Reach_lt (g : G) (hW : WF g) (u : Nat) (hu : u < g.size) (y : Nat) (h : Reach g u y) : y < g.size := by
  induction h with
  | child hc => exact (hW _ hu).2.1 _ hc
  | step hc _ ih => exact ih ((hW _ hu).2.1 _ hc)

theorem mem_keepLastN (l : List Nat) (x : Nat) : x ∈ keepLastN l ↔ x ∈ l := by
  induction l with
  | nil => simp [keepLastN]
  | cons y ys ih =>
    unfold keepLastN
    split
    · rename_i h
      have hy : y ∈ ys := by simpa using h
      rw [ih, List.mem_cons]
      constructor
      · exact Or.inr
      · rintro (rfl | h') <;> assumption
    · simp [ih]

theorem nodup_keepLastN (l : List Nat) : (keepLastN l).Nodup := by
  induction l with
  | nil => simp [keepLastN]
  | cons y ys ih =>
    unfold keepLastN
    split
    · exact ih
    · rename_i h
      have hy : y ∉ ys := by simpa using h
      exact List.nodup_cons.mpr ⟨fun h' => hy ((mem_keepLastN ys y).mp h'), ih⟩

/-- a chain without repetition keeps, in front of what follows, exactly its values that do not come back -/
theorem keepLastN_append (c r : List Nat) (hc : c.Nodup) :
    keepLastN (c ++ r) = c.filter (fun x => !r.contains x) ++ keepLastN r := by
  induction c with
  | nil => simp
  | cons x xs ih =>
    obtain ⟨hx, hxs⟩ := List.nodup_cons.mp hc
    simp only [List.cons_append, keepLastN, List.filter_cons]
    by_cases hr : x ∈ r
    · have h1 : (xs ++ r).contains x = true := by simp [hr]
      simp [hr, ih hxs]
    · have h1 : (xs ++ r).contains x = false := by simp [hx, hr]
      simp [hr, hx, ih hxs]

/-- with no repetition, `a` cannot be both before and after `b` -/
theorem nodup_not_both (l : List Nat) (hl : l.Nodup) (a b : Nat) (h1 : [a, b].Sublist l) (h2 : [b, a].Sublist l) : False := by
  induction l with
  | nil => cases h1
  | cons x xs ih =>
    obtain ⟨hx, hxs⟩ := List.nodup_cons.mp hl
    cases h1 with
    | cons _ h1' =>
      cases h2 with
      | cons _ h2' => exact ih hxs h1' h2'
      | cons_cons _ h2' =>
        -- x = b, [a] <+ xs, and [a, b] <+ xs gives b ∈ xs
        exact hx (h1'.subset (by simp))
    | cons_cons _ h1' =>
      -- x = a, [b] <+ xs
      cases h2 with
      | cons _ h2' => exact hx (h2'.subset (by simp))
      | cons_cons _ h2' => exact hx (h2'.subset (by simp))

/-- what `attrUpdatesChain_correct` gives for one changed input, on plain ids -/
structure ChainSpec (g : G) (u : Nat) (c : List Nat) : Prop where
  nodup : c.Nodup
  complete : ∀ y, Reach g u y → y ∈ c
  sound : ∀ y ∈ c, Reach g u y
  ordered : ∀ n ∈ c, ∀ m ∈ (g.node n).anc, m ∈ c → [m, n].Sublist c

theorem chainSpec_of_correct (g : G) (hwf : WF g) (fuel u : Nat) (hu : u < g.size)
    (hdepth : ∀ k a, ReachN g u k a → k ≤ fuel)
    (chain : List (Nat × Bool)) (h : attrUpdatesChain g fuel u = some chain) : ChainSpec g u (chain.map Prod.fst) := by
  obtain ⟨hnd, hcomp, hsound, hord⟩ := attrUpdatesChain_correct g hwf fuel u hu chain h
  refine ⟨hnd, hcomp, hsound, ?_⟩
  intro n hn m hm hmc
  obtain ⟨l₁, l₂, e⟩ := List.append_of_mem hn
  obtain ⟨k, hk⟩ := (hsound m hmc).reachN
  have hm1 : m ∈ l₁ := hord l₁ n l₂ e m hm k hk (hdepth k m hk)
  rw [e]
  have s1 : [m].Sublist l₁ := List.singleton_sublist.mpr hm1
  have s2 : [n].Sublist (n :: l₂) := List.singleton_sublist.mpr (by simp)
  exact s1.append s2

/-- merged order of several chains: every value after all its ancestors that are in the merged chain -/
theorem merged_ordered (g : G) (hB : ∀ x, x < g.size → ∀ a ∈ (g.node x).anc, x ∈ (g.node a).chi) (hW : WF g) :
    ∀ (ucs : List (Nat × List Nat)), (∀ p ∈ ucs, p.1 < g.size ∧ ChainSpec g p.1 p.2) →
      ∀ n ∈ keepLastN (ucs.map Prod.snd).flatten, ∀ m ∈ (g.node n).anc,
        m ∈ keepLastN (ucs.map Prod.snd).flatten → [m, n].Sublist (keepLastN (ucs.map Prod.snd).flatten) := by
  intro ucs
  induction ucs with
  | nil => intro _ n hn; simp [keepLastN] at hn
  | cons p ps ih =>
    intro hspec n hn m hm hmm
    have hp := hspec p (by simp)
    have hps : ∀ q ∈ ps, q.1 < g.size ∧ ChainSpec g q.1 q.2 := fun q hq => hspec q (by simp [hq])
    simp only [List.map_cons, List.flatten_cons] at hn hmm ⊢
    rw [keepLastN_append _ _ hp.2.nodup] at hn hmm ⊢
    obtain ⟨R, hR⟩ : ∃ R, R = (ps.map Prod.snd).flatten := ⟨_, rfl⟩
    rw [← hR] at hn hmm ⊢
    -- anything in R that has n among its descendants forces n into R
    have inR : ∀ x, x ∈ R → n ∈ (g.node x).chi → n ∈ R := by
      intro x hx hxc
      simp only [hR, List.mem_flatten, List.mem_map] at hx ⊢
      obtain ⟨c, ⟨q, hq, rfl⟩, hxq⟩ := hx
      exact ⟨q.2, ⟨q, hq, rfl⟩, (hps q hq).2.complete n (((hps q hq).2.sound x hxq).snoc hxc)⟩
    have hns : n < g.size := by
      rcases List.mem_append.mp hn with h | h
      · exact (Reach_lt g hW _ hp.1 _ (hp.2.sound n (List.mem_filter.mp h).1))
      · have := (mem_keepLastN R n).mp h
        simp only [hR, List.mem_flatten, List.mem_map] at this
        obtain ⟨c, ⟨q, hq, rfl⟩, hxq⟩ := this
        exact Reach_lt g hW _ (hps q hq).1 _ ((hps q hq).2.sound n hxq)
    rcases List.mem_append.mp hn with hnF | hnM
    · -- n survives in the first chain: it does not come back later
      obtain ⟨hnc, hnR⟩ := List.mem_filter.mp hnF
      have hnR' : n ∉ R := by simpa using hnR
      rcases List.mem_append.mp hmm with hmF | hmM
      · obtain ⟨hmc, hmR⟩ := List.mem_filter.mp hmF
        have sub := hp.2.ordered n hnc m hm hmc
        have := sub.filter (fun x => !R.contains x)
        simp only [List.filter_cons, hmR, hnR, if_true, List.filter_nil] at this
        exact this.trans (List.sublist_append_left _ _)
      · exact absurd (inR m ((mem_keepLastN R m).mp hmM) (hB n hns m hm)) hnR'
    · rcases List.mem_append.mp hmm with hmF | hmM
      · have s1 : [m].Sublist (p.2.filter (fun x => !R.contains x)) := List.singleton_sublist.mpr hmF
        have s2 : [n].Sublist (keepLastN R) := List.singleton_sublist.mpr hnM
        exact s1.append s2
      · rw [hR] at hnM hmM ⊢
        exact (ih hps n hnM m hm hmM).trans (List.sublist_append_right _ _)

/-- **the merged chain of a grouped update is accepted by the verified checker** -/
theorem merged_chain_accepted (g : G) (hW : WF g)
    (hB : ∀ x, x < g.size → ∀ a ∈ (g.node x).anc, x ∈ (g.node a).chi)
    (ucs : List (Nat × List Nat)) (hspec : ∀ p ∈ ucs, p.1 < g.size ∧ ChainSpec g p.1 p.2)
    (calcs : List Nat) (hcalcs : ∀ n ∈ calcs, n < g.size ∧ n ∉ ucs.map Prod.fst) :
    chainOk (fun n => (g.node n).anc) calcs (ucs.map Prod.fst) (keepLastN (ucs.map Prod.snd).flatten) = true := by
  have inM : ∀ x, x ∈ keepLastN (ucs.map Prod.snd).flatten ↔ ∃ p ∈ ucs, x ∈ p.2 := by
    intro x
    rw [mem_keepLastN]
    simp only [List.mem_flatten, List.mem_map]
    constructor
    · rintro ⟨c, ⟨p, hp, rfl⟩, hx⟩; exact ⟨p, hp, hx⟩
    · rintro ⟨p, hp, hx⟩; exact ⟨p.2, ⟨p, hp, rfl⟩, hx⟩
  simp only [chainOk, Bool.and_eq_true]
  refine ⟨⟨nodupOk_complete _ (nodup_keepLastN _), ?_⟩, ?_⟩
  · simp only [closedOk, List.all_eq_true, Bool.or_eq_true, List.contains_eq_mem, decide_eq_true_eq,
      Bool.and_eq_true, Bool.not_eq_true', decide_eq_false_iff_not]
    intro n hn
    obtain ⟨hns, hnu⟩ := hcalcs n hn
    by_cases hin : n ∈ keepLastN (ucs.map Prod.snd).flatten
    · exact Or.inl hin
    · refine Or.inr ⟨hnu, fun m hm => ⟨?_, ?_⟩⟩
      · intro hmu
        obtain ⟨p, hp, rfl⟩ := List.mem_map.mp hmu
        exact hin ((inM n).mpr ⟨p, hp, (hspec p hp).2.complete n (.child (hB n hns _ hm))⟩)
      · intro hmc
        obtain ⟨p, hp, hmp⟩ := (inM m).mp hmc
        exact hin ((inM n).mpr ⟨p, hp, (hspec p hp).2.complete n (((hspec p hp).2.sound m hmp).snoc (hB n hns m hm))⟩)
  · apply orderedOk_complete
    intro l₁ n l₂ e m hm
    have hnd := nodup_keepLastN (ucs.map Prod.snd).flatten
    have hn_in : n ∈ keepLastN (ucs.map Prod.snd).flatten := by rw [e]; simp
    have sub_nm : [n].Sublist (n :: l₂) := List.singleton_sublist.mpr (by simp)
    refine ⟨fun h2 => ?_, fun e2 => ?_⟩
    · have hm_in : m ∈ keepLastN (ucs.map Prod.snd).flatten := by rw [e]; simp [h2]
      have s1 := merged_ordered g hB hW ucs hspec n hn_in m hm hm_in
      have s2 : [n, m].Sublist (keepLastN (ucs.map Prod.snd).flatten) := by
        rw [e]
        have : [n, m].Sublist (n :: l₂) := (List.singleton_sublist.mpr h2).cons_cons n
        exact this.trans (List.sublist_append_right _ _)
      exact nodup_not_both _ hnd m n s1 s2
    · subst e2
      have s1 := merged_ordered g hB hW ucs hspec m hn_in m hm hn_in
      exact nodup_not_both _ hnd m m s1 s1

end Efp.Graph

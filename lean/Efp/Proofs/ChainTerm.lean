import Efp.Proofs.Chain
/-!
# Termination of the port of `attr_updates_chain`

On graphs without shared ids (`WF`) that are acyclic (`RankOK`: a rank function increasing along
child edges) and whose ancestor links are mirrored by child links, the work-list loops never raise
and never run out of fuel once the fuel exceeds `2·size + 1`: every pass of the `while` loop either
adds a value to the chain or retires a parent whose children are all added.
(With shared ids the same loop can spin forever: finding D13.)
-/
namespace Efp.Graph

def RankOK (g : G) (rk : Nat → Nat) : Prop := ∀ x, x < g.size → ∀ c ∈ (g.node x).chi, rk x < rk c

theorem reach_rank (g : G) (hW : WF g) (rk : Nat → Nat) (hR : RankOK g rk) :
    ∀ x y, Reach g x y → x < g.size → rk x < rk y := by
  intro x y h
  induction h with
  | child hc => intro hx; exact hR _ hx _ hc
  | step hc _ ih => intro hx; exact Nat.lt_trans (hR _ hx _ hc) (ih ((hW _ hx).2.1 _ hc))

theorem reach_lt (g : G) (hW : WF g) : ∀ x y, Reach g x y → x < g.size → y < g.size := by
  intro x y h
  induction h with
  | child hc => intro hx; exact (hW _ hx).2.1 _ hc
  | step hc _ ih => intro hx; exact ih ((hW _ hx).2.1 _ hc)

/-- the last edge of a path -/
theorem Reach.last {g : G} {x y : Nat} (h : Reach g x y) : ∃ q, (q = x ∨ Reach g x q) ∧ y ∈ (g.node q).chi := by
  induction h with
  | @child x c hc => exact ⟨x, Or.inl rfl, hc⟩
  | @step x c y hc _ ih =>
    obtain ⟨q, hq, hy⟩ := ih
    rcases hq with rfl | hq
    · exact ⟨q, Or.inr (.child hc), hy⟩
    · exact ⟨q, Or.inr (.step hc hq), hy⟩

theorem added_le (g : G) (u : Nat) (D : List Nat) (s : St) (hg : Good g u D s) : s.added.length ≤ g.size := by
  have := hg.nodup.length_le_of_subset (l₂ := List.range g.size)
    (fun x hx => List.mem_range.mpr (hg.reach x hx).2)
  simpa using this

def mu (n : Nat) (s : St) : Nat := 2 * (n - s.added.length) + s.cur.length

/-- nothing the loops scan has the edited value among its children -/
theorem no_self (g : G) (hW : WF g) (rk : Nat → Nat) (hR : RankOK g rk) (u : Nat) (hu : u < g.size)
    (D : List Nat) (s : St) (hg : Good g u D s) (p : Nat) (hp : p = u ∨ p ∈ s.added)
    (c : Nat) (hc : c ∈ (g.node p).chi) : c ≠ u := by
  intro e
  subst e
  rcases hp with rfl | hp
  · exact Nat.lt_irrefl _ (hR _ hu _ hc)
  · have h1 := reach_rank g hW rk hR _ _ (hg.reach p hp).1 hu
    have h2 := hR _ (hg.reach p hp).2 _ hc
    omega

/-- `c` can be appended in state `s`: everything it waits for is added -/
def Addable (g : G) (D : List Nat) (added : List Nat) (c : Nat) : Prop :=
  ∀ a ∈ (g.node c).anc, D.contains (g.node a).sid = true → a ∈ added

theorem childStep_term (g : G) (hW : WF g) (u : Nat) (D : List Nat) (p : Nat) (hp : p < g.size)
    (s : St) (d : Bool) (c : Nat) (hc : c ∈ (g.node p).chi) (hcu : c ≠ u)
    (hpu : p = u ∨ p ∈ s.added) (hg : Good g u D s) (he : s.err = false) :
    (childStep g u D (s, d) c).1.err = false ∧
    Good g u D (childStep g u D (s, d) c).1 ∧
    s.added <:+ (childStep g u D (s, d) c).1.added ∧
    s.iter <+: (childStep g u D (s, d) c).1.iter ∧
    (childStep g u D (s, d) c).1.iter.length + s.added.length ≤ s.iter.length + (childStep g u D (s, d) c).1.added.length ∧
    (∀ x ∈ s.cur, x ∈ (childStep g u D (s, d) c).1.cur) ∧
    mu g.size (childStep g u D (s, d) c).1 + ((childStep g u D (s, d) c).1.added.length - s.added.length) ≤ mu g.size s := by
  have hinv : Inv g u D s := Or.inr hg
  obtain ⟨h1, _, _, _⟩ := childStep_spec g hW u D p hp s d c hc (Or.inr hpu) hinv
  have hcs : c < g.size := (hW p hp).2.1 c hc
  have hsid : (g.node c).sid = c := (hW c hcs).1
  have hgood : (childStep g u D (s, d) c).1.err = false → Good g u D (childStep g u D (s, d) c).1 := by
    intro h
    rcases h1 with h' | h'
    · rw [h] at h'; cases h'
    · exact h'
  revert hgood
  unfold childStep
  simp only [hsid, beq_iff_eq, hcu, if_false]
  by_cases h2 : c ∈ s.added
  · simp only [List.contains_eq_mem, h2, decide_true, if_true]
    intro _
    exact ⟨he, hg, List.suffix_refl _, List.prefix_refl _, by omega, fun x hx => hx, by omega⟩
  · simp only [List.contains_eq_mem, h2, decide_false, if_false, Bool.false_eq_true]
    split
    · rename_i hall
      by_cases hlen : (g.node c).chi.length > 0
      · by_cases hsame : s.same = true
        · simp only [hlen, hsame, if_true]
          intro hgood
          have hg' := hgood he
          have hle := added_le g u D _ hg'
          simp only [List.length_cons] at hle
          refine ⟨he, hg', ⟨[c], rfl⟩, ⟨[c], rfl⟩, by simp; omega, fun x hx => by simp [hx], ?_⟩
          simp only [mu, List.length_cons, List.length_append, List.length_nil]
          omega
        · have hs : s.same = false := by simpa using hsame
          simp only [hlen, hs, if_true, Bool.false_eq_true, if_false]
          intro hgood
          have hg' := hgood he
          have hle := added_le g u D _ hg'
          simp only [List.length_cons] at hle
          refine ⟨he, hg', ⟨[c], rfl⟩, List.prefix_refl _, by simp, fun x hx => by simp [hx], ?_⟩
          simp only [mu, List.length_cons, List.length_append, List.length_nil]
          omega
      · simp only [hlen, if_false]
        intro hgood
        have hg' := hgood he
        have hle := added_le g u D _ hg'
        simp only [List.length_cons] at hle
        refine ⟨he, hg', ⟨[c], rfl⟩, List.prefix_refl _, by simp, fun x hx => hx, ?_⟩
        simp only [mu, List.length_cons]
        omega
    · rename_i hall
      intro _
      exact ⟨he, hg, List.suffix_refl _, List.prefix_refl _, by simp, fun x hx => hx, by simp⟩

theorem childStep_same (g : G) (u : Nat) (D : List Nat) (s : St) (d : Bool) (c : Nat)
    (hsid : (g.node c).sid = c) (hcu : c ≠ u) (h : c ∈ s.added) : childStep g u D (s, d) c = (s, d) := by
  unfold childStep
  simp [hsid, hcu, h]

theorem childStep_adds (g : G) (hW : WF g) (u : Nat) (D : List Nat) (s : St) (d : Bool) (c : Nat)
    (hcs : c < g.size) (hcu : c ≠ u) (h : c ∉ s.added) (hadd : Addable g D s.added c) :
    s.added.length < (childStep g u D (s, d) c).1.added.length := by
  have hsid : (g.node c).sid = c := (hW c hcs).1
  have hall : ((g.node c).anc.filter (fun a => D.contains (g.node a).sid)).all
      (fun a => s.added.contains (g.node a).sid) = true := by
    rw [List.all_eq_true]
    intro a ha
    obtain ⟨ha1, ha2⟩ := List.mem_filter.mp ha
    have ha' : a < g.size := (hW c hcs).2.2 a ha1
    have := hadd a ha1 ha2
    rw [(hW a ha').1]
    simpa using this
  unfold childStep
  simp only [hsid, beq_iff_eq, hcu, if_false, List.contains_eq_mem, h, decide_false, Bool.false_eq_true]
  simp only [List.contains_eq_mem] at hall
  rw [if_pos hall]
  split
  · split <;> simp
  · simp

theorem fold_term (g : G) (hW : WF g) (rk : Nat → Nat) (hR : RankOK g rk) (u : Nat) (hu : u < g.size)
    (D : List Nat) (p : Nat) (hp : p < g.size) (cs : List Nat) (hcs : ∀ c ∈ cs, c ∈ (g.node p).chi) :
    ∀ (s : St) (d : Bool), (p = u ∨ p ∈ s.added) → Good g u D s → s.err = false →
    (cs.foldl (childStep g u D) (s, d)).1.err = false ∧
    Good g u D (cs.foldl (childStep g u D) (s, d)).1 ∧
    s.added <:+ (cs.foldl (childStep g u D) (s, d)).1.added ∧
    s.iter <+: (cs.foldl (childStep g u D) (s, d)).1.iter ∧
    (cs.foldl (childStep g u D) (s, d)).1.iter.length + s.added.length ≤
      s.iter.length + (cs.foldl (childStep g u D) (s, d)).1.added.length ∧
    (∀ x ∈ s.cur, x ∈ (cs.foldl (childStep g u D) (s, d)).1.cur) ∧
    mu g.size (cs.foldl (childStep g u D) (s, d)).1 +
      ((cs.foldl (childStep g u D) (s, d)).1.added.length - s.added.length) ≤ mu g.size s ∧
    ((∃ c ∈ cs, c ∉ s.added ∧ Addable g D s.added c) →
      s.added.length < (cs.foldl (childStep g u D) (s, d)).1.added.length) ∧
    ((∀ c ∈ cs, c ∈ s.added) → cs.foldl (childStep g u D) (s, d) = (s, d)) := by
  induction cs with
  | nil =>
    intro s d _ hg he
    refine ⟨he, hg, List.suffix_refl _, List.prefix_refl _, by simp, fun x hx => hx, by simp, ?_, fun _ => rfl⟩
    rintro ⟨c, hc, _⟩
    cases hc
  | cons c cs ih =>
    intro s d hpu hg he
    simp only [List.foldl_cons]
    have hc : c ∈ (g.node p).chi := hcs c (by simp)
    have hcu : c ≠ u := no_self g hW rk hR u hu D s hg p hpu c hc
    have hcsz : c < g.size := (hW p hp).2.1 c hc
    obtain ⟨a1, a2, a3, a4, a4', a5, a6⟩ := childStep_term g hW u D p hp s d c hc hcu hpu hg he
    have a7 := childStep_adds g hW u D s d c hcsz hcu
    have a8 := childStep_same g u D s d c (hW c hcsz).1 hcu
    rcases hst : childStep g u D (s, d) c with ⟨s1, d1⟩
    rw [hst] at a1 a2 a3 a4 a4' a5 a6 a7 a8
    simp only at a1 a2 a3 a4 a4' a5 a6 a7 a8
    have hpu1 : p = u ∨ p ∈ s1.added := hpu.imp id (fun h => a3.subset h)
    obtain ⟨b1, b2, b3, b4, b4', b5, b6, b7, b8⟩ := ih (fun c' hc' => hcs c' (by simp [hc'])) s1 d1 hpu1 a2 a1
    have l1 := a3.length_le
    have l2 := b3.length_le
    refine ⟨b1, b2, a3.trans b3, a4.trans b4, by omega, fun x hx => b5 x (a5 x hx), by omega, ?_, ?_⟩
    · rintro ⟨c', hc', hn, hadd⟩
      rcases List.mem_cons.mp hc' with rfl | hc''
      · have := a7 hn hadd
        omega
      · by_cases hl : s1.added.length = s.added.length
        · have heq : s.added = s1.added := a3.eq_of_length hl.symm
          have := b7 ⟨c', hc'', by rw [← heq]; exact hn, by rw [← heq]; exact hadd⟩
          omega
        · omega
    · intro hall
      have e1 := a8 (hall c (by simp))
      obtain ⟨rfl, rfl⟩ := Prod.mk.inj e1
      exact b8 (fun c' hc' => hall c' (by simp [hc']))

theorem forLoop_term (g : G) (hW : WF g) (rk : Nat → Nat) (hR : RankOK g rk) (u : Nat) (hu : u < g.size)
    (D : List Nat) (fuel : Nat) :
    ∀ (i : Nat) (s : St), Good g u D s → s.err = false →
    (s.iter.length - i) + (g.size - s.added.length) + 1 ≤ fuel →
    (forLoop g u D fuel i s).err = false ∧
    Good g u D (forLoop g u D fuel i s) ∧
    s.added <:+ (forLoop g u D fuel i s).added ∧
    mu g.size (forLoop g u D fuel i s) + ((forLoop g u D fuel i s).added.length - s.added.length) ≤ mu g.size s ∧
    (∀ j (hj : j < s.iter.length), i ≤ j → ∀ z ∈ (g.node s.iter[j]).chi, z ∉ s.added → Addable g D s.added z →
      s.added.length < (forLoop g u D fuel i s).added.length) ∧
    (∀ (hi : i < s.iter.length), s.iter[i] ∈ s.cur → (∀ c ∈ (g.node s.iter[i]).chi, c ∈ s.added) →
      mu g.size (forLoop g u D fuel i s) < mu g.size s) := by
  induction fuel with
  | zero => intro i s _ _ h; omega
  | succ fuel ih =>
    intro i s hg he hf
    unfold forLoop
    split
    · rename_i hi
      obtain ⟨hp, hpu⟩ := hg.iterOk s.iter[i] (List.getElem_mem hi)
      obtain ⟨_, _, _, f4⟩ := fold_spec g hW u D s.iter[i] hp (g.node s.iter[i]).chi (fun c hc => hc) s true
        (Or.inr hpu) (Or.inr hg)
      obtain ⟨b1, b2, b3, b4, b4', b5, b6, b7, b8⟩ := fold_term g hW rk hR u hu D s.iter[i] hp
        (g.node s.iter[i]).chi (fun c hc => hc) s true hpu hg he
      dsimp only
      rcases hst : List.foldl (childStep g u D) (s, true) (g.node s.iter[i]).chi with ⟨s1, d1⟩
      rw [hst] at f4 b1 b2 b3 b4 b4' b5 b6 b7 b8
      simp only at f4 b1 b2 b3 b4 b4' b5 b6 b7 b8 ⊢
      have hle1 := added_le g u D s1 b2
      have l1 := b3.length_le
      -- the state after the optional drop
      have hs2 : ∃ s2 : St, s2 = (if d1 = true then { s1 with cur := s1.cur.filter (fun x => (g.node x).sid != (g.node s.iter[i]).sid), same := false } else s1) ∧
          Good g u D s2 ∧ s2.err = false ∧ s2.added = s1.added ∧ s2.iter = s1.iter ∧ s2.cur.length ≤ s1.cur.length ∧
          (d1 = true → s.iter[i] ∈ s1.cur → s2.cur.length < s1.cur.length) := by
        refine ⟨_, rfl, ?_⟩
        by_cases hd : d1 = true
        · simp only [hd, if_true]
          have hall : ∀ c ∈ (g.node s.iter[i]).chi, c ∈ s1.added := by
            rcases (f4 hd).2 with h | h
            · rw [b1] at h; cases h
            · exact h
          refine ⟨⟨b2.chain_eq, b2.nodup, b2.ord, b2.reach, ?_, ?_, b2.iterOk⟩, b1, by simp, by simp, List.length_filter_le _ _, ?_⟩
          · intro x hx ⟨dd, hd', hdn⟩
            have hxc := b2.pending x hx ⟨dd, hd', hdn⟩
            refine List.mem_filter.mpr ⟨hxc, ?_⟩
            have hxs := (b2.curOk x hxc).1
            rw [(hW x hxs).1, (hW _ hp).1]
            simp only [bne_iff_ne, ne_eq]
            intro e
            subst e
            exact hdn (hall dd hd')
          · intro x hx
            exact b2.curOk x (List.mem_filter.mp hx).1
          · intro _ hin
            apply List.length_filter_lt_length_iff_exists.mpr
            exact ⟨_, hin, by simp⟩
        · have hd' : d1 = false := by simpa using hd
          simp only [hd', Bool.false_eq_true, if_false]
          exact ⟨b2, b1, by simp, by simp, Nat.le_refl _, fun h => by cases h⟩
      obtain ⟨s2, hs2eq, g2, e2, ha2, hi2, hc2, hdrop⟩ := hs2
      rw [← hs2eq]
      have hf2 : (s2.iter.length - (i + 1)) + (g.size - s2.added.length) + 1 ≤ fuel := by
        rw [ha2, hi2]; omega
      obtain ⟨c1, c2, c3, c4, c5, c6⟩ := ih (i + 1) s2 g2 e2 hf2
      have l2 := c3.length_le
      rw [ha2] at c3 c4 c5 l2
      have hmu21 : mu g.size s2 ≤ mu g.size s1 := by simp only [mu, ha2]; omega
      refine ⟨c1, c2, b3.trans c3, by omega, ?_, ?_⟩
      · intro j hj hij z hz hzn hadd
        rcases Nat.eq_or_lt_of_le hij with rfl | hlt
        · have := b7 ⟨z, hz, hzn, hadd⟩
          omega
        · by_cases hl : s1.added.length = s.added.length
          · have heq : s.added = s1.added := b3.eq_of_length hl.symm
            have hj2 : j < s2.iter.length := by rw [hi2]; exact Nat.lt_of_lt_of_le hj b4.length_le
            have hget : s2.iter[j] = s.iter[j] := by
              have := b4.getElem hj
              simp only [hi2]
              exact this.symm
            have := c5 j hj2 (by omega) z (by rw [hget]; exact hz) (by rw [← heq]; exact hzn) (by rw [← heq]; exact hadd)
            omega
          · omega
      · intro _ hin hall
        have e1 := b8 hall
        obtain ⟨rfl, rfl⟩ := Prod.mk.inj e1
        have := hdrop rfl hin
        have hmu : mu g.size s2 < mu g.size s1 := by simp only [mu, ha2]; omega
        omega
    · rename_i hi
      refine ⟨he, hg, List.suffix_refl _, by simp, ?_, ?_⟩
      · intro j hj hij; omega
      · intro hi'; omega

/-! ## `all_descendants_with_id` returns descendants only -/

theorem descAux_sound (g : G) (f : Nat) :
    ∀ x acc d, d ∈ descAux g f x acc → d ∈ acc ∨ Reach g x d := by
  induction f with
  | zero => intro x acc d h; exact Or.inl h
  | succ f ih =>
    intro x acc d h
    simp only [descAux] at h
    have key : ∀ (cs : List Nat), (∀ c ∈ cs, c ∈ (g.node x).chi) → ∀ acc', (∀ d ∈ acc', d ∈ acc ∨ Reach g x d) →
        ∀ d ∈ cs.foldl (fun acc c =>
          descAux g f c (if acc.any (fun d => (g.node d).sid == (g.node c).sid) then acc else acc ++ [c])) acc',
          d ∈ acc ∨ Reach g x d := by
      intro cs
      induction cs with
      | nil => intro _ acc' h' d hd; exact h' d hd
      | cons c cs ih2 =>
        intro hcs acc' h' d hd
        simp only [List.foldl_cons] at hd
        have hc : c ∈ (g.node x).chi := hcs c (by simp)
        apply ih2 (fun c' hc' => hcs c' (by simp [hc'])) _ _ d hd
        intro d' hd'
        rcases ih c _ d' hd' with h1 | h1
        · split at h1
          · exact h' d' h1
          · rcases List.mem_append.mp h1 with h2 | h2
            · exact h' d' h2
            · simp only [List.mem_singleton] at h2
              subst h2
              exact Or.inr (.child hc)
        · exact Or.inr (.step hc h1)
    exact key _ (fun c hc => hc) acc (fun d hd => Or.inl hd) d h

theorem allDescendants_sound (g : G) (hW : WF g) (f u : Nat) (hu : u < g.size) (a : Nat) (ha : a < g.size)
    (h : ((allDescendants g f u).map (fun d => (g.node d).sid)).contains (g.node a).sid = true) : Reach g u a := by
  simp only [List.contains_eq_mem, List.mem_map, decide_eq_true_eq] at h
  obtain ⟨d, hd, hs⟩ := h
  rcases descAux_sound g f u [] d hd with h1 | h1
  · cases h1
  · have hdlt := reach_lt g hW u d h1 hu
    rw [(hW d hdlt).1, (hW a ha).1] at hs
    subst hs
    exact h1

theorem exists_min (P : Nat → Prop) (rk : Nat → Nat) : ∀ b z, P z → rk z ≤ b → ∃ m, P m ∧ ∀ y, P y → rk m ≤ rk y := by
  intro b
  induction b with
  | zero => intro z hz hb; exact ⟨z, hz, fun y _ => by omega⟩
  | succ b ih =>
    intro z hz hb
    by_cases h : ∃ y, P y ∧ rk y ≤ b
    · obtain ⟨y, hy, hyb⟩ := h
      exact ih y hy hyb
    · refine ⟨z, hz, fun y hy => ?_⟩
      have : ¬ rk y ≤ b := fun hyb => h ⟨y, hy, hyb⟩
      omega

theorem whileLoop_term (g : G) (hW : WF g) (rk : Nat → Nat) (hR : RankOK g rk)
    (hB : ∀ x, x < g.size → ∀ a ∈ (g.node x).anc, x ∈ (g.node a).chi)
    (u : Nat) (hu : u < g.size) (D : List Nat)
    (hD : ∀ a, a < g.size → D.contains (g.node a).sid = true → Reach g u a) (fuel : Nat) :
    ∀ (s : St), Good g u D s → s.err = false → mu g.size s + 1 ≤ fuel → (whileLoop g u D fuel s).err = false := by
  induction fuel with
  | zero => intro s _ _ h; omega
  | succ fuel ih =>
    intro s hg he hf
    unfold whileLoop
    split
    · rename_i h; rw [he] at h; cases h
    split
    · exact he
    · rename_i hne
      have hg0 : Good g u D { s with iter := s.cur, same := true } :=
        ⟨hg.chain_eq, hg.nodup, hg.ord, hg.reach, hg.pending, hg.curOk, hg.curOk⟩
      have hf0 : (s.cur.length - 0) + (g.size - s.added.length) + 1 ≤ fuel + 1 := by
        simp only [mu] at hf; omega
      obtain ⟨c1, c2, c3, c4, c5, c6⟩ := forLoop_term g hW rk hR u hu D (fuel + 1) 0
        { s with iter := s.cur, same := true } hg0 he hf0
      simp only at c3 c4 c5 c6
      have hmu0 : mu g.size { s with iter := s.cur, same := true } = mu g.size s := rfl
      rw [hmu0] at c4 c6
      apply ih _ c2 c1
      have l3 := c3.length_le
      by_cases hk : s.added.length < (forLoop g u D (fuel + 1) 0 { s with iter := s.cur, same := true }).added.length
      · omega
      · -- no value was added during the pass: then the first parent scanned is retired
        have hcur : 0 < s.cur.length := by
          cases hc : s.cur with
          | nil => simp [hc] at hne
          | cons _ _ => simp
        have hall : ∀ c ∈ (g.node s.cur[0]).chi, c ∈ s.added := by
          intro c hc
          by_cases hca : c ∈ s.added
          · exact hca
          · exfalso
            apply hk
            obtain ⟨hp0, hpu0⟩ := hg.curOk s.cur[0] (List.getElem_mem hcur)
            have hrc : Reach g u c := by
              rcases hpu0 with e | h
              · rw [e] at hc; exact .child hc
              · exact (hg.reach _ h).1.snoc hc
            obtain ⟨z, ⟨hz1, hz2⟩, hmin⟩ := exists_min (fun y => Reach g u y ∧ y ∉ s.added) rk (rk c) c ⟨hrc, hca⟩ (Nat.le_refl _)
            have hzs : z < g.size := reach_lt g hW u z hz1 hu
            obtain ⟨q, hq, hzq⟩ := hz1.last
            have hq' : q = u ∨ q ∈ s.added := by
              rcases hq with e | hrq
              · exact Or.inl e
              · by_cases hqa : q ∈ s.added
                · exact Or.inr hqa
                · exfalso
                  have h1 := hmin q ⟨hrq, hqa⟩
                  have h2 := hR q (reach_lt g hW u q hrq hu) z hzq
                  omega
            have hqcur : q ∈ s.cur := hg.pending q hq' ⟨z, hzq, hz2⟩
            obtain ⟨j, hj, hjq⟩ := List.mem_iff_getElem.mp hqcur
            have hadd : Addable g D s.added z := by
              intro a ha hDa
              have has : a < g.size := (hW z hzs).2.2 a ha
              by_cases haa : a ∈ s.added
              · exact haa
              · exfalso
                have hra := hD a has hDa
                have h1 := hmin a ⟨hra, haa⟩
                have h2 := hR a has z (hB z hzs a ha)
                omega
            exact c5 j hj (Nat.zero_le _) z (by rw [hjq]; exact hzq) hz2 hadd
        have := c6 hcur (List.getElem_mem hcur) hall
        omega

/-- **termination**: on an acyclic graph without shared ids and with mirrored links, the port of
`attr_updates_chain` returns a chain as soon as the fuel exceeds `2·size + 1` -/
theorem attrUpdatesChain_terminates (g : G) (hW : WF g) (rk : Nat → Nat) (hR : RankOK g rk)
    (hB : ∀ x, x < g.size → ∀ a ∈ (g.node x).anc, x ∈ (g.node a).chi)
    (fuel u : Nat) (hu : u < g.size) (hfuel : 2 * g.size + 2 ≤ fuel) :
    ∃ chain, attrUpdatesChain g fuel u = some chain := by
  unfold attrUpdatesChain
  simp only
  rw [(hW u hu).1]
  have hg0 : Good g u ((allDescendants g fuel u).map (fun d => (g.node d).sid))
      { added := [], chain := [], cur := [u], iter := [], same := false } := by
    refine ⟨rfl, List.nodup_nil, trivial, (fun c hc => by cases hc), ?_, ?_, (fun x hx => by cases hx)⟩
    · intro x hx _
      rcases hx with rfl | hx
      · simp
      · cases hx
    · intro x hx
      simp only [List.mem_singleton] at hx
      subst hx
      exact ⟨hu, Or.inl rfl⟩
  have := whileLoop_term g hW rk hR hB u hu _ (fun a ha h => allDescendants_sound g hW fuel u hu a ha h) fuel
    { added := [], chain := [], cur := [u], iter := [], same := false } hg0 rfl (by simp [mu]; omega)
  rw [this]
  exact ⟨_, rfl⟩

theorem rankOk_RankOK (g : G) (rk : Array Nat) (bound : Nat) (h : rankOk g rk bound = true) :
    RankOK g (fun x => rk[x]!) := by
  intro x hx c hc
  simp only [rankOk, List.all_eq_true, List.mem_range, Bool.and_eq_true, decide_eq_true_eq] at h
  exact (h x hx).2 c hc

end Efp.Graph

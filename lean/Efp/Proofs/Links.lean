import Efp.Model.Links
/-!
# Model F: every bookkeeping operation keeps the dependency links mirrored

`Mirror`: every attached value is listed as a child by each of its recorded ancestors; every listed
child is attached and lists the parent among its ancestors.  `Uniq`: at most one attached value per
slot (ids are unique).  Both are preserved by `set_modeling_obj_container` in either direction,
hence by `ModelingObject.__setattr__` and by
`replace_in_mod_obj_container_without_recomputation` — for every state, every value, every slot.
-/
namespace Efp.Links

def Mirror (s : LS) : Prop :=
  (∀ v, s.attached v = true → ∀ a ∈ (s.get v).anc, v ∈ (s.get a).chi) ∧
  (∀ a, ∀ c ∈ (s.get a).chi, s.attached c = true ∧ a ∈ (s.get c).anc)

def Uniq (s : LS) : Prop :=
  ∀ w w' sl, (s.get w).cont = some sl → (s.get w').cont = some sl → w = w'

@[simp] theorem get_setV (s : LS) (v w : Nat) (f : LV → LV) :
    (s.setV v f).get w = if w = v then f (s.get w) else s.get w := rfl

theorem foldlM_ok_eq_foldl {α β : Type} (f : β → α → LM β) (g : β → α → β)
    (h : ∀ b a b', f b a = .ok b' → b' = g b a) (l : List α) :
    ∀ b b', l.foldlM f b = .ok b' → b' = l.foldl g b := by
  induction l with
  | nil => intro b b' e; simp [List.foldlM] at e; cases e; rfl
  | cons a as ih =>
    intro b b' e
    simp only [List.foldlM_cons] at e
    cases hf : f b a with
    | error x => rw [hf] at e; cases e
    | ok b1 =>
      rw [hf] at e
      have := h b a b1 hf
      subst this
      exact ih _ _ e

/-! ## removing a value from its ancestors' children -/

/-- pure effect of the removal loop of `set_modeling_obj_container` -/
def removeAll (s : LS) (ancs : List Nat) (sid : Slot) : LS := ancs.foldl (fun st a => removeChildP st a sid) s

theorem removeAll_get (ancs : List Nat) (sid : Slot) : ∀ (s : LS) (w : Nat),
    (removeAll s ancs sid).get w =
      if w ∈ ancs then { s.get w with chi := (s.get w).chi.filter (fun c => (s.get c).cont != some sid) }
      else s.get w := by
  induction ancs with
  | nil => intro s w; simp [removeAll]
  | cons a as ih =>
    intro s w
    simp only [removeAll, List.foldl_cons] at ih ⊢
    rw [ih]
    have hc : ∀ c, ((removeChildP s a sid).get c).cont = (s.get c).cont := by
      intro c
      simp only [removeChildP, get_setV]
      split <;> rfl
    simp only [hc]
    by_cases hwa : w = a
    · subst hwa
      by_cases hw : w ∈ as
      · simp [hw, removeChildP, List.filter_filter]
      · simp [hw, removeChildP]
    · by_cases hw : w ∈ as
      · simp [hw, hwa, removeChildP]
      · simp [hw, hwa, removeChildP]

theorem removeAll_slots (ancs : List Nat) (sid : Slot) : ∀ (s : LS),
    (removeAll s ancs sid).slots = s.slots ∧ (removeAll s ancs sid).size = s.size := by
  induction ancs with
  | nil => intro s; exact ⟨rfl, rfl⟩
  | cons a as ih =>
    intro s
    simp only [removeAll, List.foldl_cons] at ih ⊢
    exact ih _

/-! ## adding a value to its ancestors' children -/

def addAll (s : LS) (ancs : List Nat) (v : Nat) (vid : Slot) : LS := ancs.foldl (fun st a => addChildP st a v vid) s

theorem addChildP_cont (s : LS) (a v : Nat) (vid : Slot) (c : Nat) :
    ((addChildP s a v vid).get c).cont = (s.get c).cont := by
  unfold addChildP
  split
  · rfl
  · simp only [get_setV]; split <;> rfl

theorem addAll_cont (ancs : List Nat) (v : Nat) (vid : Slot) : ∀ (s : LS) (c : Nat),
    ((addAll s ancs v vid).get c).cont = (s.get c).cont := by
  induction ancs with
  | nil => intro s c; rfl
  | cons a as ih =>
    intro s c
    simp only [addAll, List.foldl_cons] at ih ⊢
    rw [ih, addChildP_cont]

theorem addAll_anc (ancs : List Nat) (v : Nat) (vid : Slot) : ∀ (s : LS) (c : Nat),
    ((addAll s ancs v vid).get c).anc = (s.get c).anc := by
  induction ancs with
  | nil => intro s c; rfl
  | cons a as ih =>
    intro s c
    simp only [addAll, List.foldl_cons] at ih ⊢
    rw [ih]
    unfold addChildP
    split
    · rfl
    · simp only [get_setV]; split <;> rfl

theorem addAll_slots (ancs : List Nat) (v : Nat) (vid : Slot) : ∀ (s : LS),
    (addAll s ancs v vid).slots = s.slots ∧ (addAll s ancs v vid).size = s.size := by
  induction ancs with
  | nil => intro s; exact ⟨rfl, rfl⟩
  | cons a as ih =>
    intro s
    simp only [addAll, List.foldl_cons] at ih ⊢
    obtain ⟨h1, h2⟩ := ih (addChildP s a v vid)
    refine ⟨h1.trans ?_, h2.trans ?_⟩ <;> (unfold addChildP; split <;> rfl)

/-- children after the adding loop: unchanged outside `ancs`; inside, `v` is appended unless a child
with the same id is already listed -/
theorem addAll_chi (ancs : List Nat) (v : Nat) (vid : Slot) : ∀ (s : LS), (s.get v).cont = some vid → ∀ (w : Nat),
    ((addAll s ancs v vid).get w).chi =
      if w ∈ ancs ∧ ¬ (s.get w).chi.any (fun c => (s.get c).cont == some vid) = true then (s.get w).chi ++ [v]
      else (s.get w).chi := by
  induction ancs with
  | nil => intro s _ w; simp [addAll]
  | cons a as ih =>
    intro s hv w
    simp only [addAll, List.foldl_cons] at ih ⊢
    have hv1 : ((addChildP s a v vid).get v).cont = some vid := by rw [addChildP_cont]; exact hv
    rw [ih _ hv1]
    simp only [addChildP_cont]
    by_cases hany : (s.get a).chi.any (fun c => (s.get c).cont == some vid) = true
    · -- nothing happens at `a`
      have e : addChildP s a v vid = s := by unfold addChildP; rw [if_pos hany]
      rw [e]
      by_cases hwa : w = a
      · subst hwa
        simp [hany]
      · simp [hwa]
    · have e : addChildP s a v vid = s.setV a (fun x => { x with chi := x.chi ++ [v] }) := by
        unfold addChildP; rw [if_neg hany]
      rw [e]
      by_cases hwa : w = a
      · subst hwa
        have : ((s.get w).chi ++ [v]).any (fun c => (s.get c).cont == some vid) = true := by
          simp [hv]
        simp [this, hany]
      · simp [hwa]

/-! ## `set_modeling_obj_container` as a pure function -/

def addStep (v : Nat) (st : LS) (a : Nat) : LS :=
  match (st.get v).cont with
  | some vid => addChildP st a v vid
  | none => st

theorem fold_addStep (v : Nat) (n : Slot) (ancs : List Nat) : ∀ (st : LS), (st.get v).cont = some n →
    ancs.foldl (addStep v) st = addAll st ancs v n := by
  induction ancs with
  | nil => intro st _; rfl
  | cons a as ih =>
    intro st h
    simp only [List.foldl_cons, addAll]
    have e : addStep v st a = addChildP st a v n := by simp [addStep, h]
    rw [e]
    exact ih _ (by rw [addChildP_cont]; exact h)

def setContainerP (s : LS) (v : Nat) (new : Option Slot) : LS :=
  let s1 := match (s.get v).cont with
    | some c => removeAll s (s.get v).anc c
    | none => s
  let s2 := s1.setV v (fun x => { x with cont := new })
  match new with
  | some n => addAll s2 (s2.get v).anc v n
  | none => s2

theorem removeLoop_ok (ancs : List Nat) (sid : Slot) (s s' : LS) (h : removeLoop s ancs sid = .ok s') :
    s' = removeAll s ancs sid :=
  foldlM_ok_eq_foldl _ (fun st a => removeChildP st a sid)
    (fun b a b' hb => by
      unfold removeChild at hb
      split at hb
      · cases hb; rfl
      · cases hb) _ _ _ h

theorem addLoop_ok (ancs : List Nat) (v : Nat) (n : Slot) (s s' : LS) (hv : (s.get v).cont = some n)
    (h : addLoop s ancs v = .ok s') : s' = addAll s ancs v n := by
  have := foldlM_ok_eq_foldl (fun st a => addChild st a v) (addStep v)
    (fun b a b' hb => by
      unfold addChild at hb
      unfold addStep
      split at hb
      · cases hb
      · rename_i vid hv'
        rw [hv']
        split at hb
        · cases hb; rfl
        · cases hb) _ _ _ h
  rw [this, fold_addStep v n _ _ hv]

theorem setContainer_ok (s : LS) (v : Nat) (new : Option Slot) (s' : LS)
    (h : setContainer s v new = .ok s') : s' = setContainerP s v new := by
  unfold setContainer at h
  split at h
  · cases h
  split at h
  · cases h
  rename_i s1 hs1
  have e1 : s1 = (match (s.get v).cont with
      | some c => removeAll s (s.get v).anc c
      | none => s) := by
    cases hc : (s.get v).cont with
    | none => rw [hc] at hs1; cases hs1; rfl
    | some c => rw [hc] at hs1; exact removeLoop_ok _ _ _ _ hs1
  unfold setContainerP
  simp only
  rw [← e1]
  simp only at h
  cases new with
  | some n => exact addLoop_ok _ v n _ _ (by simp) h
  | none => cases h; rfl

/-! ## detaching keeps the links mirrored -/

theorem attached_iff (s : LS) (v : Nat) : s.attached v = true ↔ ∃ sl, (s.get v).cont = some sl := by
  unfold LS.attached
  cases (s.get v).cont <;> simp

theorem detachP_fields (s : LS) (v : Nat) (w : Nat) :
    ((setContainerP s v none).get w).cont = (if w = v then none else (s.get w).cont) ∧
    ((setContainerP s v none).get w).anc = (s.get w).anc ∧
    ((setContainerP s v none).get w).chi =
      (match (s.get v).cont with
       | some c => if w ∈ (s.get v).anc then (s.get w).chi.filter (fun c' => (s.get c').cont != some c) else (s.get w).chi
       | none => (s.get w).chi) ∧
    (setContainerP s v none).slots = s.slots ∧ (setContainerP s v none).size = s.size := by
  unfold setContainerP
  cases hc : (s.get v).cont with
  | none =>
    simp only [get_setV]
    refine ⟨?_, ?_, ?_, rfl, rfl⟩ <;> (split <;> simp_all)
  | some c =>
    simp only [get_setV, removeAll_get]
    obtain ⟨h1, h2⟩ := removeAll_slots (s.get v).anc c s
    refine ⟨?_, ?_, ?_, h1, h2⟩
    · by_cases hw : w = v
      · simp [hw]
      · simp only [hw, if_false]; split <;> rfl
    · by_cases hw : w = v
      · subst hw; simp only [if_true]; split <;> rfl
      · simp only [hw, if_false]; split <;> rfl
    · by_cases hw : w = v
      · subst hw; simp only [if_true]; split <;> rfl
      · simp only [hw, if_false]; split <;> rfl

theorem detachP_spec (s : LS) (v : Nat) (hM : Mirror s) (hU : Uniq s) :
    Mirror (setContainerP s v none) ∧ Uniq (setContainerP s v none) ∧
    (∀ a, v ∉ ((setContainerP s v none).get a).chi) := by
  have F := detachP_fields s v
  -- children after the detachment: the old ones except `v`
  have hchi : ∀ w c', c' ∈ ((setContainerP s v none).get w).chi ↔ (c' ∈ (s.get w).chi ∧ c' ≠ v) := by
    intro w c'
    rw [(F w).2.2.1]
    cases hc : (s.get v).cont with
    | none =>
      simp only
      constructor
      · intro h
        refine ⟨h, fun e => ?_⟩
        subst e
        have := (hM.2 w c' h).1
        rw [attached_iff] at this
        obtain ⟨sl, hsl⟩ := this
        rw [hc] at hsl; cases hsl
      · exact fun h => h.1
    | some c =>
      simp only
      by_cases hw : w ∈ (s.get v).anc
      · simp only [hw, if_true, List.mem_filter, bne_iff_ne, ne_eq]
        constructor
        · rintro ⟨h1, h2⟩
          exact ⟨h1, fun e => h2 (by rw [e, hc])⟩
        · rintro ⟨h1, h2⟩
          exact ⟨h1, fun e => h2 (hU c' v c e hc)⟩
      · simp only [hw, if_false]
        constructor
        · intro h
          refine ⟨h, fun e => ?_⟩
          subst e
          exact hw (hM.2 w c' h).2
        · exact fun h => h.1
  have hatt : ∀ w, (setContainerP s v none).attached w = true ↔ (s.attached w = true ∧ w ≠ v) := by
    intro w
    unfold LS.attached
    rw [(F w).1]
    by_cases hw : w = v <;> simp [hw]
  refine ⟨⟨?_, ?_⟩, ?_, ?_⟩
  · intro w hw a ha
    rw [(F w).2.1] at ha
    obtain ⟨h1, h2⟩ := (hatt w).mp hw
    exact (hchi a w).mpr ⟨hM.1 w h1 a ha, h2⟩
  · intro a c' hc'
    obtain ⟨h1, h2⟩ := (hchi a c').mp hc'
    refine ⟨(hatt c').mpr ⟨(hM.2 a c' h1).1, h2⟩, ?_⟩
    rw [(F c').2.1]
    exact (hM.2 a c' h1).2
  · intro w w' sl h1 h2
    rw [(F w).1] at h1
    rw [(F w').1] at h2
    by_cases hw : w = v
    · simp [hw] at h1
    · by_cases hw' : w' = v
      · simp [hw'] at h2
      · simp only [hw, hw', if_false] at h1 h2
        exact hU w w' sl h1 h2
  · intro a h
    exact ((hchi a v).mp h).2 rfl

/-! ## attaching keeps the links mirrored -/

theorem attach0_spec (s0 : LS) (v : Nat) (n : Slot) (hM : Mirror s0) (hU : Uniq s0)
    (hv : (s0.get v).cont = none) (hno : ∀ w, (s0.get w).cont ≠ some n) :
    let s' := addAll (s0.setV v (fun x => { x with cont := some n })) (s0.get v).anc v n
    Mirror s' ∧ Uniq s' ∧
    (∀ w, (s'.get w).cont = if w = v then some n else (s0.get w).cont) ∧
    s'.slots = s0.slots ∧ s'.size = s0.size := by
  intro s'
  have hv2 : ((s0.setV v (fun x => { x with cont := some n })).get v).cont = some n := by simp
  have hcont : ∀ w, (s'.get w).cont = if w = v then some n else (s0.get w).cont := by
    intro w
    show ((addAll _ _ _ _).get w).cont = _
    rw [addAll_cont]
    simp only [get_setV]
    split <;> rfl
  have hanc : ∀ w, (s'.get w).anc = (s0.get w).anc := by
    intro w
    show ((addAll _ _ _ _).get w).anc = _
    rw [addAll_anc]
    simp only [get_setV]
    split <;> rfl
  have hvnot : ∀ a, v ∉ (s0.get a).chi := by
    intro a h
    have := (hM.2 a v h).1
    rw [attached_iff] at this
    obtain ⟨sl, hsl⟩ := this
    rw [hv] at hsl; cases hsl
  have hchi : ∀ w, (s'.get w).chi = if w ∈ (s0.get v).anc then (s0.get w).chi ++ [v] else (s0.get w).chi := by
    intro w
    show ((addAll _ _ _ _).get w).chi = _
    rw [addAll_chi _ _ _ _ hv2]
    have hchi2 : ((s0.setV v (fun x => { x with cont := some n })).get w).chi = (s0.get w).chi := by
      simp only [get_setV]; split <;> rfl
    have hany : ((s0.setV v (fun x => { x with cont := some n })).get w).chi.any
        (fun c => ((s0.setV v (fun x => { x with cont := some n })).get c).cont == some n) = false := by
      rw [hchi2, List.any_eq_false]
      intro c hc
      have hcv : c ≠ v := fun e => hvnot w (e ▸ hc)
      simp only [get_setV, hcv, if_false, beq_iff_eq]
      exact hno c
    rw [hany, hchi2]
    simp
  have hatt : ∀ w, s'.attached w = true ↔ (w = v ∨ s0.attached w = true) := by
    intro w
    unfold LS.attached
    rw [hcont w]
    by_cases hw : w = v
    · simp [hw]
    · simp [hw]
  obtain ⟨h1, h2⟩ := addAll_slots (s0.get v).anc v n (s0.setV v (fun x => { x with cont := some n }))
  refine ⟨⟨?_, ?_⟩, ?_, hcont, h1, h2⟩
  · intro w hw a ha
    rw [hanc] at ha
    rw [hchi a]
    rcases (hatt w).mp hw with rfl | h0
    · simp [ha]
    · have := hM.1 w h0 a ha
      split
      · exact List.mem_append_left _ this
      · exact this
  · intro a c hc
    rw [hchi a] at hc
    rw [hanc c]
    by_cases ha : a ∈ (s0.get v).anc
    · simp only [ha, if_true, List.mem_append, List.mem_singleton] at hc
      rcases hc with hc | rfl
      · exact ⟨(hatt c).mpr (Or.inr (hM.2 a c hc).1), (hM.2 a c hc).2⟩
      · exact ⟨(hatt c).mpr (Or.inl rfl), ha⟩
    · simp only [ha, if_false] at hc
      exact ⟨(hatt c).mpr (Or.inr (hM.2 a c hc).1), (hM.2 a c hc).2⟩
  · intro w w' sl e1 e2
    rw [hcont] at e1 e2
    by_cases hw : w = v
    · by_cases hw' : w' = v
      · rw [hw, hw']
      · simp only [hw, hw', if_true, if_false] at e1 e2
        cases e1
        exact absurd e2 (hno w')
    · by_cases hw' : w' = v
      · simp only [hw, hw', if_true, if_false] at e1 e2
        cases e2
        exact absurd e1 (hno w)
      · simp only [hw, hw', if_false] at e1 e2
        exact hU w w' sl e1 e2

theorem setV_setV_cont (s : LS) (v : Nat) (a b : Option Slot) :
    (s.setV v (fun x => { x with cont := a })).setV v (fun x => { x with cont := b }) =
      s.setV v (fun x => { x with cont := b }) := by
  unfold LS.setV
  simp only
  congr 1
  funext w
  by_cases hw : w = v <;> simp [hw]

/-- attaching `v` to slot `n`, wherever it was: links stay mirrored provided no *other* value is
attached to `n` -/
theorem attachP_spec (s : LS) (v : Nat) (n : Slot) (hM : Mirror s) (hU : Uniq s)
    (hno : ∀ w, w ≠ v → (s.get w).cont ≠ some n) :
    Mirror (setContainerP s v (some n)) ∧ Uniq (setContainerP s v (some n)) ∧
    (∀ w, ((setContainerP s v (some n)).get w).cont = if w = v then some n else (s.get w).cont) ∧
    (setContainerP s v (some n)).slots = s.slots ∧ (setContainerP s v (some n)).size = s.size := by
  obtain ⟨dM, dU, _⟩ := detachP_spec s v hM hU
  have F := detachP_fields s v
  have e : setContainerP s v (some n) =
      addAll ((setContainerP s v none).setV v (fun x => { x with cont := some n }))
        ((setContainerP s v none).get v).anc v n := by
    unfold setContainerP
    simp only [setV_setV_cont, get_setV, if_true]
  have hv : ((setContainerP s v none).get v).cont = none := by rw [(F v).1]; simp
  have hno' : ∀ w, ((setContainerP s v none).get w).cont ≠ some n := by
    intro w
    rw [(F w).1]
    by_cases hw : w = v
    · simp [hw]
    · simp only [hw, if_false]; exact hno w hw
  obtain ⟨a1, a2, a3, a4, a5⟩ := attach0_spec (setContainerP s v none) v n dM dU hv hno'
  rw [← e] at a1 a2 a3 a4 a5
  refine ⟨a1, a2, ?_, a4.trans (F 0).2.2.2.1, a5.trans (F 0).2.2.2.2⟩
  intro w
  rw [a3 w, (F w).1]
  by_cases hw : w = v <;> simp [hw]

/-! ## values held in a dict: `dict[key] = new`, unlink `old`, link `new` again -/

/-- detaching, fact by fact, under weak hypotheses: every listed child is attached and records the
parent, and ids are unique among the children of `v`'s recorded ancestors -/
theorem detachP_gen (s : LS) (v : Nat)
    (h2 : ∀ a, ∀ c ∈ (s.get a).chi, s.attached c = true ∧ a ∈ (s.get c).anc)
    (hUv : ∀ c, (s.get v).cont = some c → ∀ a ∈ (s.get v).anc, ∀ c' ∈ (s.get a).chi, (s.get c').cont = some c → c' = v) :
    (∀ w c', c' ∈ ((setContainerP s v none).get w).chi ↔ (c' ∈ (s.get w).chi ∧ c' ≠ v)) ∧
    (∀ w, (setContainerP s v none).attached w = true ↔ (s.attached w = true ∧ w ≠ v)) ∧
    (∀ a, ∀ c ∈ ((setContainerP s v none).get a).chi,
      (setContainerP s v none).attached c = true ∧ a ∈ ((setContainerP s v none).get c).anc) := by
  have F := detachP_fields s v
  have hchi : ∀ w c', c' ∈ ((setContainerP s v none).get w).chi ↔ (c' ∈ (s.get w).chi ∧ c' ≠ v) := by
    intro w c'
    rw [(F w).2.2.1]
    cases hc : (s.get v).cont with
    | none =>
      simp only
      constructor
      · intro h
        refine ⟨h, fun e => ?_⟩
        subst e
        have := (h2 w c' h).1
        rw [attached_iff] at this
        obtain ⟨sl, hsl⟩ := this
        rw [hc] at hsl; cases hsl
      · exact fun h => h.1
    | some c =>
      simp only
      by_cases hw : w ∈ (s.get v).anc
      · simp only [hw, if_true, List.mem_filter, bne_iff_ne, ne_eq]
        constructor
        · rintro ⟨g1, g2⟩
          exact ⟨g1, fun e => g2 (by rw [e, hc])⟩
        · rintro ⟨g1, g2⟩
          exact ⟨g1, fun e => g2 (hUv c hc w hw c' g1 e)⟩
      · simp only [hw, if_false]
        constructor
        · intro h
          refine ⟨h, fun e => ?_⟩
          subst e
          exact hw (h2 w c' h).2
        · exact fun h => h.1
  have hatt : ∀ w, (setContainerP s v none).attached w = true ↔ (s.attached w = true ∧ w ≠ v) := by
    intro w
    unfold LS.attached
    rw [(F w).1]
    by_cases hw : w = v <;> simp [hw]
  refine ⟨hchi, hatt, ?_⟩
  intro a c' hc'
  obtain ⟨g1, g2⟩ := (hchi a c').mp hc'
  refine ⟨(hatt c').mpr ⟨(h2 a c' g1).1, g2⟩, ?_⟩
  rw [(F c').2.1]
  exact (h2 a c' g1).2

/-- attaching a detached value `v` to a slot that `old` (and nobody else) already occupies: `v` is
appended only where no child with that id is listed, i.e. outside the ancestors of `old` -/
theorem attachDup_spec (s0 : LS) (v old : Nat) (n : Slot) (hM : Mirror s0) (hU : Uniq s0)
    (hv : (s0.get v).cont = none) (hold : (s0.get old).cont = some n) :
    (∀ w, ((setContainerP s0 v (some n)).get w).cont = if w = v then some n else (s0.get w).cont) ∧
    (∀ w, ((setContainerP s0 v (some n)).get w).anc = (s0.get w).anc) ∧
    (∀ w, ((setContainerP s0 v (some n)).get w).chi =
      if w ∈ (s0.get v).anc ∧ old ∉ (s0.get w).chi then (s0.get w).chi ++ [v] else (s0.get w).chi) := by
  have e : setContainerP s0 v (some n) = addAll (s0.setV v (fun x => { x with cont := some n })) (s0.get v).anc v n := by
    unfold setContainerP
    simp only [hv, get_setV, if_true]
  have hv2 : ((s0.setV v (fun x => { x with cont := some n })).get v).cont = some n := by simp
  have hvnot : ∀ a, v ∉ (s0.get a).chi := by
    intro a h
    have := (hM.2 a v h).1
    rw [attached_iff] at this
    obtain ⟨sl, hsl⟩ := this
    rw [hv] at hsl; cases hsl
  refine ⟨?_, ?_, ?_⟩
  · intro w
    rw [e, addAll_cont]; simp only [get_setV]; split <;> rfl
  · intro w
    rw [e, addAll_anc]; simp only [get_setV]; split <;> rfl
  · intro w
    rw [e, addAll_chi _ _ _ _ hv2]
    have hchi2 : ((s0.setV v (fun x => { x with cont := some n })).get w).chi = (s0.get w).chi := by
      simp only [get_setV]; split <;> rfl
    rw [hchi2]
    have hany : (s0.get w).chi.any
        (fun c => ((s0.setV v (fun x => { x with cont := some n })).get c).cont == some n) = true ↔ old ∈ (s0.get w).chi := by
      rw [List.any_eq_true]
      constructor
      · rintro ⟨c, hc, hcn⟩
        have hcv : c ≠ v := fun e' => hvnot w (e' ▸ hc)
        simp only [get_setV, hcv, if_false, beq_iff_eq] at hcn
        rw [hU c old n hcn hold] at hc
        exact hc
      · intro ho
        have hov : old ≠ v := fun e' => hvnot w (e' ▸ ho)
        exact ⟨old, ho, by simp [get_setV, hov, hold]⟩
    by_cases hw : w ∈ (s0.get v).anc
    · by_cases ho : old ∈ (s0.get w).chi
      · rw [if_neg (fun h => h.2 (hany.mpr ho)), if_neg (fun h => h.2 ho)]
      · rw [if_pos ⟨hw, fun h => ho (hany.mp h)⟩, if_pos ⟨hw, ho⟩]
    · rw [if_neg (fun h => hw h.1), if_neg (fun h => hw h.1)]

/-- **replacing a value held in a dict keeps the links mirrored and the ids unique**, when ids are
unique before (each dict holds one value: no job shared by several usage patterns) -/
theorem replaceInDict_links (s : LS) (old new : Nat) (s' : LS) (hM : Mirror s) (hU : Uniq s)
    (hnew : (s.get new).cont = none) (h : replaceInDict s old new = .ok s') : Mirror s' ∧ Uniq s' := by
  unfold replaceInDict at h
  split at h
  · cases h
  rename_i sl hsl
  split at h
  · cases h
  split at h
  · cases h
  rename_i key _ _
  split at h
  · cases h
  rename_i s1 hs1
  split at h
  · cases h
  rename_i s2 hs2
  have hne : old ≠ new := by
    intro e; rw [e] at hsl; rw [hnew] at hsl; cases hsl
  -- step 1: `dict[key] = new`
  unfold dictSet at hs1
  have e1 := setContainer_ok _ _ _ _ hs1
  obtain ⟨c1, a1, x1⟩ := attachDup_spec (s.setEntry sl key new) new old sl hM hU hnew hsl
  rw [← e1] at c1 a1 x1
  have get0 : ∀ w, (s.setEntry sl key new).get w = s.get w := fun w => rfl
  simp only [get0] at c1 a1 x1
  have att1 : ∀ w, s1.attached w = true ↔ (w = new ∨ s.attached w = true) := by
    intro w; unfold LS.attached; rw [c1 w]; by_cases hw : w = new <;> simp [hw]
  have mem1 : ∀ w c, c ∈ (s1.get w).chi ↔
      (c ∈ (s.get w).chi ∨ (c = new ∧ w ∈ (s.get new).anc ∧ old ∉ (s.get w).chi)) := by
    intro w c
    rw [x1 w]
    by_cases hc : w ∈ (s.get new).anc ∧ old ∉ (s.get w).chi
    · rw [if_pos hc, List.mem_append, List.mem_singleton]
      constructor
      · rintro (g | g)
        · exact Or.inl g
        · exact Or.inr ⟨g, hc.1, hc.2⟩
      · rintro (g | g)
        · exact Or.inl g
        · exact Or.inr g.1
    · rw [if_neg hc]
      constructor
      · exact Or.inl
      · rintro (g | g)
        · exact g
        · exact absurd ⟨g.2.1, g.2.2⟩ hc
  have newnot : ∀ a, new ∉ (s.get a).chi := by
    intro a hh
    have := (hM.2 a new hh).1
    rw [attached_iff] at this
    obtain ⟨x, hx⟩ := this
    rw [hnew] at hx; cases hx
  have h2_1 : ∀ a, ∀ c ∈ (s1.get a).chi, s1.attached c = true ∧ a ∈ (s1.get c).anc := by
    intro a c hc
    rw [a1 c]
    rcases (mem1 a c).mp hc with g | ⟨rfl, g1, _⟩
    · exact ⟨(att1 c).mpr (Or.inr (hM.2 a c g).1), (hM.2 a c g).2⟩
    · exact ⟨(att1 c).mpr (Or.inl rfl), g1⟩
  -- step 2: unlink `old`
  have e2 := setContainer_ok _ _ _ _ hs2
  obtain ⟨chi2, att2, cl2⟩ := detachP_gen s1 old h2_1
    (by
      intro c hc a ha c' hc' hcc'
      rw [c1 old] at hc
      simp only [hne, if_false] at hc
      rw [hsl] at hc
      cases hc
      rw [a1 old] at ha
      have hold_in : old ∈ (s.get a).chi := hM.1 old ((attached_iff s old).mpr ⟨sl, hsl⟩) a ha
      rcases (mem1 a c').mp hc' with g | ⟨_, _, g3⟩
      · rw [c1 c'] at hcc'
        by_cases hcn : c' = new
        · exact absurd (hcn ▸ g) (newnot a)
        · simp only [hcn, if_false] at hcc'
          exact hU c' old sl hcc' hsl
      · exact absurd hold_in g3)
  rw [← e2] at chi2 att2 cl2
  have F2 := detachP_fields s1 old
  rw [← e2] at F2
  have cont2 : ∀ w, (s2.get w).cont = if w = old then none else if w = new then some sl else (s.get w).cont := by
    intro w
    rw [(F2 w).1, c1 w]
  have anc2 : ∀ w, (s2.get w).anc = (s.get w).anc := fun w => by rw [(F2 w).2.1, a1 w]
  -- step 3: link `new` again
  have e3 := setContainer_ok _ _ _ _ h
  obtain ⟨chi3, att3, cl3⟩ := detachP_gen s2 new cl2
    (by
      intro c hc a _ c' hc' hcc'
      rw [cont2 new] at hc
      simp only [hne.symm, if_false, if_true] at hc
      cases hc
      rw [cont2 c'] at hcc'
      by_cases h1 : c' = old
      · simp [h1] at hcc'
      · by_cases h3 : c' = new
        · exact h3
        · simp only [h1, h3, if_false] at hcc'
          exact absurd (hU c' old sl hcc' hsl) h1)
  have F3 := detachP_fields s2 new
  have cont3 : ∀ w, ((setContainerP s2 new none).get w).cont =
      if w = new then none else if w = old then none else (s.get w).cont := by
    intro w
    rw [(F3 w).1, cont2 w]
    by_cases h1 : w = new
    · simp [h1]
    · by_cases h3 : w = old <;> simp [h1, h3]
  have anc3 : ∀ w, ((setContainerP s2 new none).get w).anc = (s.get w).anc := fun w => by rw [(F3 w).2.1, anc2 w]
  have M3 : Mirror (setContainerP s2 new none) := by
    refine ⟨?_, cl3⟩
    intro w hw a ha
    obtain ⟨g1, g2⟩ := (att3 w).mp hw
    obtain ⟨g3, g4⟩ := (att2 w).mp g1
    have g5 : s.attached w = true := by
      rcases (att1 w).mp g3 with g | g
      · exact absurd g g2
      · exact g
    rw [anc3 w] at ha
    have g6 : w ∈ (s.get a).chi := hM.1 w g5 a ha
    exact (chi3 a w).mpr ⟨(chi2 a w).mpr ⟨(mem1 a w).mpr (Or.inl g6), g4⟩, g2⟩
  have U3 : Uniq (setContainerP s2 new none) := by
    intro w w' x hx hx'
    rw [cont3 w] at hx
    rw [cont3 w'] at hx'
    by_cases h1 : w = new
    · simp [h1] at hx
    · by_cases h3 : w = old
      · simp [h1, h3] at hx
      · by_cases h1' : w' = new
        · simp [h1'] at hx'
        · by_cases h3' : w' = old
          · simp [h1', h3'] at hx'
          · simp only [h1, h3, h1', h3', if_false] at hx hx'
            exact hU w w' x hx hx'
  have hno3 : ∀ w, ((setContainerP s2 new none).get w).cont ≠ some sl := by
    intro w hx
    rw [cont3 w] at hx
    by_cases h1 : w = new
    · simp [h1] at hx
    · by_cases h3 : w = old
      · simp [h1, h3] at hx
      · simp only [h1, h3, if_false] at hx
        exact h3 (hU w old sl hx hsl)
  have hv3 : ((setContainerP s2 new none).get new).cont = none := by rw [cont3 new]; simp
  have e : setContainerP s2 new (some sl) =
      addAll ((setContainerP s2 new none).setV new (fun x => { x with cont := some sl }))
        ((setContainerP s2 new none).get new).anc new sl := by
    unfold setContainerP
    simp only [setV_setV_cont, get_setV, if_true]
  obtain ⟨r1, r2, _, _, _⟩ := attach0_spec (setContainerP s2 new none) new sl M3 U3 hv3 hno3
  rw [← e, ← e3] at r1 r2
  exact ⟨r1, r2⟩

/-! ## why shared ids (several entries in one per-usage-pattern dict) cannot work -/

/-- what `add_child_to_direct_children_with_id` enforces: no two listed children with the same id -/
def ChiUniq (s : LS) : Prop :=
  ∀ a c₁ c₂, c₁ ∈ (s.get a).chi → c₂ ∈ (s.get a).chi → (s.get c₁).cont = (s.get c₂).cont → c₁ = c₂

/-- **two values sharing an id and an ancestor cannot both be listed by it**: de-duplication by id and
mirrored links are incompatible as soon as two attached values share an id (two entries of the dict of
a job reachable from two usage patterns) and a recorded ancestor — the root of finding D2 -/
theorem shared_id_contradicts_mirror (s : LS) (hU : ChiUniq s) (v₁ v₂ a : Nat) (sl : Slot)
    (h₁ : (s.get v₁).cont = some sl) (h₂ : (s.get v₂).cont = some sl) (hne : v₁ ≠ v₂)
    (ha₁ : a ∈ (s.get v₁).anc) (ha₂ : a ∈ (s.get v₂).anc) : ¬ Mirror s := by
  intro hM
  have c₁ := hM.1 v₁ ((attached_iff s v₁).mpr ⟨sl, h₁⟩) a ha₁
  have c₂ := hM.1 v₂ ((attached_iff s v₂).mpr ⟨sl, h₂⟩) a ha₂
  exact hne (hU a v₁ v₂ c₁ c₂ (by rw [h₁, h₂]))

/-! ## the operations of the engine -/

/-- an attached value is what its slot holds (so ids are unique) -/
def SlotInv (s : LS) : Prop := ∀ v sl, (s.get v).cont = some sl → s.holds sl = some v

/-- identities not yet allocated are blank -/
def Fresh (s : LS) : Prop := ∀ w, s.size ≤ w → s.get w = {}

structure Inv (s : LS) : Prop where
  mirror : Mirror s
  slot : SlotInv s
  fresh : Fresh s
  refs : ∀ w, (∀ a ∈ (s.get w).anc, a < s.size) ∧ (∀ c ∈ (s.get w).chi, c < s.size)
  held : ∀ sl o, s.holds sl = some o → o < s.size

theorem SlotInv.uniq {s : LS} (h : SlotInv s) : Uniq s := by
  intro w w' sl h1 h2
  have := (h w sl h1).symm.trans (h w' sl h2)
  cases this; rfl

theorem find_filter_ne (l : List (Slot × Nat)) (sl sl' : Slot) (h : sl' ≠ sl) :
    (l.filter (fun p => p.1 != sl)).find? (fun p => p.1 == sl') = l.find? (fun p => p.1 == sl') := by
  induction l with
  | nil => rfl
  | cons p ps ih =>
    by_cases hp : p.1 = sl
    · have h1 : (p.1 != sl) = false := by simp [hp]
      have h2 : (p.1 == sl') = false := by simp [hp]; exact fun e => h e.symm
      simp [List.filter_cons, h1, List.find?_cons, h2, ih]
    · have h1 : (p.1 != sl) = true := by simp [hp]
      simp only [List.filter_cons, h1, if_true, List.find?_cons]
      split
      · rfl
      · exact ih

theorem holds_setSlot (s : LS) (sl : Slot) (v : Nat) (sl' : Slot) :
    (s.setSlot sl v).holds sl' = if sl' = sl then some v else s.holds sl' := by
  unfold LS.holds LS.setSlot
  by_cases h : sl' = sl
  · subst h; simp [List.find?_cons]
  · have h2 : (sl == sl') = false := by simp; exact fun e => h e.symm
    simp only [List.find?_cons, h2, h, if_false]
    rw [find_filter_ne _ _ _ h]

theorem get_setSlot (s : LS) (sl : Slot) (v w : Nat) : (s.setSlot sl v).get w = s.get w := rfl

theorem mirror_setSlot (s : LS) (sl : Slot) (v : Nat) (h : Mirror s) : Mirror (s.setSlot sl v) := h
theorem uniq_setSlot (s : LS) (sl : Slot) (v : Nat) (h : Uniq s) : Uniq (s.setSlot sl v) := h

theorem fresh_of_fields (s s' : LS) (hs : s'.size = s.size) (hF : Fresh s)
    (hget : ∀ w, s.size ≤ w → s'.get w = s.get w) : Fresh s' := by
  intro w hw
  rw [hs] at hw
  rw [hget w hw]
  exact hF w hw

theorem LV.ext' (x y : LV) (h1 : x.cont = y.cont) (h2 : x.anc = y.anc) (h3 : x.chi = y.chi) : x = y := by
  cases x; cases y; simp only at h1 h2 h3; subst h1 h2 h3; rfl

/-- frame: `set_modeling_obj_container` on `v` touches `v` and the children lists of its recorded
ancestors only, never changes recorded ancestors, and adds at most `v` to a children list -/
theorem setContainerP_frame (s : LS) (v : Nat) (new : Option Slot) :
    (∀ w, w ≠ v → w ∉ (s.get v).anc → (setContainerP s v new).get w = s.get w) ∧
    (∀ w, ((setContainerP s v new).get w).anc = (s.get w).anc) ∧
    (∀ w c, c ∈ ((setContainerP s v new).get w).chi → c ∈ (s.get w).chi ∨ c = v) ∧
    (setContainerP s v new).slots = s.slots ∧ (setContainerP s v new).size = s.size := by
  have F := detachP_fields s v
  have dchi : ∀ w c, c ∈ ((setContainerP s v none).get w).chi → c ∈ (s.get w).chi := by
    intro w c hc
    rw [(F w).2.2.1] at hc
    split at hc
    · split at hc
      · exact (List.mem_filter.mp hc).1
      · exact hc
    · exact hc
  have dsame : ∀ w, w ≠ v → w ∉ (s.get v).anc → (setContainerP s v none).get w = s.get w := by
    intro w hw hwa
    apply LV.ext'
    · rw [(F w).1]; simp [hw]
    · exact (F w).2.1
    · rw [(F w).2.2.1]; split
      · simp [hwa]
      · rfl
  cases new with
  | none => exact ⟨dsame, fun w => (F w).2.1, fun w c hc => Or.inl (dchi w c hc), (F 0).2.2.2.1, (F 0).2.2.2.2⟩
  | some n =>
    have e : setContainerP s v (some n) =
        addAll ((setContainerP s v none).setV v (fun x => { x with cont := some n }))
          ((setContainerP s v none).get v).anc v n := by
      unfold setContainerP
      simp only [setV_setV_cont, get_setV, if_true]
    have hv2 : (((setContainerP s v none).setV v (fun x => { x with cont := some n })).get v).cont = some n := by simp
    obtain ⟨z1, z2⟩ := addAll_slots ((setContainerP s v none).get v).anc v n
      ((setContainerP s v none).setV v (fun x => { x with cont := some n }))
    have hancv : ((setContainerP s v none).get v).anc = (s.get v).anc := (F v).2.1
    refine ⟨?_, ?_, ?_, ?_, ?_⟩
    · intro w hw hwa
      rw [e]
      apply LV.ext'
      · rw [addAll_cont]; simp only [get_setV, hw, if_false]; rw [dsame w hw hwa]
      · rw [addAll_anc]; simp only [get_setV, hw, if_false]; rw [dsame w hw hwa]
      · rw [addAll_chi _ _ _ _ hv2, hancv]
        simp only [hwa, false_and, if_false, get_setV, hw]
        rw [dsame w hw hwa]
    · intro w
      rw [e, addAll_anc]
      simp only [get_setV]
      split
      · rename_i h; subst h; exact (F w).2.1
      · exact (F w).2.1
    · intro w c hc
      rw [e, addAll_chi _ _ _ _ hv2] at hc
      have hchi2 : (((setContainerP s v none).setV v (fun x => { x with cont := some n })).get w).chi =
          ((setContainerP s v none).get w).chi := by simp only [get_setV]; split <;> rfl
      split at hc
      · rw [hchi2] at hc
        rcases List.mem_append.mp hc with h | h
        · exact Or.inl (dchi w c h)
        · exact Or.inr (by simpa using h)
      · rw [hchi2] at hc
        exact Or.inl (dchi w c hc)
    · rw [e, z1]; exact (F 0).2.2.2.1
    · rw [e, z2]; exact (F 0).2.2.2.2

/-- what one successful `set_modeling_obj_container` guarantees -/
structure SetC (s : LS) (v : Nat) (new : Option Slot) (s' : LS) : Prop where
  mirror : Mirror s'
  uniq : Uniq s'
  fresh : Fresh s'
  refs : ∀ w, (∀ a ∈ (s'.get w).anc, a < s'.size) ∧ (∀ c ∈ (s'.get w).chi, c < s'.size)
  cont : ∀ w, (s'.get w).cont = if w = v then new else (s.get w).cont
  slots : s'.slots = s.slots
  size : s'.size = s.size

theorem setC_spec (s : LS) (v : Nat) (new : Option Slot) (s' : LS)
    (hM : Mirror s) (hU : Uniq s) (hF : Fresh s)
    (hR : ∀ w, (∀ a ∈ (s.get w).anc, a < s.size) ∧ (∀ c ∈ (s.get w).chi, c < s.size))
    (hv : v < s.size) (hno : ∀ n, new = some n → ∀ w, w ≠ v → (s.get w).cont ≠ some n)
    (h : setContainer s v new = .ok s') : SetC s v new s' := by
  have e := setContainer_ok s v new s' h
  subst e
  obtain ⟨f1, f2, f3, f4, f5⟩ := setContainerP_frame s v new
  have hfresh : Fresh (setContainerP s v new) := by
    intro w hw
    rw [f5] at hw
    rw [f1 w (by omega) (fun ha => by have := (hR v).1 w ha; omega)]
    exact hF w hw
  have hrefs : ∀ w, (∀ a ∈ ((setContainerP s v new).get w).anc, a < (setContainerP s v new).size) ∧
      (∀ c ∈ ((setContainerP s v new).get w).chi, c < (setContainerP s v new).size) := by
    intro w
    rw [f5, f2 w]
    refine ⟨(hR w).1, fun c hc => ?_⟩
    rcases f3 w c hc with h1 | rfl
    · exact (hR w).2 c h1
    · exact hv
  cases new with
  | none =>
    obtain ⟨d1, d2, _⟩ := detachP_spec s v hM hU
    exact ⟨d1, d2, hfresh, hrefs, fun w => (detachP_fields s v w).1, f4, f5⟩
  | some n =>
    obtain ⟨a1, a2, a3, _, _⟩ := attachP_spec s v n hM hU (hno n rfl)
    exact ⟨a1, a2, hfresh, hrefs, a3, f4, f5⟩

theorem setAttr_inv (s : LS) (sl : Slot) (v : Nat) (s' : LS) (hI : Inv s) (hv : v < s.size)
    (h : setAttr s sl v = .ok s') : Inv s' := by
  unfold setAttr at h
  simp only at h
  split at h
  · cases h
  rename_i sB hsB
  -- the state after the previous holder (if any) has been unlinked
  have hB : Mirror sB ∧ Uniq sB ∧ Fresh sB ∧
      (∀ w, (∀ a ∈ (sB.get w).anc, a < sB.size) ∧ (∀ c ∈ (sB.get w).chi, c < sB.size)) ∧
      sB.slots = (s.setSlot sl v).slots ∧ sB.size = s.size ∧
      (∀ w, (sB.get w).cont = if s.holds sl = some w then none else (s.get w).cont) := by
    cases ho : s.holds sl with
    | none =>
      rw [ho] at hsB
      cases hsB
      exact ⟨hI.mirror, hI.slot.uniq, hI.fresh, hI.refs, rfl, rfl, fun w => by simp [get_setSlot]⟩
    | some o =>
      rw [ho] at hsB
      have := setC_spec (s.setSlot sl v) o none sB hI.mirror hI.slot.uniq hI.fresh hI.refs
        (hI.held sl o ho) (fun n hn => by cases hn) hsB
      refine ⟨this.mirror, this.uniq, this.fresh, this.refs, this.slots, this.size, fun w => ?_⟩
      rw [this.cont w]
      by_cases hw : w = o
      · simp [hw]
      · have : ¬ (some o = some w) := fun e => hw (by cases e; rfl)
        simp [hw, this, get_setSlot]
  obtain ⟨b1, b2, b3, b4, b5, b6, b7⟩ := hB
  have hno : ∀ n, some sl = some n → ∀ w, w ≠ v → (sB.get w).cont ≠ some n := by
    intro n hn w hw hc
    cases hn
    rw [b7 w] at hc
    split at hc
    · cases hc
    · rename_i hne
      exact hne (hI.slot w sl hc)
  have C := setC_spec sB v (some sl) s' b1 b2 b3 b4 (by omega) hno h
  refine ⟨C.mirror, ?_, C.fresh, C.refs, ?_⟩
  · intro w sl' hc
    rw [C.cont w] at hc
    have hslots : s'.holds sl' = (s.setSlot sl v).holds sl' := by
      unfold LS.holds; rw [C.slots, b5]
    rw [hslots, holds_setSlot]
    by_cases hw : w = v
    · simp only [hw, if_true] at hc
      cases hc
      simp [hw]
    · simp only [hw, if_false] at hc
      have hne : sl' ≠ sl := fun e => hno sl rfl w hw (e ▸ hc)
      simp only [hne, if_false]
      rw [b7 w] at hc
      split at hc
      · cases hc
      · exact hI.slot w sl' hc
  · intro sl' o ho
    have hslots : s'.holds sl' = (s.setSlot sl v).holds sl' := by
      unfold LS.holds; rw [C.slots, b5]
    rw [hslots, holds_setSlot] at ho
    rw [C.size, b6]
    split at ho
    · cases ho; exact hv
    · exact hI.held sl' o ho

theorem replace_inv (s : LS) (old new : Nat) (s' : LS) (hI : Inv s) (ho : old < s.size) (hn : new < s.size)
    (h : replace s old new = .ok s') : Inv s' := by
  unfold replace at h
  split at h
  · cases h
  rename_i sl hsl
  split at h
  · cases h
  rename_i sB hsB
  have B := setC_spec (s.setSlot sl new) old none sB hI.mirror hI.slot.uniq hI.fresh hI.refs ho
    (fun n hn => by cases hn) hsB
  have hno : ∀ n, some sl = some n → ∀ w, w ≠ new → (sB.get w).cont ≠ some n := by
    intro n hn' w hw hc
    cases hn'
    rw [B.cont w] at hc
    split at hc
    · cases hc
    · rename_i hwo
      rw [get_setSlot] at hc
      exact hwo (hI.slot.uniq w old sl hc hsl)
  have C := setC_spec sB new (some sl) s' B.mirror B.uniq B.fresh B.refs (by rw [B.size]; exact hn) hno h
  have hslots : ∀ sl', s'.holds sl' = (s.setSlot sl new).holds sl' := by
    intro sl'; unfold LS.holds; rw [C.slots, B.slots]
  refine ⟨C.mirror, ?_, C.fresh, C.refs, ?_⟩
  · intro w sl' hc
    rw [C.cont w] at hc
    rw [hslots, holds_setSlot]
    by_cases hw : w = new
    · simp only [hw, if_true] at hc
      cases hc
      simp [hw]
    · simp only [hw, if_false] at hc
      have hne : sl' ≠ sl := fun e => hno sl rfl w hw (e ▸ hc)
      simp only [hne, if_false]
      rw [B.cont w] at hc
      split at hc
      · cases hc
      · rw [get_setSlot] at hc; exact hI.slot w sl' hc
  · intro sl' o hh
    rw [hslots, holds_setSlot] at hh
    rw [C.size, B.size]
    split at hh
    · cases hh; exact hn
    · exact hI.held sl' o hh

theorem detach_inv (s : LS) (v : Nat) (s' : LS) (hI : Inv s) (hv : v < s.size)
    (h : setContainer s v none = .ok s') : Inv s' := by
  have C := setC_spec s v none s' hI.mirror hI.slot.uniq hI.fresh hI.refs hv (fun n hn => by cases hn) h
  have hslots : ∀ sl', s'.holds sl' = s.holds sl' := by
    intro sl'; unfold LS.holds; rw [C.slots]
  refine ⟨C.mirror, ?_, C.fresh, C.refs, ?_⟩
  · intro w sl' hc
    rw [C.cont w] at hc
    rw [hslots]
    split at hc
    · cases hc
    · exact hI.slot w sl' hc
  · intro sl' o hh
    rw [hslots] at hh
    rw [C.size]
    exact hI.held sl' o hh

/-! allocation of a new value -/

theorem retAnc_attached (s : LS) (p : Nat) : ∀ a ∈ retAnc s p, s.attached a = true := by
  intro a ha
  unfold retAnc at ha
  split at ha
  · rename_i h
    simp only [List.mem_singleton] at ha
    subst ha
    exact h
  · exact (List.mem_filter.mp ha).2

theorem mkAnc_attached (s : LS) (ps : List Nat) : ∀ a ∈ mkAnc s ps, s.attached a = true := by
  unfold mkAnc
  have key : ∀ (ps : List Nat) (acc : List Nat), (∀ a ∈ acc, s.attached a = true) →
      ∀ a ∈ ps.foldl (fun (acc : List Nat) p =>
        acc ++ (retAnc s p).filter (fun a => !(acc.map (fun x => (s.get x).cont)).contains (s.get a).cont)) acc,
        s.attached a = true := by
    intro ps
    induction ps with
    | nil => intro acc hacc; exact hacc
    | cons p ps ih =>
      intro acc hacc
      simp only [List.foldl_cons]
      apply ih
      intro a ha
      rcases List.mem_append.mp ha with h1 | h1
      · exact hacc a h1
      · exact retAnc_attached s p a (List.mem_filter.mp h1).1
  exact key ps [] (fun a ha => by cases ha)

theorem alloc_inv (s : LS) (anc : List Nat) (hI : Inv s) (ha : ∀ a ∈ anc, a < s.size) : Inv (alloc s anc) := by
  have hget : ∀ w, (alloc s anc).get w = if w = s.size then { anc := anc } else s.get w := fun w => rfl
  have hblank : s.get s.size = {} := hI.fresh _ (Nat.le_refl _)
  have hatt : ∀ w, (alloc s anc).attached w = true ↔ s.attached w = true := by
    intro w
    unfold LS.attached
    rw [hget]
    split
    · rename_i h; subst h; rw [hblank]
    · rfl
  have hlt : ∀ w, s.attached w = true → w < s.size := by
    intro w hw
    apply Nat.lt_of_not_le
    intro hle
    unfold LS.attached at hw
    rw [hI.fresh w hle] at hw
    cases hw
  refine ⟨⟨?_, ?_⟩, ?_, ?_, ?_, ?_⟩
  · intro w hw a ha'
    have hw0 := (hatt w).mp hw
    have hwl := hlt w hw0
    have hws : w ≠ s.size := by omega
    rw [hget] at ha'
    simp only [hws, if_false] at ha'
    have hal := (hI.refs w).1 a ha'
    have has : a ≠ s.size := by omega
    rw [hget]
    simp only [has, if_false]
    exact hI.mirror.1 w hw0 a ha'
  · intro a c hc
    rw [hget] at hc
    split at hc
    · cases hc
    · have := hI.mirror.2 a c hc
      have hcl := hlt c this.1
      have hcs : c ≠ s.size := by omega
      refine ⟨(hatt c).mpr this.1, ?_⟩
      rw [hget]
      simp only [hcs, if_false]
      exact this.2
  · intro w sl hc
    rw [hget] at hc
    split at hc
    · cases hc
    · exact hI.slot w sl hc
  · intro w hw
    rw [hget]
    have : (alloc s anc).size = s.size + 1 := rfl
    rw [this] at hw
    have hws : w ≠ s.size := by omega
    simp only [hws, if_false]
    exact hI.fresh w (by omega)
  · intro w
    have hsz : (alloc s anc).size = s.size + 1 := rfl
    rw [hget, hsz]
    split
    · exact ⟨fun a h => Nat.lt_succ_of_lt (ha a h), fun c h => by cases h⟩
    · exact ⟨fun a h => Nat.lt_succ_of_lt ((hI.refs w).1 a h), fun c h => Nat.lt_succ_of_lt ((hI.refs w).2 c h)⟩
  · intro sl o ho
    exact Nat.lt_succ_of_lt (hI.held sl o ho)

theorem init_inv : Inv {} := by
  refine ⟨⟨?_, ?_⟩, ?_, ?_, ?_, ?_⟩
  · intro v hv; cases hv
  · intro a c hc; cases hc
  · intro v sl h; cases h
  · intro w _; rfl
  · intro w
    constructor
    · intro a h; cases h
    · intro c h; cases h
  · intro sl o h; cases h

/-- no value is attached to a dict attribute -/
def NoDict (s : LS) : Prop := ∀ v sl, (s.get v).cont = some sl → isDictSlot sl = false

theorem setC_noDict (s : LS) (v : Nat) (new : Option Slot) (s' : LS) (C : SetC s v new s') (h : NoDict s)
    (hn : ∀ n, new = some n → isDictSlot n = false) : NoDict s' := by
  intro w sl hc
  rw [C.cont w] at hc
  split at hc
  · exact hn sl hc
  · exact h w sl hc

theorem step_inv (s : LS) (op : Op) (s' : LS) (hI : Inv s) (hD : NoDict s) (hp : op.isPlain = true)
    (h : step s op = .ok s') : Inv s' ∧ NoDict s' := by
  cases op with
  | mk ps =>
    simp only [step] at h
    split at h
    · cases h
      refine ⟨?_, ?_⟩
      · apply alloc_inv s (mkAnc s ps) hI
        intro a ha
        have hatt := mkAnc_attached s ps a ha
        apply Nat.lt_of_not_le
        intro hle
        unfold LS.attached at hatt
        rw [hI.fresh a hle] at hatt
        cases hatt
      · intro w sl hc
        have hget : (mk s ps).1.get w = if w = s.size then { anc := mkAnc s ps } else s.get w := rfl
        rw [hget] at hc
        split at hc
        · cases hc
        · exact hD w sl hc
    · cases h
  | setAttr sl v =>
    simp only [step] at h
    split at h
    · rename_i hv
      refine ⟨setAttr_inv s sl v s' hI hv.1 h, ?_⟩
      -- containers after the assignment: `v ↦ sl`, the previous holder unlinked, the others unchanged
      unfold setAttr at h
      simp only at h
      split at h
      · cases h
      rename_i sB hsB
      have hB : NoDict sB ∧ Mirror sB ∧ Uniq sB ∧ Fresh sB ∧
          (∀ w, (∀ a ∈ (sB.get w).anc, a < sB.size) ∧ (∀ c ∈ (sB.get w).chi, c < sB.size)) ∧ sB.size = s.size ∧
          (∀ w, (sB.get w).cont = if s.holds sl = some w then none else (s.get w).cont) := by
        cases ho : s.holds sl with
        | none =>
          rw [ho] at hsB
          cases hsB
          exact ⟨hD, hI.mirror, hI.slot.uniq, hI.fresh, hI.refs, rfl, fun w => by simp [get_setSlot]⟩
        | some o =>
          rw [ho] at hsB
          have C := setC_spec (s.setSlot sl v) o none sB hI.mirror hI.slot.uniq hI.fresh hI.refs
            (hI.held sl o ho) (fun n hn => by cases hn) hsB
          refine ⟨setC_noDict _ o none sB C hD (fun n hn => by cases hn), C.mirror, C.uniq, C.fresh, C.refs, C.size, fun w => ?_⟩
          rw [C.cont w]
          by_cases hw : w = o
          · simp [hw]
          · have : ¬ (some o = some w) := fun e => hw (by cases e; rfl)
            simp [hw, this, get_setSlot]
      obtain ⟨b0, b1, b2, b3, b4, b6, b7⟩ := hB
      have hno : ∀ n, some sl = some n → ∀ w, w ≠ v → (sB.get w).cont ≠ some n := by
        intro n hn w hw hc
        cases hn
        rw [b7 w] at hc
        split at hc
        · cases hc
        · rename_i hne
          exact hne (hI.slot w sl hc)
      have C := setC_spec sB v (some sl) s' b1 b2 b3 b4 (by omega) hno h
      exact setC_noDict sB v (some sl) s' C b0 (fun n hn => by cases hn; exact hv.2)
    · cases h
  | replace o n =>
    simp only [step] at h
    split at h
    · rename_i hv
      cases hc : (s.get o).cont with
      | none =>
        rw [hc] at h
        simp only at h
        unfold replace at h
        rw [hc] at h
        cases h
      | some sl =>
        rw [hc] at h
        simp only at h
        have hsl := hD o sl hc
        rw [hsl] at h
        simp only [Bool.false_eq_true, if_false] at h
        refine ⟨replace_inv s o n s' hI hv.1 hv.2 h, ?_⟩
        unfold replace at h
        rw [hc] at h
        simp only at h
        split at h
        · cases h
        rename_i sB hsB
        have B := setC_spec (s.setSlot sl n) o none sB hI.mirror hI.slot.uniq hI.fresh hI.refs hv.1
          (fun n hn => by cases hn) hsB
        have hno : ∀ m, some sl = some m → ∀ w, w ≠ n → (sB.get w).cont ≠ some m := by
          intro m hm w hw hcw
          cases hm
          rw [B.cont w] at hcw
          split at hcw
          · cases hcw
          · rename_i hwo
            rw [get_setSlot] at hcw
            exact hwo (hI.slot.uniq w o sl hcw hc)
        have C := setC_spec sB n (some sl) s' B.mirror B.uniq B.fresh B.refs (by rw [B.size]; exact hv.2) hno h
        exact setC_noDict sB n (some sl) s' C (setC_noDict _ o none sB B hD (fun n hn => by cases hn))
          (fun m hm => by cases hm; exact hsl)
    · cases h
  | detach v =>
    simp only [step] at h
    split at h
    · rename_i hv
      refine ⟨detach_inv s v s' hI hv h, ?_⟩
      have C := setC_spec s v none s' hI.mirror hI.slot.uniq hI.fresh hI.refs hv (fun n hn => by cases hn) h
      exact setC_noDict s v none s' C hD (fun n hn => by cases hn)
    · cases h
  | dictSet sl key v => cases hp

/-- **after any sequence of operations on plain attributes that does not raise, the links are mirrored
and ids unique** -/
theorem run_inv (ops : List Op) (hp : ∀ op ∈ ops, op.isPlain = true) (s : LS) (h : run ops = .ok s) : Inv s := by
  unfold run at h
  have key : ∀ (ops : List Op), (∀ op ∈ ops, op.isPlain = true) → ∀ (s0 s : LS), Inv s0 → NoDict s0 →
      ops.foldlM step s0 = .ok s → Inv s := by
    intro ops
    induction ops with
    | nil => intro _ s0 s h0 _ h; simp [List.foldlM] at h; cases h; exact h0
    | cons op ops ih =>
      intro hp s0 s h0 hd h
      simp only [List.foldlM_cons, bind, Except.bind] at h
      split at h
      · cases h
      rename_i s1 hs1
      obtain ⟨i1, d1⟩ := step_inv s0 op s1 h0 hd (hp op (by simp)) hs1
      exact ih (fun o ho => hp o (by simp [ho])) s1 s i1 d1 h
  exact key ops hp {} s init_inv (fun v sl hc => by cases hc) h

end Efp.Links

import Efp.Proofs.ChainTerm
import Efp.Proofs.LinksUpdate
/-!
# The engine's edit cycle keeps the graph consistent (Models C and F together)

From a consistent state of the link-bookkeeping model (Model F), export the dependency graph the way
the harness exports the real one (`toG`), run the literal port of `attr_updates_chain` (Model C) on the
value held by the edited input, and refresh the input and then the attributes of the values of that
chain, in that order (what `ModelingUpdate` does).  `edit_cycle_consistent`: the port terminates,
and the resulting state is consistent again — links mirrored, ids unique, every recorded ancestor live,
every value recording exactly the values currently held by what it reads.  By induction, after any
number of such edits (`edit_cycles_consistent`).
-/
namespace Efp.Links
open Efp.Graph

def nodeOf (s : LS) (v : Nat) : GNode :=
  { uid := v, sid := v, inDict := false, anc := (if s.attached v then (s.get v).anc else []),
    chi := (s.get v).chi, live := s.attached v }

/-- the exported graph: one node per allocated value; detached values keep no ancestor -/
def toG (s : LS) : G := Array.ofFn (n := s.size) (fun v => nodeOf s v.val)

theorem toG_size (s : LS) : (toG s).size = s.size := by simp [toG]

theorem toG_node (s : LS) (x : Nat) (hx : x < s.size) : (toG s).node x = nodeOf s x := by
  unfold G.node toG
  simp [getElem!_pos, hx]

def slotOf (s : LS) (v : Nat) : Slot := ((s.get v).cont).getD (0, 0)

/-- rank of a value: the rank of the attribute it is attached to -/
def rkV (s : LS) (rkS : Slot → Nat) (v : Nat) : Nat :=
  match (s.get v).cont with
  | some sl => rkS sl
  | none => 0

theorem toG_WF (s : LS) (hI : Inv s) : WF (toG s) := by
  intro x hx
  rw [toG_size] at hx
  rw [toG_node s x hx, toG_size]
  refine ⟨rfl, fun c hc => (hI.refs x).2 c hc, fun a ha => ?_⟩
  simp only [nodeOf] at ha
  split at ha
  · exact (hI.refs x).1 a ha
  · cases ha

theorem toG_ancInChi (s : LS) (hI : Inv s) :
    ∀ x, x < (toG s).size → ∀ a ∈ ((toG s).node x).anc, x ∈ ((toG s).node a).chi := by
  intro x hx a ha
  rw [toG_size] at hx
  rw [toG_node s x hx] at ha
  simp only [nodeOf] at ha
  split at ha
  · rename_i hatt
    have halt := (hI.refs x).1 a ha
    rw [toG_node s a halt]
    exact hI.mirror.1 x hatt a ha
  · cases ha

/-- in a consistent state, a listed child is held by an attribute that reads the parent's attribute -/
theorem child_reads (reads : Slot → List Slot) (s : LS) (hI : Inv s) (hC : Consistent reads s)
    (x c : Nat) (hc : c ∈ (s.get x).chi) :
    ∃ m n, (s.get x).cont = some m ∧ (s.get c).cont = some n ∧ m ∈ reads n := by
  obtain ⟨hatt, hxa⟩ := hI.mirror.2 x c hc
  obtain ⟨n, hn⟩ := (attached_iff s c).mp hatt
  have hh := hI.slot c n hn
  rw [(hC n c hh).2] at hxa
  obtain ⟨m, hm, hmx⟩ := (mem_holders s _ x).mp hxa
  exact ⟨m, n, (hC m x hmx).1, hn, hm⟩

theorem toG_rank (reads : Slot → List Slot) (rkS : Slot → Nat) (hrk : ∀ n, ∀ m ∈ reads n, rkS m < rkS n)
    (s : LS) (hI : Inv s) (hC : Consistent reads s) : RankOK (toG s) (rkV s rkS) := by
  intro x hx c hc
  rw [toG_size] at hx
  rw [toG_node s x hx] at hc
  obtain ⟨m, n, hm, hn, hmn⟩ := child_reads reads s hI hC x c hc
  simp only [rkV, hm, hn]
  exact hrk n m hmn

theorem reachN_rank (g : G) (hW : WF g) (rk : Nat → Nat) (hR : RankOK g rk) :
    ∀ x k y, ReachN g x k y → x < g.size → rk x + k ≤ rk y := by
  intro x k y h
  induction h with
  | child hc => intro hx; have := hR _ hx _ hc; omega
  | step hc _ ih =>
    intro hx
    have h1 := hR _ hx _ hc
    have h2 := ih ((hW _ hx).2.1 _ hc)
    omega

theorem slotOf_spec (s : LS) (v : Nat) (h : s.attached v = true) : (s.get v).cont = some (slotOf s v) := by
  obtain ⟨sl, hsl⟩ := (attached_iff s v).mp h
  simp [slotOf, hsl]

/-- what being reachable in the exported graph means in the model -/
theorem reach_facts (s : LS) (hI : Inv s) (a : Nat) (ha : a < s.size) (v : Nat) (h : Reach (toG s) a v) :
    s.attached v = true ∧ v < s.size ∧ ∃ q, (q = a ∨ Reach (toG s) a q) ∧ q < s.size ∧ v ∈ (s.get q).chi := by
  obtain ⟨q, hq, hvq⟩ := h.last
  have hqs : q < s.size := by
    rcases hq with rfl | hq
    · exact ha
    · have := reach_lt (toG s) (toG_WF s hI) a q hq (by rw [toG_size]; exact ha)
      rwa [toG_size] at this
  rw [toG_node s q hqs] at hvq
  have hvq' : v ∈ (s.get q).chi := hvq
  exact ⟨(hI.mirror.2 q v hvq').1, (hI.refs q).2 v hvq', q, hq, hqs, hvq'⟩

theorem refreshes_keep_held (reads : Slot → List Slot) (L : List Slot) :
    ∀ (s s' : LS), Inv s → NoDict s → HoldOK s → (∀ n ∈ L, (reads n).Nodup ∧ isDictSlot n = false) →
      L.foldlM (refresh reads) s = .ok s' → ∀ n v, s.holds n = some v → ∃ v', s'.holds n = some v' := by
  induction L with
  | nil => intro s s' _ _ _ _ h n v hv; simp [List.foldlM] at h; cases h; exact ⟨v, hv⟩
  | cons r R ih =>
    intro s s' hI hD hH hL h n v hv
    simp only [List.foldlM_cons, bind, Except.bind] at h
    split at h
    · cases h
    rename_i s1 hs1
    obtain ⟨i1, d1, g1, _, _, g4⟩ := refresh_spec reads s r s1 hI hD hH (hL r (by simp)).1 (hL r (by simp)).2 hs1
    have hH1 : HoldOK s1 := by
      intro m w hm
      rw [g1 m] at hm
      rw [g4 w]
      by_cases hmr : m = r
      · simp only [hmr, if_true] at hm
        cases hm
        simp [hmr]
      · simp only [hmr, if_false] at hm
        have hw : w ≠ s.size := by
          intro e
          have := hI.held m w hm
          omega
        simp only [hw, if_false]
        split
        · rename_i hr
          have c1 := hH m w hm
          have c2 := hH r w hr
          rw [c1] at c2
          cases c2
          exact absurd rfl hmr
        · exact hH m w hm
    have hheld1 : ∃ v1, s1.holds n = some v1 := by
      rw [g1 n]
      by_cases hnr : n = r
      · exact ⟨s.size, by simp [hnr]⟩
      · exact ⟨v, by simp [hnr, hv]⟩
    obtain ⟨v1, hv1⟩ := hheld1
    exact ih s1 s' i1 d1 hH1 (fun m hm => hL m (by simp [hm])) h n v1 hv1

/-- **one edit cycle**: the port of `attr_updates_chain` terminates on the exported graph, and refreshing the
edited input and then the attributes of its chain gives a consistent state again -/
theorem edit_cycle_consistent (reads : Slot → List Slot) (rkS : Slot → Nat)
    (hrk : ∀ n, ∀ m ∈ reads n, rkS m < rkS n) (hreads : ∀ n, (reads n).Nodup)
    (s : LS) (hI : Inv s) (hD : NoDict s) (hC : Consistent reads s)
    (hbuilt : ∀ n, reads n ≠ [] → ∃ v, s.holds n = some v)
    (u0 : Slot) (a : Nat) (hu0 : s.holds u0 = some a) (hru0 : reads u0 = [])
    (fuel : Nat) (hfuel : 2 * s.size + 2 ≤ fuel) (hbound : ∀ sl, rkS sl ≤ fuel) :
    ∃ chain, attrUpdatesChain (toG s) fuel a = some chain ∧
      ∀ s', (u0 :: (chain.map Prod.fst).map (slotOf s)).foldlM (refresh reads) s = .ok s' →
        Consistent reads s' ∧ Inv s' ∧ Live s' ∧ NoDict s' ∧
        (∀ n v, s.holds n = some v → ∃ v', s'.holds n = some v') := by
  have hW := toG_WF s hI
  have hB := toG_ancInChi s hI
  have hR := toG_rank reads rkS hrk s hI hC
  have ha : a < s.size := hI.held u0 a hu0
  have hag : a < (toG s).size := by rw [toG_size]; exact ha
  obtain ⟨chain, hchain⟩ := attrUpdatesChain_terminates (toG s) hW (rkV s rkS) hR hB fuel a hag
    (by rw [toG_size]; exact hfuel)
  refine ⟨chain, hchain, ?_⟩
  obtain ⟨hnd, hcomp, hsound, hord⟩ := attrUpdatesChain_correct (toG s) hW fuel a hag chain hchain
  intro s' hs'
  have hHold : HoldOK s := fun sl v hv => (hC sl v hv).1
  have hacont : (s.get a).cont = some u0 := hHold u0 a hu0
  -- facts about the values of the chain
  have hcs : ∀ v ∈ chain.map Prod.fst, s.attached v = true ∧ v < s.size := by
    intro v hv
    obtain ⟨h1, h2, _⟩ := reach_facts s hI a ha v (hsound v hv)
    exact ⟨h1, h2⟩
  -- a value held by an attribute that reads the attribute of `x` is a child of `x`
  have child_of : ∀ x m n c, (s.get x).cont = some m → s.holds n = some c → m ∈ reads n → c ∈ (s.get x).chi := by
    intro x m n c hx hn hmn
    have hxh : s.holds m = some x := hI.slot x m hx
    have hanc : x ∈ (s.get c).anc := by
      rw [(hC n c hn).2]
      exact (mem_holders s _ x).mpr ⟨m, hmn, hxh⟩
    exact hI.mirror.1 c ((attached_iff s c).mpr ⟨n, (hC n c hn).1⟩) x hanc
  -- every attribute that reads a refreshed attribute is refreshed
  have inL : ∀ n c, s.holds n = some c → (∃ x, (x = a ∨ x ∈ chain.map Prod.fst) ∧ ∃ m, (s.get x).cont = some m ∧ m ∈ reads n) →
      c ∈ chain.map Prod.fst := by
    intro n c hn ⟨x, hx, m, hxm, hmn⟩
    have hcx := child_of x m n c hxm hn hmn
    have hxs : x < s.size := by
      rcases hx with rfl | hx
      · exact ha
      · exact (hcs x hx).2
    have hedge : c ∈ ((toG s).node x).chi := by rw [toG_node s x hxs]; exact hcx
    rcases hx with rfl | hx
    · exact hcomp c (.child hedge)
    · exact hcomp c ((hsound x hx).snoc hedge)
  have hplainL : ∀ n ∈ u0 :: (chain.map Prod.fst).map (slotOf s), isDictSlot n = false := by
    intro n hn
    rcases List.mem_cons.mp hn with rfl | hn
    · exact hD a n hacont
    · obtain ⟨v, hv, rfl⟩ := List.mem_map.mp hn
      exact hD v _ (slotOf_spec s v (hcs v hv).1)
  have hheld := refreshes_keep_held reads _ s s' hI hD hHold (fun m hm => ⟨hreads m, hplainL m hm⟩) hs'
  suffices hmain : Consistent reads s' ∧ Inv s' ∧ Live s' ∧ NoDict s' from
    ⟨hmain.1, hmain.2.1, hmain.2.2.1, hmain.2.2.2, hheld⟩
  apply update_consistent reads (u0 :: (chain.map Prod.fst).map (slotOf s)) hreads hplainL ?_ ?_ s s' hI hD hC hs'
  · -- closed
    intro n hnL m hm hmL
    obtain ⟨c, hc⟩ := hbuilt n (by intro e; rw [e] at hm; cases hm)
    have hcin : c ∈ chain.map Prod.fst := by
      apply inL n c hc
      rcases List.mem_cons.mp hmL with rfl | hmL
      · exact ⟨a, Or.inl rfl, m, hacont, hm⟩
      · obtain ⟨x, hx, rfl⟩ := List.mem_map.mp hmL
        exact ⟨x, Or.inr hx, _, slotOf_spec s x (hcs x hx).1, hm⟩
    apply hnL
    have hcn : slotOf s c = n := by
      have := slotOf_spec s c (hcs c hcin).1
      rw [(hC n c hc).1] at this
      cases this; rfl
    exact List.mem_cons_of_mem _ (List.mem_map.mpr ⟨c, hcin, hcn⟩)
  · -- ordered
    intro l₁ n l₂ e m hm
    refine ⟨?_, fun e2 => ?_⟩
    · intro hml2
      cases l₁ with
      | nil =>
        simp only [List.nil_append, List.cons.injEq] at e
        rw [← e.1, hru0] at hm
        cases hm
      | cons h0 l₁' =>
        simp only [List.cons_append, List.cons.injEq] at e
        obtain ⟨_, e'⟩ := e
        -- split the chain at the value whose attribute is `n`
        obtain ⟨c1, c, c2, hsplit, hl1, hcn, hl2⟩ : ∃ c1 c c2, chain.map Prod.fst = c1 ++ c :: c2 ∧
            c1.map (slotOf s) = l₁' ∧ slotOf s c = n ∧ c2.map (slotOf s) = l₂ := by
          have := List.map_eq_append_iff.mp e'
          obtain ⟨c1, r, hcr, h1, h2⟩ := this
          obtain ⟨c, c2, hr, h3, h4⟩ := List.map_eq_cons_iff.mp h2
          exact ⟨c1, c, c2, by rw [hcr, hr], h1, h3, h4⟩
        rw [← hl2] at hml2
        obtain ⟨x, hx2, hxm⟩ := List.mem_map.mp hml2
        have hcin : c ∈ chain.map Prod.fst := by rw [hsplit]; simp
        have hxin : x ∈ chain.map Prod.fst := by rw [hsplit]; simp [hx2]
        have hcatt := (hcs c hcin).1
        have hxatt := (hcs x hxin).1
        have hcc : (s.get c).cont = some n := by rw [← hcn]; exact slotOf_spec s c hcatt
        have hxc : (s.get x).cont = some m := by rw [← hxm]; exact slotOf_spec s x hxatt
        have hholdc : s.holds n = some c := hI.slot c n hcc
        have hholdx : s.holds m = some x := hI.slot x m hxc
        have hxanc : x ∈ (s.get c).anc := by
          rw [(hC n c hholdc).2]
          exact (mem_holders s _ x).mpr ⟨m, hm, hholdx⟩
        have hxanc' : x ∈ ((toG s).node c).anc := by
          rw [toG_node s c (hcs c hcin).2]
          simp only [nodeOf, hcatt, if_true]
          exact hxanc
        obtain ⟨k, hk⟩ := (hsound x hxin).reachN
        have hkb : k ≤ fuel := by
          have h1 := reachN_rank (toG s) hW (rkV s rkS) hR a k x hk hag
          have h2 : rkV s rkS x ≤ fuel := by simp only [rkV, hxc]; exact hbound m
          omega
        have hx1 : x ∈ c1 := hord c1 c c2 hsplit x hxanc' k hk hkb
        have hdisj := List.nodup_append.mp (hsplit ▸ hnd)
        exact hdisj.2.2 x hx1 x (List.mem_cons_of_mem _ hx2) rfl
    · rw [e2] at hm
      exact Nat.lt_irrefl _ (hrk n n hm)

/-! ## any number of edits -/

/-- the engine's edit of the input attribute `u0`: derive the update order of the value it holds on the
exported graph, refresh the input, then the attributes of the chain -/
def editCycle (reads : Slot → List Slot) (B : Nat) (s : LS) (u0 : Slot) : LM LS :=
  match s.holds u0 with
  | none => .error .notAttached
  | some a =>
    match attrUpdatesChain (toG s) (2 * s.size + 2 + B) a with
    | none => .error .badRef       -- would be a hang of the real loop; excluded by `edit_cycle_consistent`
    | some chain => (u0 :: (chain.map Prod.fst).map (slotOf s)).foldlM (refresh reads) s

/-- **after any number of edits of input attributes the graph is consistent** -/
theorem edit_cycles_consistent (reads : Slot → List Slot) (rkS : Slot → Nat) (B : Nat)
    (hrk : ∀ n, ∀ m ∈ reads n, rkS m < rkS n) (hreads : ∀ n, (reads n).Nodup) (hB : ∀ sl, rkS sl ≤ B)
    (edits : List Slot) (hinputs : ∀ u ∈ edits, reads u = []) :
    ∀ (s s' : LS), Inv s → NoDict s → Consistent reads s → (∀ n, reads n ≠ [] → ∃ v, s.holds n = some v) →
      edits.foldlM (editCycle reads B) s = .ok s' →
      Consistent reads s' ∧ Inv s' ∧ Live s' := by
  induction edits with
  | nil =>
    intro s s' hI _ hC _ h
    simp [List.foldlM] at h
    cases h
    exact ⟨hC, hI, consistent_live reads s hC hI.slot⟩
  | cons u us ih =>
    intro s s' hI hD hC hbuilt h
    simp only [List.foldlM_cons, bind, Except.bind] at h
    split at h
    · cases h
    rename_i s1 hs1
    unfold editCycle at hs1
    split at hs1
    · cases hs1
    rename_i a ha
    obtain ⟨chain, hchain, hnext⟩ := edit_cycle_consistent reads rkS hrk hreads s hI hD hC hbuilt u a ha
      (hinputs u (by simp)) (2 * s.size + 2 + B) (by omega) (fun sl => by have := hB sl; omega)
    rw [hchain] at hs1
    simp only at hs1
    obtain ⟨c1, i1, _, hD1, hheld⟩ := hnext s1 hs1
    have hbuilt1 : ∀ n, reads n ≠ [] → ∃ v, s1.holds n = some v := by
      intro n hn
      obtain ⟨v, hv⟩ := hbuilt n hn
      exact hheld n v hv
    exact ih (fun u' hu' => hinputs u' (by simp [hu'])) s1 s' i1 hD1 c1 hbuilt1 h

end Efp.Links

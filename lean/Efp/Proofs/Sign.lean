import Efp.Proofs.Val
import Mathlib.Algebra.Order.Field.Basic
import Mathlib.Algebra.Order.Field.Rat
import Mathlib.Tactic.Positivity
import Mathlib.Tactic.Linarith
/-!
# Sign: the operations the footprint rules are made of keep non-negative values non-negative

`Series.NonNeg` / `Val.NonNeg` (every magnitude ≥ 0, unit scale > 0, so every physical value ≥ 0) are
closed under `+`, `×`, `.to`, `ceil`, shifts, the occurrence sums, the running sum, `.sum()`, `.max()`
and the accumulations of the rules (`sumVals`, `occFold`).  Subtraction is the only primitive that is
not: it is used for the storage deletions (C04) and nowhere else in the footprint rules.
-/
namespace Efp
namespace Series

def NonNeg (s : Series) : Prop := ∀ p ∈ s, 0 ≤ p.2

theorem nonNeg_nil : NonNeg [] := fun _ h => by cases h

theorem get_nonneg (s : Series) (h : NonNeg s) (t : Int) : 0 ≤ get s t := by
  unfold get
  cases hf : s.find? (fun p => p.1 == t) with
  | none => simp
  | some p => exact h p (List.mem_of_find?_eq_some hf)

theorem nonNeg_map_pair (U : List Int) (f : Int → Rat) (h : ∀ t, 0 ≤ f t) : NonNeg (U.map (fun t => (t, f t))) := by
  intro p hp
  rw [List.mem_map] at hp
  obtain ⟨t, _, rfl⟩ := hp
  exact h t

theorem nonNeg_add (a b : Series) (ha : NonNeg a) (hb : NonNeg b) : NonNeg (add a b) :=
  nonNeg_map_pair _ _ (fun t => add_nonneg (get_nonneg a ha t) (get_nonneg b hb t))

theorem nonNeg_mul (a b : Series) (ha : NonNeg a) (hb : NonNeg b) : NonNeg (mul a b) :=
  nonNeg_map_pair _ _ (fun t => mul_nonneg (get_nonneg a ha t) (get_nonneg b hb t))

theorem nonNeg_mapVals (f : Rat → Rat) (hf : ∀ x, 0 ≤ x → 0 ≤ f x) (a : Series) (ha : NonNeg a) : NonNeg (mapVals f a) := by
  intro p hp
  unfold mapVals at hp
  rw [List.mem_map] at hp
  obtain ⟨q, hq, rfl⟩ := hp
  exact hf _ (ha q hq)

theorem nonNeg_scale (c : Rat) (hc : 0 ≤ c) (a : Series) (ha : NonNeg a) : NonNeg (scale c a) :=
  nonNeg_mapVals _ (fun _ hx => mul_nonneg hc hx) a ha

theorem nonNeg_ceil (a : Series) (ha : NonNeg a) : NonNeg (ceil a) :=
  nonNeg_mapVals _ (fun _ hx => le_trans hx Rat.le_ceil) a ha

theorem nonNeg_shift (k : Int) (a : Series) (ha : NonNeg a) : NonNeg (shift k a) := by
  intro p hp
  unfold shift at hp
  rw [List.mem_map] at hp
  obtain ⟨q, hq, rfl⟩ := hp
  exact ha q hq

theorem nonNeg_cumsumAux (acc : Rat) (hacc : 0 ≤ acc) (a : Series) (ha : NonNeg a) : NonNeg (cumsumAux acc a) := by
  induction a generalizing acc with
  | nil => exact nonNeg_nil
  | cons p rest ih =>
    obtain ⟨k, v⟩ := p
    have hv : 0 ≤ v := ha (k, v) (by simp)
    intro q hq
    simp only [cumsumAux, List.mem_cons] at hq
    rcases hq with rfl | hq
    · exact add_nonneg hacc hv
    · exact ih (acc + v) (add_nonneg hacc hv) (fun r hr => ha r (List.mem_cons_of_mem _ hr)) q hq

theorem nonNeg_cumsum (a : Series) (ha : NonNeg a) : NonNeg (cumsum a) :=
  nonNeg_cumsumAux 0 (le_refl 0) a ha

theorem total_nonneg (a : Series) (ha : NonNeg a) : 0 ≤ total a := by
  unfold total
  apply List.sum_nonneg
  intro x hx
  rw [List.mem_map] at hx
  obtain ⟨p, hp, rfl⟩ := hx
  exact ha p hp

theorem maxVal_nonneg (a : Series) (ha : NonNeg a) (m : Rat) (h : maxVal a = some m) : 0 ≤ m := by
  cases a with
  | nil => cases h
  | cons p rest =>
    obtain ⟨k, v⟩ := p
    simp only [maxVal, Option.some.injEq] at h
    subst h
    have hv : 0 ≤ v := ha (k, v) (by simp)
    have hrest : ∀ q ∈ rest, 0 ≤ q.2 := fun q hq => ha q (List.mem_cons_of_mem _ hq)
    clear ha
    induction rest generalizing v with
    | nil => simpa using hv
    | cons q rest ih =>
      simp only [List.foldl_cons]
      apply ih
      · split
        · exact hrest q (by simp)
        · exact hv
      · exact fun r hr => hrest r (List.mem_cons_of_mem _ hr)

end Series

theorem nonNeg_sumShifts (s : Series) (hs : Series.NonNeg s) (n : Nat) : Series.NonNeg (sumShifts s n) := by
  induction n with
  | zero => exact Series.nonNeg_nil
  | succ n ih => exact Series.nonNeg_add _ _ ih (Series.nonNeg_shift _ s hs)

/-- occurrence-hours / journeys in parallel: non-negative starts and a non-negative duration give
non-negative averages -/
theorem nonNeg_avgOcc (s : Series) (hs : Series.NonNeg s) (dh : Rat) : Series.NonNeg (avgOccSeries s dh) := by
  unfold avgOccSeries
  simp only
  split
  · rename_i hrest
    split
    · exact Series.nonNeg_scale _ (le_of_lt hrest) _ (Series.nonNeg_shift _ s hs)
    · exact Series.nonNeg_add _ _ (nonNeg_sumShifts s hs _)
        (Series.nonNeg_scale _ (le_of_lt hrest) _ (Series.nonNeg_shift _ s hs))
  · exact nonNeg_sumShifts s hs _

namespace Val

/-- every magnitude is ≥ 0 and the unit's scale is > 0 (so every physical value is ≥ 0) -/
def NonNeg : Val → Prop
  | .empty => True
  | .q x => 0 ≤ x.mag ∧ 0 < x.unit.scale
  | .h x => Series.NonNeg x.vals ∧ 0 < x.unit.scale

theorem physAt_nonneg (v : Val) (h : NonNeg v) (t : Int) : 0 ≤ v.physAt t := by
  cases v with
  | empty => simp [physAt]
  | q x => simp [physAt]
  | h x => exact mul_nonneg (Series.get_nonneg _ h.1 t) (le_of_lt h.2)

theorem totalPhys_nonneg (v : Val) (h : NonNeg v) : 0 ≤ v.totalPhys := by
  cases v with
  | empty => simp [totalPhys]
  | q x => simp [totalPhys]
  | h x => exact mul_nonneg (Series.total_nonneg _ h.1) (le_of_lt h.2)

theorem nonNeg_add (a b v : Val) (ha : NonNeg a) (hb : NonNeg b) (h : a.add b = .ok v) : NonNeg v := by
  cases a with
  | empty =>
    simp only [add, Except.ok.injEq] at h
    subst h; exact hb
  | q x =>
    cases b with
    | empty => simp only [add, Except.ok.injEq] at h; subst h; exact ha
    | q y =>
      simp only [add, bind, Except.bind] at h
      cases hxy : x.add y with
      | error e => simp [hxy] at h
      | ok z =>
        simp only [hxy, pure, Except.pure, Except.ok.injEq] at h
        subst h
        unfold Qty.add at hxy
        split at hxy
        · simp only [Except.ok.injEq] at hxy
          subst hxy
          refine ⟨?_, ha.2⟩
          have : 0 ≤ y.phys / x.unit.scale := div_nonneg (mul_nonneg hb.1 (le_of_lt hb.2)) (le_of_lt ha.2)
          exact add_nonneg ha.1 this
        · cases hxy
    | h y => cases h
  | h x =>
    cases b with
    | empty => simp only [add, Except.ok.injEq] at h; subst h; exact ha
    | q y => cases h
    | h y =>
      simp only [add] at h
      split at h
      · simp only [Except.ok.injEq] at h
        subst h
        exact ⟨Series.nonNeg_add _ _ ha.1 (Series.nonNeg_scale _ (div_nonneg (le_of_lt hb.2) (le_of_lt ha.2)) _ hb.1), ha.2⟩
      · cases h

theorem nonNeg_mul (a b v : Val) (ha : NonNeg a) (hb : NonNeg b) (h : a.mul b = .ok v) : NonNeg v := by
  cases a with
  | empty => simp only [mul, Except.ok.injEq] at h; subst h; trivial
  | q x =>
    cases b with
    | empty => simp only [mul, Except.ok.injEq] at h; subst h; trivial
    | q y =>
      simp only [mul, Except.ok.injEq] at h; subst h
      exact ⟨mul_nonneg ha.1 hb.1, mul_pos ha.2 hb.2⟩
    | h y =>
      simp only [mul, Except.ok.injEq] at h; subst h
      exact ⟨Series.nonNeg_scale _ ha.1 _ hb.1, mul_pos hb.2 ha.2⟩
  | h x =>
    cases b with
    | empty => simp only [mul, Except.ok.injEq] at h; subst h; trivial
    | q y =>
      simp only [mul, Except.ok.injEq] at h; subst h
      exact ⟨Series.nonNeg_scale _ hb.1 _ ha.1, mul_pos ha.2 hb.2⟩
    | h y =>
      simp only [mul, Except.ok.injEq] at h; subst h
      exact ⟨Series.nonNeg_mul _ _ ha.1 hb.1, mul_pos ha.2 hb.2⟩

theorem nonNeg_div (a b v : Val) (ha : NonNeg a) (hb : NonNeg b) (h : a.div b = .ok v) : NonNeg v := by
  cases a with
  | empty =>
    cases b with
    | q y => simp only [div, Except.ok.injEq] at h; subst h; trivial
    | empty => cases h
    | h y => cases h
  | q x =>
    cases b with
    | empty => cases h
    | q y =>
      simp only [div, bind, Except.bind] at h
      cases hxy : x.div y with
      | error e => simp [hxy] at h
      | ok z =>
        simp only [hxy, pure, Except.pure, Except.ok.injEq] at h
        subst h
        unfold Qty.div at hxy
        split at hxy
        · cases hxy
        · simp only [Except.ok.injEq] at hxy
          subst hxy
          exact ⟨div_nonneg ha.1 hb.1, div_pos ha.2 hb.2⟩
    | h y =>
      simp only [div] at h
      split at h
      · cases h
      · simp only [Except.ok.injEq] at h
        subst h
        exact ⟨Series.nonNeg_mapVals _ (fun v hv => div_nonneg ha.1 hv) _ hb.1, div_pos ha.2 hb.2⟩
  | h x =>
    cases b with
    | empty => cases h
    | q y =>
      simp only [div] at h
      split at h
      · cases h
      · simp only [Except.ok.injEq] at h
        subst h
        exact ⟨Series.nonNeg_mapVals _ (fun v hv => div_nonneg hv hb.1) _ ha.1, div_pos ha.2 hb.2⟩
    | h y => cases h

theorem nonNeg_to (a v : Val) (u : Efp.Unit) (hu : 0 < u.scale) (ha : NonNeg a) (h : a.to u = .ok v) : NonNeg v := by
  cases a with
  | empty => simp only [Val.to, Except.ok.injEq] at h; subst h; trivial
  | q x =>
    simp only [Val.to, bind, Except.bind] at h
    cases hxy : x.to u with
    | error e => simp [hxy] at h
    | ok z =>
      simp only [hxy, pure, Except.pure, Except.ok.injEq] at h
      subst h
      unfold Qty.to at hxy
      split at hxy
      · simp only [Except.ok.injEq] at hxy
        subst hxy
        exact ⟨div_nonneg (mul_nonneg ha.1 (le_of_lt ha.2)) (le_of_lt hu), hu⟩
      · cases hxy
  | h x =>
    simp only [Val.to, bind, Except.bind] at h
    cases hxy : x.to u with
    | error e => simp [hxy] at h
    | ok z =>
      simp only [hxy, pure, Except.pure, Except.ok.injEq] at h
      subst h
      unfold HQ.to at hxy
      split at hxy
      · simp only [Except.ok.injEq] at hxy
        subst hxy
        exact ⟨Series.nonNeg_scale _ (div_nonneg (le_of_lt ha.2) (le_of_lt hu)) _ ha.1, hu⟩
      · cases hxy

theorem nonNeg_ceil (a : Val) (ha : NonNeg a) : NonNeg a.ceil := by
  cases a with
  | empty => trivial
  | q x =>
    exact ⟨le_trans ha.1 Rat.le_ceil, ha.2⟩
  | h x => exact ⟨Series.nonNeg_ceil _ ha.1, ha.2⟩

theorem nonNeg_sum (a v : Val) (ha : NonNeg a) (h : a.sum = .ok v) : NonNeg v := by
  cases a with
  | empty => simp only [sum, Except.ok.injEq] at h; subst h; trivial
  | q x => cases h
  | h x => simp only [sum, Except.ok.injEq] at h; subst h; exact ⟨Series.total_nonneg _ ha.1, ha.2⟩

theorem nonNeg_max (a v : Val) (ha : NonNeg a) (h : a.max = .ok v) : NonNeg v := by
  cases a with
  | empty => simp only [max, Except.ok.injEq] at h; subst h; trivial
  | q x => cases h
  | h x =>
    simp only [max] at h
    cases hm : Series.maxVal x.vals with
    | none => simp [hm] at h
    | some m =>
      simp only [hm, Except.ok.injEq] at h
      subst h
      exact ⟨Series.maxVal_nonneg _ ha.1 m hm, ha.2⟩

theorem nonNeg_shiftBy (a v : Val) (k : Int) (ha : NonNeg a) (h : a.shiftBy k = .ok v) : NonNeg v := by
  cases a with
  | empty => cases h
  | q x => cases h
  | h x => simp only [shiftBy, Except.ok.injEq] at h; subst h; exact ⟨Series.nonNeg_shift _ _ ha.1, ha.2⟩

end Val

/-- the accumulation every total is made with (`sum(…, start=EmptyExplainableObject())`) -/
theorem nonNeg_sumVals (l : List Val) (start v : Val) (hs : Val.NonNeg start) (hl : ∀ x ∈ l, Val.NonNeg x)
    (h : sumVals start l = .ok v) : Val.NonNeg v := by
  induction l generalizing start with
  | nil =>
    simp only [sumVals, List.foldlM, pure, Except.pure, Except.ok.injEq] at h
    subst h; exact hs
  | cons x xs ih =>
    simp only [sumVals, List.foldlM, bind, Except.bind] at h
    cases hx : start.add x with
    | error e => simp [hx] at h
    | ok acc =>
      simp only [hx] at h
      exact ih acc (Val.nonNeg_add start x acc hs (hl x (by simp)) hx)
        (fun y hy => hl y (List.mem_cons_of_mem _ hy)) h

end Efp

import Efp.Model.Calc
import Efp.Proofs.Series
/-!
# Helper lemmas on `Val`-level operations (physical views, folds used by the rules)
-/
namespace Efp

namespace Val
/-- physical total of a value over time (0 for Empty and scalars) -/
def totalPhys : Val → Rat
  | .h x => x.totalPhys
  | _ => 0

/-- physical value at an hour (0 where there is nothing) -/
def physAt : Val → Int → Rat
  | .h x, t => x.phys t
  | _, _ => 0

/-- an hourly value in unit `u` with a sorted index, or Empty -/
def HourlyIn (v : Val) (u : Efp.Unit) : Prop :=
  v = .empty ∨ ∃ a : Series, v = .h ⟨a, u⟩ ∧ Series.Sorted a
end Val

theorem add_h_same (a b : Series) (u : Efp.Unit) (hu : u.scale ≠ 0) :
    Val.add (.h ⟨a, u⟩) (.h ⟨b, u⟩) = .ok (.h ⟨Series.add a b, u⟩) := by
  simp only [Val.add, if_true]
  rw [div_self hu, Series.scale_one]

/-- one step of the accumulations the rules perform: `acc + x` for an hourly `x` in the same unit -/
theorem add_hourlyIn (acc : Val) (x : Series) (u : Efp.Unit) (hu : u.scale ≠ 0)
    (hacc : acc.HourlyIn u) (hx : Series.Sorted x) :
    ∃ v, acc.add (.h ⟨x, u⟩) = .ok v ∧ v.HourlyIn u ∧ v ≠ .empty ∧
      (∀ t, v.physAt t = acc.physAt t + Series.get x t * u.scale) ∧
      v.totalPhys = acc.totalPhys + Series.total x * u.scale := by
  rcases hacc with rfl | ⟨a, rfl, ha⟩
  · refine ⟨.h ⟨x, u⟩, rfl, Or.inr ⟨x, rfl, hx⟩, by simp, ?_, ?_⟩
    · intro t; simp [Val.physAt, HQ.phys]
    · simp [Val.totalPhys, HQ.totalPhys]
  · refine ⟨.h ⟨Series.add a x, u⟩, add_h_same a x u hu, Or.inr ⟨_, rfl, Series.sorted_add a x ha⟩, by simp, ?_, ?_⟩
    · intro t; simp only [Val.physAt, HQ.phys, Series.get_add]; ring
    · simp only [Val.totalPhys, HQ.totalPhys]
      rw [Series.total_add a x ha hx.nodup]; ring

end Efp

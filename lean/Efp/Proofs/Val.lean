import Efp.Model.Calc
import Efp.Proofs.Series
/-!
# Helper lemmas on `Val`-level operations (physical views, folds used by the rules)
-/
namespace Efp

namespace Val
/-- physical total of a value over time (0 for Empty and scalars) -/
def totalPhys : Val → Rat
  | .h x => x.totalPhys
  | _ => 0

/-- physical value at an hour (0 where there is nothing) -/
def physAt : Val → Int → Rat
  | .h x, t => x.phys t
  | _, _ => 0

/-- an hourly value in unit `u` with a sorted index, or Empty -/
def HourlyIn (v : Val) (u : Efp.Unit) : Prop :=
  v = .empty ∨ ∃ a : Series, v = .h ⟨a, u⟩ ∧ Series.Sorted a
end Val

theorem add_h_same (a b : Series) (u : Efp.Unit) (hu : u.scale ≠ 0) :
    Val.add (.h ⟨a, u⟩) (.h ⟨b, u⟩) = .ok (.h ⟨Series.add a b, u⟩) := by
  simp only [Val.add, if_true]
  rw [div_self hu, Series.scale_one]

/-- one step of the accumulations the rules perform: `acc + x` for an hourly `x` in the same unit -/
theorem add_hourlyIn (acc : Val) (x : Series) (u : Efp.Unit) (hu : u.scale ≠ 0)
    (hacc : acc.HourlyIn u) (hx : Series.Sorted x) :
    ∃ v, acc.add (.h ⟨x, u⟩) = .ok v ∧ v.HourlyIn u ∧ v ≠ .empty ∧
      (∀ t, v.physAt t = acc.physAt t + Series.get x t * u.scale) ∧
      v.totalPhys = acc.totalPhys + Series.total x * u.scale := by
  rcases hacc with rfl | ⟨a, rfl, ha⟩
  · refine ⟨.h ⟨x, u⟩, rfl, Or.inr ⟨x, rfl, hx⟩, by simp, ?_, ?_⟩
    · intro t; simp [Val.physAt, HQ.phys]
    · simp [Val.totalPhys, HQ.totalPhys]
  · refine ⟨.h ⟨Series.add a x, u⟩, add_h_same a x u hu, Or.inr ⟨_, rfl, Series.sorted_add a x ha⟩, by simp, ?_, ?_⟩
    · intro t; simp only [Val.physAt, HQ.phys, Series.get_add]; ring
    · simp only [Val.totalPhys, HQ.totalPhys]
      rw [Series.total_add a x ha hx.nodup]; ring


theorem physAt_empty (t : Int) : Val.physAt .empty t = 0 := rfl
theorem totalPhys_empty : Val.totalPhys .empty = 0 := rfl

/-- `acc + x` where `x` is Empty or hourly in the accumulator's unit -/
theorem add_hourlyIn' (acc x : Val) (u : Efp.Unit) (hu : u.scale ≠ 0)
    (hacc : acc.HourlyIn u) (hx : x.HourlyIn u) :
    ∃ v, acc.add x = .ok v ∧ v.HourlyIn u ∧
      (∀ t, v.physAt t = acc.physAt t + x.physAt t) ∧
      v.totalPhys = acc.totalPhys + x.totalPhys := by
  rcases hx with rfl | ⟨b, rfl, hb⟩
  · rcases hacc with rfl | ⟨a, rfl, ha⟩
    · exact ⟨.empty, rfl, Or.inl rfl, by intro t; simp [Val.physAt], by simp [Val.totalPhys]⟩
    · exact ⟨_, rfl, Or.inr ⟨a, rfl, ha⟩, by intro t; simp [Val.physAt], by simp [Val.totalPhys]⟩
  · obtain ⟨v, h, hv, _, hp, ht⟩ := add_hourlyIn acc b u hu hacc hb
    exact ⟨v, h, hv, by intro t; rw [hp t]; simp [Val.physAt, HQ.phys], by rw [ht]; simp [Val.totalPhys, HQ.totalPhys]⟩

/-- `sum(values, start=acc)`: hour by hour the result is the sum of the parts -/
theorem sumVals_spec (u : Efp.Unit) (hu : u.scale ≠ 0) (vs : List Val) (acc : Val)
    (hacc : acc.HourlyIn u) (hvs : ∀ v ∈ vs, v.HourlyIn u) :
    ∃ r, sumVals acc vs = .ok r ∧ r.HourlyIn u ∧
      (∀ t, r.physAt t = acc.physAt t + (vs.map (fun v => v.physAt t)).sum) ∧
      r.totalPhys = acc.totalPhys + (vs.map Val.totalPhys).sum := by
  induction vs generalizing acc with
  | nil => exact ⟨acc, rfl, hacc, by simp, by simp⟩
  | cons x xs ih =>
    obtain ⟨v1, h1, hv1, hp1, ht1⟩ := add_hourlyIn' acc x u hu hacc (hvs x (by simp))
    obtain ⟨r, h2, hr, hp, ht⟩ := ih v1 hv1 (fun v hv => hvs v (by simp [hv]))
    refine ⟨r, ?_, hr, ?_, ?_⟩
    · simp only [sumVals, List.foldlM_cons, bind, Except.bind] at h2 ⊢
      rw [h1]; exact h2
    · intro t; rw [hp t, hp1 t]; simp only [List.map_cons, List.sum_cons]; ring
    · rw [ht, ht1]; simp only [List.map_cons, List.sum_cons]; ring

end Efp

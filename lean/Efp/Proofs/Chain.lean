import Efp.Model.Graph
/-!
# The literal port of `attr_updates_chain` is correct on graphs without shared ids

`Efp.Graph.attrUpdatesChain` is a line-by-line port of `ExplainableObject.attr_updates_chain`
(including Python's aliasing of the list being iterated).  This file proves, for every graph whose
ids are unique (`WF`: the interned id of node `x` is `x`; ids are shared only by the entries of one
per-usage-pattern dict, i.e. outside the D2 domain), every source `u` and every amount of fuel:
**if the algorithm returns a chain**, that chain

* lists no node twice,
* contains every node reachable from `u` through `direct_children_with_id`,
* lists a node only after all of its ancestors that descend from `u`,
* contains only nodes reachable from `u`.

No acyclicity or bidirectionality hypothesis is needed for these; they bear on termination only
(the function returns `none` when it runs out of fuel or meets `u` among its own descendants).
-/
namespace Efp.Graph

/-- ids are unique and edges stay inside the graph -/
def WF (g : G) : Prop :=
  ∀ x, x < g.size → (g.node x).sid = x ∧ (∀ c ∈ (g.node x).chi, c < g.size) ∧ (∀ a ∈ (g.node x).anc, a < g.size)

/-- `y` is reachable from `x` through at least one child edge -/
inductive Reach (g : G) : Nat → Nat → Prop
  | child {x c : Nat} : c ∈ (g.node x).chi → Reach g x c
  | step {x c y : Nat} : c ∈ (g.node x).chi → Reach g c y → Reach g x y

/-- … through exactly `k ≥ 1` child edges -/
inductive ReachN (g : G) : Nat → Nat → Nat → Prop
  | child {x c : Nat} : c ∈ (g.node x).chi → ReachN g x 1 c
  | step {x c y k : Nat} : c ∈ (g.node x).chi → ReachN g c k y → ReachN g x (k + 1) y

theorem Reach.snoc {g : G} {x p c : Nat} (h : Reach g x p) (hc : c ∈ (g.node p).chi) : Reach g x c := by
  induction h with
  | child h1 => exact .step h1 (.child hc)
  | step h1 _ ih => exact .step h1 (ih hc)

theorem ReachN.reach {g : G} {x k y : Nat} (h : ReachN g x k y) : Reach g x y := by
  induction h with
  | child h1 => exact .child h1
  | step h1 _ ih => exact .step h1 ih

theorem Reach.reachN {g : G} {x y : Nat} (h : Reach g x y) : ∃ k, ReachN g x k y := by
  induction h with
  | child h1 => exact ⟨1, .child h1⟩
  | step h1 _ ih => obtain ⟨k, hk⟩ := ih; exact ⟨k + 1, .step h1 hk⟩

/-! ## `all_descendants_with_id` finds every descendant within the fuel -/

theorem foldl_mem_of_mono {α β : Type} (F : List α → β → List α) (P : α → Prop)
    (mono : ∀ acc b, (∃ y ∈ acc, P y) → ∃ y ∈ F acc b, P y)
    (cs : List β) (acc : List α) (h : ∃ y ∈ acc, P y) : ∃ y ∈ cs.foldl F acc, P y := by
  induction cs generalizing acc with
  | nil => exact h
  | cons c cs ih => exact ih _ (mono acc c h)

theorem foldl_mem_of_step {α β : Type} (F : List α → β → List α) (P : α → Prop)
    (mono : ∀ acc b, (∃ y ∈ acc, P y) → ∃ y ∈ F acc b, P y)
    (c : β) (hit : ∀ acc, ∃ y ∈ F acc c, P y)
    (cs : List β) (hc : c ∈ cs) (acc : List α) : ∃ y ∈ cs.foldl F acc, P y := by
  induction cs generalizing acc with
  | nil => cases hc
  | cons d cs ih =>
    simp only [List.foldl_cons]
    rcases List.mem_cons.mp hc with rfl | h
    · exact foldl_mem_of_mono F P mono cs _ (hit acc)
    · exact ih h _

theorem descAux_mono (g : G) (P : Nat → Prop) (f : Nat) :
    ∀ x acc, (∃ y ∈ acc, P y) → ∃ y ∈ descAux g f x acc, P y := by
  induction f with
  | zero => intro x acc h; exact h
  | succ f ih =>
    intro x acc h
    simp only [descAux]
    apply foldl_mem_of_mono _ P _ _ _ h
    intro acc c h
    apply ih
    split
    · exact h
    · obtain ⟨y, hy, hp⟩ := h; exact ⟨y, by simp [hy], hp⟩

/-- every node within `f` child edges of `x` is in the result, up to its id -/
theorem descAux_complete (g : G) (f : Nat) :
    ∀ x acc k y, ReachN g x k y → k ≤ f → ∃ d ∈ descAux g f x acc, (g.node d).sid = (g.node y).sid := by
  induction f with
  | zero =>
    intro x acc k y h hk
    cases h <;> omega
  | succ f ih =>
    intro x acc k y h hk
    simp only [descAux]
    have mono : ∀ (acc : List Nat) (c : Nat), (∃ d ∈ acc, (g.node d).sid = (g.node y).sid) →
        ∃ d ∈ descAux g f c (if acc.any (fun d => (g.node d).sid == (g.node c).sid) then acc else acc ++ [c]),
          (g.node d).sid = (g.node y).sid := by
      intro acc c h
      apply descAux_mono g (fun d => (g.node d).sid = (g.node y).sid)
      split
      · exact h
      · obtain ⟨d, hd, hp⟩ := h; exact ⟨d, by simp [hd], hp⟩
    cases h with
    | child hc =>
      apply foldl_mem_of_step _ (fun d => (g.node d).sid = (g.node y).sid) mono y _ _ hc
      intro acc
      apply descAux_mono g (fun d => (g.node d).sid = (g.node y).sid)
      split
      · rename_i hany
        simp only [List.any_eq_true, beq_iff_eq] at hany
        exact hany
      · exact ⟨y, by simp, rfl⟩
    | @step _ c _ k' hc hr =>
      apply foldl_mem_of_step _ (fun d => (g.node d).sid = (g.node y).sid) mono c _ _ hc
      intro acc
      exact ih c _ k' y hr (by omega)

theorem allDescendants_complete (g : G) (f u k y : Nat) (h : ReachN g u k y) (hk : k ≤ f) :
    ((allDescendants g f u).map (fun d => (g.node d).sid)).contains (g.node y).sid = true := by
  obtain ⟨d, hd, hs⟩ := descAux_complete g f u [] k y h hk
  simp only [List.contains_eq_mem, List.mem_map, decide_eq_true_eq]
  exact ⟨d, hd, hs⟩

/-! ## the work-list loops -/

/-- in reverse order of addition: everything a node waits for was added before it -/
def OrdRev (g : G) (D : List Nat) : List Nat → Prop
  | [] => True
  | c :: rest => (∀ a ∈ (g.node c).anc, D.contains (g.node a).sid = true → a ∈ rest) ∧ OrdRev g D rest

structure Good (g : G) (u : Nat) (D : List Nat) (s : St) : Prop where
  chain_eq : s.chain.map Prod.fst = s.added.reverse
  nodup : s.added.Nodup
  ord : OrdRev g D s.added
  reach : ∀ c ∈ s.added, Reach g u c ∧ c < g.size
  pending : ∀ x, (x = u ∨ x ∈ s.added) → (∃ c ∈ (g.node x).chi, c ∉ s.added) → x ∈ s.cur
  curOk : ∀ x ∈ s.cur, x < g.size ∧ (x = u ∨ x ∈ s.added)
  iterOk : ∀ x ∈ s.iter, x < g.size ∧ (x = u ∨ x ∈ s.added)

def Inv (g : G) (u : Nat) (D : List Nat) (s : St) : Prop := s.err = true ∨ Good g u D s

theorem childStep_spec (g : G) (hwf : WF g) (u : Nat) (D : List Nat) (p : Nat) (hp : p < g.size)
    (s : St) (drop : Bool) (c : Nat) (hc : c ∈ (g.node p).chi)
    (hpu : s.err = true ∨ p = u ∨ p ∈ s.added) (hinv : Inv g u D s) :
    Inv g u D (childStep g u D (s, drop) c).1 ∧
    (∀ x ∈ s.added, x ∈ (childStep g u D (s, drop) c).1.added) ∧
    (s.err = true → (childStep g u D (s, drop) c).1.err = true) ∧
    ((childStep g u D (s, drop) c).2 = true →
      drop = true ∧ ((childStep g u D (s, drop) c).1.err = true ∨ c ∈ (childStep g u D (s, drop) c).1.added)) := by
  have hcs : c < g.size := (hwf p hp).2.1 c hc
  have hsid : (g.node c).sid = c := (hwf c hcs).1
  unfold childStep
  simp only [hsid]
  by_cases h1 : c = u
  · simp [h1, Inv]
  · simp only [beq_iff_eq, h1, if_false]
    by_cases h2 : c ∈ s.added
    · simp only [List.contains_eq_mem, h2, decide_true, if_true]
      refine ⟨hinv, fun x hx => hx, fun h => h, fun h => ⟨h, Or.inr ?_⟩⟩
      first | exact h2 | trivial
    · simp only [List.contains_eq_mem, h2, decide_false, if_false, Bool.false_eq_true]
      split
      · rename_i hall
        -- the child is appended
        have hwait : ∀ a ∈ (g.node c).anc, D.contains (g.node a).sid = true → a ∈ s.added := by
          intro a ha hD
          have := (List.all_eq_true.mp hall) a (List.mem_filter.mpr ⟨ha, by simpa using hD⟩)
          have ha' : a < g.size := (hwf c hcs).2.2 a ha
          rw [(hwf a ha').1] at this
          simpa using this
        have key : ∀ (cur' iter' : List Nat) (same' : Bool),
            (∀ x ∈ s.cur, x ∈ cur') → (∀ x ∈ cur', x ∈ s.cur ∨ x = c) →
            ((g.node c).chi.length > 0 → c ∈ cur') →
            (∀ x ∈ iter', x ∈ s.iter ∨ x = c) →
            Inv g u D { s with chain := s.chain ++ [(c, (g.node c).inDict)], added := c :: s.added,
                               cur := cur', iter := iter', same := same' } := by
          intro cur' iter' same' hsub hsup hcin hit
          by_cases he : s.err = true
          · exact Or.inl he
          rcases hinv with he' | hg
          · exact absurd he' he
          · refine Or.inr ⟨?_, ?_, ?_, ?_, ?_, ?_, ?_⟩
            · simp [hg.chain_eq]
            · exact List.nodup_cons.mpr ⟨h2, hg.nodup⟩
            · exact ⟨hwait, hg.ord⟩
            · intro x hx
              rcases List.mem_cons.mp hx with rfl | hx
              · refine ⟨?_, hcs⟩
                rcases hpu with he' | rfl | hpa
                · exact absurd he' he
                · exact .child hc
                · exact (hg.reach p hpa).1.snoc hc
              · exact hg.reach x hx
            · intro x hx ⟨d, hd, hdn⟩
              have hdn' : d ∉ s.added := fun h => hdn (List.mem_cons_of_mem _ h)
              rcases hx with rfl | hx
              · exact hsub _ (hg.pending x (Or.inl rfl) ⟨d, hd, hdn'⟩)
              · rcases List.mem_cons.mp hx with rfl | hx
                · exact hcin (by
                    cases hch : (g.node x).chi with
                    | nil => rw [hch] at hd; cases hd
                    | cons _ _ => simp)
                · exact hsub _ (hg.pending x (Or.inr hx) ⟨d, hd, hdn'⟩)
            · intro x hx
              rcases hsup x hx with h | rfl
              · obtain ⟨h1', h2'⟩ := hg.curOk x h
                exact ⟨h1', h2'.imp id (List.mem_cons_of_mem _)⟩
              · exact ⟨hcs, Or.inr (List.mem_cons_self)⟩
            · intro x hx
              rcases hit x hx with h | rfl
              · obtain ⟨h1', h2'⟩ := hg.iterOk x h
                exact ⟨h1', h2'.imp id (List.mem_cons_of_mem _)⟩
              · exact ⟨hcs, Or.inr (List.mem_cons_self)⟩
        by_cases hlen : (g.node c).chi.length > 0
        · by_cases hsame : s.same = true
          · simp only [hlen, hsame, if_true]
            refine ⟨key (s.cur ++ [c]) (s.iter ++ [c]) true (fun x hx => by simp [hx]) (fun x hx => by simpa using hx)
              (fun _ => by simp) (fun x hx => by simpa using hx), fun x hx => List.mem_cons_of_mem _ hx, fun h => h,
              fun h => ⟨h, Or.inr List.mem_cons_self⟩⟩
          · have hs : s.same = false := by simpa using hsame
            simp only [hlen, hs, if_true, Bool.false_eq_true, if_false]
            refine ⟨?_, fun x hx => List.mem_cons_of_mem _ hx, fun h => h, fun h => ⟨h, Or.inr List.mem_cons_self⟩⟩
            have := key (s.cur ++ [c]) s.iter false (fun x hx => by simp [hx]) (fun x hx => by simpa using hx)
              (fun _ => by simp) (fun x hx => Or.inl hx)
            exact this
        · simp only [hlen, if_false]
          refine ⟨?_, fun x hx => List.mem_cons_of_mem _ hx, fun h => h, fun h => ⟨h, Or.inr List.mem_cons_self⟩⟩
          exact key s.cur s.iter s.same (fun x hx => hx) (fun x hx => Or.inl hx) (fun h => absurd h hlen) (fun x hx => Or.inl hx)
      · exact ⟨hinv, fun x hx => hx, fun h => h, fun h => by cases h⟩

theorem fold_spec (g : G) (hwf : WF g) (u : Nat) (D : List Nat) (p : Nat) (hp : p < g.size)
    (cs : List Nat) (hcs : ∀ c ∈ cs, c ∈ (g.node p).chi) :
    ∀ (s : St) (drop : Bool), (s.err = true ∨ p = u ∨ p ∈ s.added) → Inv g u D s →
    Inv g u D (cs.foldl (childStep g u D) (s, drop)).1 ∧
    (∀ x ∈ s.added, x ∈ (cs.foldl (childStep g u D) (s, drop)).1.added) ∧
    (s.err = true → (cs.foldl (childStep g u D) (s, drop)).1.err = true) ∧
    ((cs.foldl (childStep g u D) (s, drop)).2 = true →
      drop = true ∧ ((cs.foldl (childStep g u D) (s, drop)).1.err = true ∨
        ∀ c ∈ cs, c ∈ (cs.foldl (childStep g u D) (s, drop)).1.added)) := by
  induction cs with
  | nil =>
    intro s drop _ hinv
    exact ⟨hinv, fun x hx => hx, fun h => h, fun h => ⟨h, Or.inr (fun c hc => by cases hc)⟩⟩
  | cons c cs ih =>
    intro s drop hpu hinv
    simp only [List.foldl_cons]
    have hc : c ∈ (g.node p).chi := hcs c (by simp)
    obtain ⟨h1, h2, h3, h4⟩ := childStep_spec g hwf u D p hp s drop c hc hpu hinv
    rcases hst : childStep g u D (s, drop) c with ⟨s1, d1⟩
    rw [hst] at h1 h2 h3 h4
    simp only at h1 h2 h3 h4
    have hpu1 : s1.err = true ∨ p = u ∨ p ∈ s1.added := by
      rcases hpu with h | h | h
      · exact Or.inl (h3 h)
      · exact Or.inr (Or.inl h)
      · exact Or.inr (Or.inr (h2 p h))
    obtain ⟨i1, i2, i3, i4⟩ := ih (fun c' hc' => hcs c' (by simp [hc'])) s1 d1 hpu1 h1
    refine ⟨i1, fun x hx => i2 x (h2 x hx), fun h => i3 (h3 h), fun h => ?_⟩
    obtain ⟨hd1, hrest⟩ := i4 h
    obtain ⟨hdrop, hc1⟩ := h4 hd1
    refine ⟨hdrop, ?_⟩
    rcases hrest with he | hall
    · exact Or.inl he
    · rcases hc1 with he1 | hin
      · exact Or.inl (i3 he1)
      · refine Or.inr (fun c' hc' => ?_)
        rcases List.mem_cons.mp hc' with rfl | h'
        · exact i2 _ hin
        · exact hall c' h'

/-! errors are sticky -/
theorem childStep_err (g : G) (u : Nat) (D : List Nat) (s : St) (d : Bool) (c : Nat) (h : s.err = true) :
    (childStep g u D (s, d) c).1.err = true := by
  unfold childStep
  simp only
  repeat' split
  all_goals simp [h]

theorem fold_err (g : G) (u : Nat) (D : List Nat) (cs : List Nat) :
    ∀ (s : St) (d : Bool), s.err = true → (cs.foldl (childStep g u D) (s, d)).1.err = true := by
  induction cs with
  | nil => intro s d h; exact h
  | cons c cs ih =>
    intro s d h
    simp only [List.foldl_cons]
    have := childStep_err g u D s d c h
    rcases hst : childStep g u D (s, d) c with ⟨s1, d1⟩
    rw [hst] at this
    exact ih s1 d1 this

theorem forLoop_err (g : G) (u : Nat) (D : List Nat) (fuel : Nat) :
    ∀ (i : Nat) (s : St), s.err = true → (forLoop g u D fuel i s).err = true := by
  induction fuel with
  | zero => intro i s _; rfl
  | succ fuel ih =>
    intro i s h
    unfold forLoop
    split
    · apply ih
      have := fold_err g u D (g.node s.iter[i]).chi s true h
      rcases hst : List.foldl (childStep g u D) (s, true) (g.node s.iter[i]).chi with ⟨s1, d1⟩
      rw [hst] at this
      simp only at this ⊢
      split <;> simp [this]
    · exact h

theorem forLoop_inv (g : G) (hwf : WF g) (u : Nat) (D : List Nat) (fuel : Nat) :
    ∀ (i : Nat) (s : St), Inv g u D s → Inv g u D (forLoop g u D fuel i s) := by
  induction fuel with
  | zero => intro i s _; exact Or.inl rfl
  | succ fuel ih =>
    intro i s hinv
    by_cases he : s.err = true
    · exact Or.inl (forLoop_err g u D _ i s he)
    have hg : Good g u D s := hinv.resolve_left he
    unfold forLoop
    split
    · rename_i hi
      apply ih
      obtain ⟨hp, hpu⟩ := hg.iterOk s.iter[i] (List.getElem_mem hi)
      obtain ⟨f1, _, _, f4⟩ := fold_spec g hwf u D s.iter[i] hp (g.node s.iter[i]).chi (fun c hc => hc) s true
        (Or.inr hpu) hinv
      rcases hst : List.foldl (childStep g u D) (s, true) (g.node s.iter[i]).chi with ⟨s1, d1⟩
      rw [hst] at f1 f4
      simp only at f1 f4 ⊢
      split
      · rename_i hd
        by_cases he1 : s1.err = true
        · exact Or.inl he1
        have hg1 : Good g u D s1 := f1.resolve_left he1
        have hall : ∀ c ∈ (g.node s.iter[i]).chi, c ∈ s1.added := ((f4 hd).2).resolve_left he1
        refine Or.inr ⟨hg1.chain_eq, hg1.nodup, hg1.ord, hg1.reach, ?_, ?_, hg1.iterOk⟩
        · intro x hx ⟨d, hd', hdn⟩
          have hxc := hg1.pending x hx ⟨d, hd', hdn⟩
          refine List.mem_filter.mpr ⟨hxc, ?_⟩
          have hxs := (hg1.curOk x hxc).1
          rw [(hwf x hxs).1, (hwf _ hp).1]
          simp only [bne_iff_ne, ne_eq]
          intro e
          subst e
          exact hdn (hall d hd')
        · intro x hx
          exact hg1.curOk x (List.mem_filter.mp hx).1
      · exact f1
    · exact hinv

theorem whileLoop_inv (g : G) (hwf : WF g) (u : Nat) (D : List Nat) (fuel : Nat) :
    ∀ (s : St), Inv g u D s → Inv g u D (whileLoop g u D fuel s) := by
  induction fuel with
  | zero => intro s _; exact Or.inl rfl
  | succ fuel ih =>
    intro s hinv
    unfold whileLoop
    split
    · exact hinv
    · rename_i he
      split
      · exact hinv
      · apply ih
        apply forLoop_inv g hwf
        have hg : Good g u D s := hinv.resolve_left he
        exact Or.inr ⟨hg.chain_eq, hg.nodup, hg.ord, hg.reach, hg.pending, hg.curOk, hg.curOk⟩

theorem whileLoop_done (g : G) (u : Nat) (D : List Nat) (fuel : Nat) :
    ∀ (s : St), (whileLoop g u D fuel s).err = false → (whileLoop g u D fuel s).cur = [] := by
  induction fuel with
  | zero => intro s h; simp [whileLoop] at h
  | succ fuel ih =>
    intro s
    unfold whileLoop
    split
    · rename_i he; intro h; rw [he] at h; cases h
    · split
      · rename_i hc; intro _; simpa using hc
      · exact ih _

theorem keepLast_go_nodup (l : List (Nat × Bool)) (h : (l.map Prod.fst).Nodup) : keepLast.go l = l := by
  induction l with
  | nil => rfl
  | cons x xs ih =>
    simp only [List.map_cons, List.nodup_cons] at h
    unfold keepLast.go
    have : xs.any (fun y => y.1 == x.1) = false := by
      simp only [List.any_eq_false, beq_iff_eq]
      intro y hy e
      exact h.1 (List.mem_map.mpr ⟨y, hy, e⟩)
    simp only [this, Bool.false_eq_true, if_false, ih h.2]

theorem ordRev_split (g : G) (D : List Nat) (l : List Nat) (h : OrdRev g D l) :
    ∀ l₁ c l₂, l.reverse = l₁ ++ c :: l₂ →
      ∀ a ∈ (g.node c).anc, D.contains (g.node a).sid = true → a ∈ l₁ := by
  induction l with
  | nil => intro l₁ c l₂ e; simp at e
  | cons x rest ih =>
    intro l₁ c l₂ e a ha hD
    simp only [List.reverse_cons] at e
    rcases List.eq_nil_or_concat l₂ with rfl | ⟨l₂', y, rfl⟩
    · have := List.append_inj' e (by simp)
      obtain ⟨e1, e2⟩ := this
      simp only [List.cons.injEq, and_true] at e2
      subst e2
      rw [← e1]
      exact List.mem_reverse.mpr (h.1 a ha hD)
    · have e' : rest.reverse ++ [x] = (l₁ ++ c :: l₂') ++ [y] := by simpa using e
      obtain ⟨e1, _⟩ := List.append_inj' e' (by simp)
      exact ih h.2 l₁ c l₂' e1 a ha hD

/-- **`attr_updates_chain` is correct on graphs without shared ids**: whenever it returns, the
chain lists every descendant of the edited value exactly once, nothing else, and each one after
all of its ancestors that are themselves descendants. -/
theorem attrUpdatesChain_correct (g : G) (hwf : WF g) (fuel u : Nat) (hu : u < g.size)
    (chain : List (Nat × Bool)) (h : attrUpdatesChain g fuel u = some chain) :
    (chain.map Prod.fst).Nodup ∧
    (∀ y, Reach g u y → y ∈ chain.map Prod.fst) ∧
    (∀ y ∈ chain.map Prod.fst, Reach g u y) ∧
    (∀ l₁ c l₂, chain.map Prod.fst = l₁ ++ c :: l₂ →
      ∀ a ∈ (g.node c).anc, ∀ k, ReachN g u k a → k ≤ fuel → a ∈ l₁) := by
  unfold attrUpdatesChain at h
  simp only at h
  rw [(hwf u hu).1] at h
  generalize hD : (allDescendants g fuel u).map (fun d => (g.node d).sid) = D at h
  have hinv0 : Inv g u D { added := [], chain := [], cur := [u], iter := [], same := false } := by
    refine Or.inr ⟨rfl, List.nodup_nil, trivial, (fun c hc => by cases hc), ?_, ?_, (fun x hx => by cases hx)⟩
    · intro x hx _
      rcases hx with rfl | hx
      · simp
      · cases hx
    · intro x hx
      simp only [List.mem_singleton] at hx
      subst hx
      exact ⟨hu, Or.inl rfl⟩
  have hinv := whileLoop_inv g hwf u D fuel _ hinv0
  have hdone := whileLoop_done g u D fuel { added := [], chain := [], cur := [u], iter := [], same := false }
  generalize whileLoop g u D fuel { added := [], chain := [], cur := [u], iter := [], same := false } = s at h hinv hdone
  split at h
  · cases h
  · rename_i he
    have he' : s.err = false := by simpa using he
    have hg : Good g u D s := hinv.resolve_left he
    have hcur := hdone he'
    simp only [Option.some.injEq] at h
    have hnd : (s.chain.map Prod.fst).Nodup := by rw [hg.chain_eq]; exact (List.reverse_perm _).nodup_iff.mpr hg.nodup
    have hk : keepLast s.chain = s.chain := keepLast_go_nodup s.chain hnd
    rw [hk] at h
    subst h
    have hclosed : ∀ x, (x = u ∨ x ∈ s.added) → ∀ c ∈ (g.node x).chi, c ∈ s.added := by
      intro x hx c hc
      by_cases hn : c ∈ s.added
      · exact hn
      · have := hg.pending x hx ⟨c, hc, hn⟩
        rw [hcur] at this
        cases this
    have hall : ∀ x y, Reach g x y → (x = u ∨ x ∈ s.added) → y ∈ s.added := by
      intro x y hr
      induction hr with
      | child hc => intro hx; exact hclosed _ hx _ hc
      | step hc _ ih => intro hx; exact ih (Or.inr (hclosed _ hx _ hc))
    refine ⟨hnd, ?_, ?_, ?_⟩
    · intro y hy
      rw [hg.chain_eq]
      exact List.mem_reverse.mpr (hall u y hy (Or.inl rfl))
    · intro y hy
      rw [hg.chain_eq] at hy
      exact (hg.reach y (List.mem_reverse.mp hy)).1
    · intro l₁ c l₂ e a ha k hr hk
      rw [hg.chain_eq] at e
      apply ordRev_split g D s.added hg.ord l₁ c l₂ e a ha
      rw [← hD]
      exact allDescendants_complete g fuel u k a hr hk

/-! ## the executable hypotheses are sound -/

theorem wfOk_sound (g : G) (h : wfOk g = true) : WF g := by
  intro x hx
  simp only [wfOk, List.all_eq_true, List.mem_range, Bool.and_eq_true, beq_iff_eq, decide_eq_true_eq] at h
  obtain ⟨⟨h1, h2⟩, h3⟩ := h x hx
  exact ⟨h1, h2, h3⟩

theorem ancInChiOk_sound (g : G) (h : ancInChiOk g = true) :
    ∀ x, x < g.size → ∀ a ∈ (g.node x).anc, x ∈ (g.node a).chi := by
  intro x hx a ha
  simp only [ancInChiOk, List.all_eq_true, List.mem_range, List.contains_eq_mem, decide_eq_true_eq] at h
  exact h x hx a ha

/-- a bounded rank function bounds the length of every path -/
theorem rankOk_depth (g : G) (hwf : WF g) (rk : Array Nat) (bound : Nat) (h : rankOk g rk bound = true)
    (u : Nat) (hu : u < g.size) (k a : Nat) (hr : ReachN g u k a) : k ≤ bound := by
  simp only [rankOk, List.all_eq_true, List.mem_range, Bool.and_eq_true, decide_eq_true_eq] at h
  have key : ∀ x k a, ReachN g x k a → x < g.size → a < g.size ∧ rk[x]! + k ≤ rk[a]! := by
    intro x k a hr
    induction hr with
    | @child x c hc =>
      intro hx
      have := (h x hx).2 c hc
      exact ⟨(hwf x hx).2.1 c hc, by omega⟩
    | @step x c y k hc _ ih =>
      intro hx
      have h1 := (h x hx).2 c hc
      obtain ⟨hy, h2⟩ := ih ((hwf x hx).2.1 c hc)
      exact ⟨hy, by omega⟩
  obtain ⟨ha, h2⟩ := key u k a hr hu
  have := (h a ha).1
  omega

end Efp.Graph

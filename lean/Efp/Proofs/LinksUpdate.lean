import Efp.Proofs.Links
/-!
# Model F: a complete accepted update leaves the dependency links consistent with the reads

Every attribute `sl` has a list `reads sl` of attributes its value is computed from (inputs read
nothing).  *Refreshing* `sl` is what the engine does for an input edit and for each element of the
update chain: a new value is created from the values currently held by `reads sl` and assigned to
`sl` (`ExplainableObject.__init__` + `ModelingObject.__setattr__`).  A state is `Consistent` when
the value held by every attribute is attached to it and records as ancestors exactly the values
currently held by what it reads — then every recorded ancestor is live.

`update_consistent`: refreshing the edited inputs and then the attributes of a chain, in an order
that satisfies the three conditions the verified checker `chainOk` establishes (no repetition,
closed under "reads something refreshed", every attribute after what it reads), takes a consistent
state to a consistent state.  With `code_chain_total` (the code's own chain satisfies them) this is
C08's "consistent after any accepted edit" for plain attributes.
-/
namespace Efp.Links

def holders (s : LS) (l : List Slot) : List Nat := l.filterMap s.holds

/-- one input replacement (`reads sl = []`) or recomputation -/
def refresh (reads : Slot → List Slot) (s : LS) (sl : Slot) : LM LS :=
  setAttr (mk s (holders s (reads sl))).1 sl s.size

def Consistent (reads : Slot → List Slot) (s : LS) : Prop :=
  ∀ sl v, s.holds sl = some v → (s.get v).cont = some sl ∧ (s.get v).anc = holders s (reads sl)

/-- every recorded ancestor of an attached value is attached -/
def Live (s : LS) : Prop := ∀ v, s.attached v = true → ∀ a ∈ (s.get v).anc, s.attached a = true

theorem mem_holders (s : LS) (l : List Slot) (a : Nat) : a ∈ holders s l ↔ ∃ m ∈ l, s.holds m = some a := by
  unfold holders
  simp [List.mem_filterMap]

theorem consistent_live (reads : Slot → List Slot) (s : LS) (hC : Consistent reads s) (hS : SlotInv s) : Live s := by
  intro v hv a ha
  obtain ⟨sl, hsl⟩ := (attached_iff s v).mp hv
  have hh := hS v sl hsl
  rw [(hC sl v hh).2] at ha
  obtain ⟨m, _, hm⟩ := (mem_holders s _ a).mp ha
  exact (attached_iff s a).mpr ⟨m, (hC m a hm).1⟩

/-! ## what one assignment does, field by field -/

theorem setAttr_fields (s : LS) (sl : Slot) (v : Nat) (s' : LS) (hI : Inv s) (hv : v < s.size)
    (h : setAttr s sl v = .ok s') :
    (∀ w, (s'.get w).cont = if w = v then some sl else if s.holds sl = some w then none else (s.get w).cont) ∧
    (∀ w, (s'.get w).anc = (s.get w).anc) ∧
    (∀ m, s'.holds m = if m = sl then some v else s.holds m) ∧ s'.size = s.size := by
  unfold setAttr at h
  simp only at h
  split at h
  · cases h
  rename_i sB hsB
  have hB : Mirror sB ∧ Uniq sB ∧ Fresh sB ∧
      (∀ w, (∀ a ∈ (sB.get w).anc, a < sB.size) ∧ (∀ c ∈ (sB.get w).chi, c < sB.size)) ∧
      sB.slots = (s.setSlot sl v).slots ∧ sB.size = s.size ∧
      (∀ w, (sB.get w).cont = if s.holds sl = some w then none else (s.get w).cont) ∧
      (∀ w, (sB.get w).anc = (s.get w).anc) := by
    cases ho : s.holds sl with
    | none =>
      rw [ho] at hsB
      cases hsB
      exact ⟨hI.mirror, hI.slot.uniq, hI.fresh, hI.refs, rfl, rfl, fun w => by simp [get_setSlot], fun w => rfl⟩
    | some o =>
      rw [ho] at hsB
      have C := setC_spec (s.setSlot sl v) o none sB hI.mirror hI.slot.uniq hI.fresh hI.refs
        (hI.held sl o ho) (fun n hn => by cases hn) hsB
      have e := setContainer_ok _ _ _ _ hsB
      have fr := (setContainerP_frame (s.setSlot sl v) o none).2.1
      refine ⟨C.mirror, C.uniq, C.fresh, C.refs, C.slots, C.size, fun w => ?_, fun w => ?_⟩
      · rw [C.cont w]
        by_cases hw : w = o
        · simp [hw]
        · have : ¬ (some o = some w) := fun e => hw (by cases e; rfl)
          simp [hw, this, get_setSlot]
      · rw [e, fr w]; rfl
  obtain ⟨b1, b2, b3, b4, b5, b6, b7, b8⟩ := hB
  have hno : ∀ n, some sl = some n → ∀ w, w ≠ v → (sB.get w).cont ≠ some n := by
    intro n hn w hw hc
    cases hn
    rw [b7 w] at hc
    split at hc
    · cases hc
    · rename_i hne
      exact hne (hI.slot w sl hc)
  have C := setC_spec sB v (some sl) s' b1 b2 b3 b4 (by omega) hno h
  have e := setContainer_ok _ _ _ _ h
  have fr := (setContainerP_frame sB v (some sl)).2.1
  refine ⟨fun w => ?_, fun w => ?_, fun m => ?_, by rw [C.size, b6]⟩
  · rw [C.cont w, b7 w]
  · rw [e, fr w, b8 w]
  · have : s'.holds m = (s.setSlot sl v).holds m := by unfold LS.holds; rw [C.slots, b5]
    rw [this, holds_setSlot]

/-! ## the recorded ancestors of a value computed from attached values with distinct ids -/

theorem mkAnc_eq (s : LS) (ps : List Nat) (hatt : ∀ p ∈ ps, s.attached p = true)
    (hnd : (ps.map (fun p => (s.get p).cont)).Nodup) : mkAnc s ps = ps := by
  unfold mkAnc
  have key : ∀ (ps acc : List Nat), (∀ p ∈ ps, s.attached p = true) →
      ((acc ++ ps).map (fun p => (s.get p).cont)).Nodup →
      ps.foldl (fun (acc : List Nat) p =>
        acc ++ (retAnc s p).filter (fun a => !(acc.map (fun x => (s.get x).cont)).contains (s.get a).cont)) acc = acc ++ ps := by
    intro ps
    induction ps with
    | nil => intro acc _ _; simp
    | cons p ps ih =>
      intro acc hatt hnd
      simp only [List.foldl_cons]
      have hp : s.attached p = true := hatt p (by simp)
      have hret : retAnc s p = [p] := by
        unfold retAnc
        unfold LS.attached at hp
        simp [hp]
      have hnotin : (acc.map (fun x => (s.get x).cont)).contains (s.get p).cont = false := by
        rw [List.map_append, List.map_cons] at hnd
        have := (List.nodup_append.mp hnd).2.2
        simp only [List.contains_eq_mem, decide_eq_false_iff_not]
        intro hin
        exact this _ hin _ (by simp) rfl
      rw [hret]
      simp only [List.filter_cons, hnotin, Bool.not_false, if_true, List.filter_nil]
      rw [ih (acc ++ [p]) (fun q hq => hatt q (by simp [hq])) (by simpa using hnd)]
      simp
  simpa using key ps [] hatt (by simpa using hnd)

/-- the value an attribute holds is attached to it -/
def HoldOK (s : LS) : Prop := ∀ sl v, s.holds sl = some v → (s.get v).cont = some sl

/-- the values held by a duplicate-free list of attributes: attached, with pairwise different ids -/
theorem holders_ok (s : LS) (hC : HoldOK s) (l : List Slot) (hl : l.Nodup) :
    (∀ p ∈ holders s l, s.attached p = true) ∧ ((holders s l).map (fun p => (s.get p).cont)).Nodup := by
  constructor
  · intro p hp
    obtain ⟨m, _, hm⟩ := (mem_holders s l p).mp hp
    exact (attached_iff s p).mpr ⟨m, hC m p hm⟩
  · unfold holders
    induction l with
    | nil => simp
    | cons m ms ih =>
      obtain ⟨hm, hms⟩ := List.nodup_cons.mp hl
      simp only [List.filterMap_cons]
      cases hh : s.holds m with
      | none => simpa using ih hms
      | some v =>
        simp only [List.map_cons]
        refine List.nodup_cons.mpr ⟨?_, ih hms⟩
        intro hin
        obtain ⟨w, hw, hwc⟩ := List.mem_map.mp hin
        obtain ⟨m', hm', hmw⟩ := List.mem_filterMap.mp hw
        rw [hC m' w hmw, hC m v hh] at hwc
        cases hwc
        exact hm hm'

/-! ## one refresh -/

theorem refresh_spec (reads : Slot → List Slot) (s : LS) (sl : Slot) (s' : LS)
    (hI : Inv s) (hD : NoDict s) (hC : HoldOK s) (hnd : (reads sl).Nodup) (hsl : isDictSlot sl = false)
    (h : refresh reads s sl = .ok s') :
    Inv s' ∧ NoDict s' ∧
    (∀ m, s'.holds m = if m = sl then some s.size else s.holds m) ∧
    (∀ w, w ≠ s.size → (s'.get w).anc = (s.get w).anc) ∧
    (s'.get s.size).anc = holders s (reads sl) ∧
    (∀ w, (s'.get w).cont = if w = s.size then some sl else if s.holds sl = some w then none else (s.get w).cont) := by
  unfold refresh at h
  obtain ⟨hatt, hndc⟩ := holders_ok s hC (reads sl) hnd
  have hanc : mkAnc s (holders s (reads sl)) = holders s (reads sl) := mkAnc_eq s _ hatt hndc
  have hmk : (mk s (holders s (reads sl))).1 = alloc s (holders s (reads sl)) := by
    unfold mk; rw [hanc]
  rw [hmk] at h
  have hlt : ∀ a ∈ holders s (reads sl), a < s.size := by
    intro a ha
    obtain ⟨m, _, hm⟩ := (mem_holders s _ a).mp ha
    exact hI.held m a hm
  have hI1 := alloc_inv s (holders s (reads sl)) hI hlt
  have hget1 : ∀ w, (alloc s (holders s (reads sl))).get w = if w = s.size then { anc := holders s (reads sl) } else s.get w :=
    fun w => rfl
  have hsz1 : (alloc s (holders s (reads sl))).size = s.size + 1 := rfl
  have hholds1 : ∀ m, (alloc s (holders s (reads sl))).holds m = s.holds m := fun m => rfl
  have hD1 : NoDict (alloc s (holders s (reads sl))) := by
    intro w x hc
    rw [hget1] at hc
    split at hc
    · cases hc
    · exact hD w x hc
  have hI' := setAttr_inv _ sl s.size s' hI1 (by rw [hsz1]; omega) h
  obtain ⟨f1, f2, f3, f4⟩ := setAttr_fields _ sl s.size s' hI1 (by rw [hsz1]; omega) h
  refine ⟨hI', ?_, ?_, ?_, ?_, ?_⟩
  · intro w x hc
    rw [f1 w] at hc
    split at hc
    · cases hc; exact hsl
    · split at hc
      · cases hc
      · exact hD1 w x hc
  · intro m; rw [f3 m, hholds1]
  · intro w hw; rw [f2 w, hget1 w]; simp [hw]
  · rw [f2, hget1]; simp
  · intro w
    rw [f1 w, hholds1, hget1 w]
    by_cases hw : w = s.size
    · simp [hw]
    · simp [hw]

/-! ## a whole update -/

theorem holders_congr (s s' : LS) (l : List Slot) (h : ∀ m ∈ l, s'.holds m = s.holds m) : holders s' l = holders s l := by
  unfold holders
  induction l with
  | nil => rfl
  | cons m ms ih =>
    simp only [List.filterMap_cons]
    rw [h m (by simp), ih (fun x hx => h x (by simp [hx]))]

/-- consistency while the attributes of `R` remain to be refreshed -/
def PC (reads : Slot → List Slot) (R : List Slot) (s : LS) : Prop :=
  HoldOK s ∧
  (∀ n v, s.holds n = some v → n ∉ R → (∀ m ∈ reads n, m ∉ R) → (s.get v).anc = holders s (reads n))

theorem update_aux (reads : Slot → List Slot) (L : List Slot)
    (hreads : ∀ n, (reads n).Nodup) (hplain : ∀ n ∈ L, isDictSlot n = false)
    (hclosed : ∀ n, n ∉ L → ∀ m ∈ reads n, m ∉ L)
    (hordered : ∀ l₁ n l₂, L = l₁ ++ n :: l₂ → ∀ m ∈ reads n, m ∉ l₂ ∧ m ≠ n) :
    ∀ (R P : List Slot) (s s' : LS), L = P ++ R → Inv s → NoDict s → PC reads R s →
      R.foldlM (refresh reads) s = .ok s' → Inv s' ∧ NoDict s' ∧ PC reads [] s' := by
  intro R
  induction R with
  | nil =>
    intro P s s' _ hI hD hP h
    simp [List.foldlM] at h
    cases h
    exact ⟨hI, hD, hP⟩
  | cons r R' ih =>
    intro P s s' hL hI hD hP h
    simp only [List.foldlM_cons, bind, Except.bind] at h
    split at h
    · cases h
    rename_i s1 hs1
    have hrL : r ∈ L := by rw [hL]; simp
    obtain ⟨i1, d1, g1, g2, g3, g4⟩ := refresh_spec reads s r s1 hI hD hP.1 (hreads r) (hplain r hrL) hs1
    have hrr : r ∉ reads r := fun hin => (hordered P r R' hL r hin).2 rfl
    have hsize : ∀ m v, s.holds m = some v → v ≠ s.size := by
      intro m v hm e
      have := hI.held m v hm
      omega
    refine ih (P ++ [r]) s1 s' (by rw [hL]; simp) i1 d1 ⟨?_, ?_⟩ h
    · -- the value an attribute holds is attached to it
      intro m v hm
      rw [g1 m] at hm
      rw [g4 v]
      by_cases hmr : m = r
      · simp only [hmr, if_true] at hm
        cases hm
        simp [hmr]
      · simp only [hmr, if_false] at hm
        have hv := hsize m v hm
        simp only [hv, if_false]
        split
        · rename_i hr
          have c1 := hP.1 m v hm
          have c2 := hP.1 r v hr
          rw [c1] at c2
          cases c2
          exact absurd rfl hmr
        · exact hP.1 m v hm
    · intro n v hn hnR hreadsR
      rw [g1 n] at hn
      by_cases hnr : n = r
      · subst hnr
        simp only [if_true] at hn
        cases hn
        rw [g3]
        exact (holders_congr s s1 (reads n) (fun m hm => by
          rw [g1 m]
          have : m ≠ n := fun e => hrr (e ▸ hm)
          simp [this])).symm
      · simp only [hnr, if_false] at hn
        have hv := hsize n v hn
        rw [g2 v hv]
        -- `r` is not read by `n`
        have hrn : r ∉ reads n := by
          intro hin
          by_cases hnL : n ∈ L
          · have hnP : n ∈ P := by
              rw [hL] at hnL
              rcases List.mem_append.mp hnL with h1 | h1
              · exact h1
              · rcases List.mem_cons.mp h1 with h2 | h2
                · exact absurd h2 hnr
                · exact absurd h2 hnR
            obtain ⟨a, b, hab⟩ := List.append_of_mem hnP
            have hsplit : L = a ++ n :: (b ++ r :: R') := by rw [hL, hab]; simp
            exact (hordered a n (b ++ r :: R') hsplit r hin).1 (by simp)
          · exact hclosed n hnL r hin hrL
        have hnR0 : n ∉ r :: R' := by
          intro hin
          rcases List.mem_cons.mp hin with h1 | h1
          · exact hnr h1
          · exact hnR h1
        have hreads0 : ∀ m ∈ reads n, m ∉ r :: R' := by
          intro m hm hin
          rcases List.mem_cons.mp hin with h1 | h1
          · exact hrn (h1 ▸ hm)
          · exact hreadsR m hm h1
        rw [hP.2 n v hn hnR0 hreads0]
        exact (holders_congr s s1 (reads n) (fun m hm => by
          rw [g1 m]
          have : m ≠ r := fun e => hrn (e ▸ hm)
          simp [this])).symm

/-- **a complete accepted update keeps the links consistent with the reads**: refreshing the attributes
of `L` (edited inputs first, then the update chain) in an order without repetition, closed under
"reads something refreshed" and in which nothing is refreshed before what it reads — the conditions
`chainOk` establishes — takes a consistent state to a consistent state whose links are mirrored, whose
ids are unique and in which every recorded ancestor is live -/
theorem update_consistent (reads : Slot → List Slot) (L : List Slot)
    (hreads : ∀ n, (reads n).Nodup) (hplain : ∀ n ∈ L, isDictSlot n = false)
    (hclosed : ∀ n, n ∉ L → ∀ m ∈ reads n, m ∉ L)
    (hordered : ∀ l₁ n l₂, L = l₁ ++ n :: l₂ → ∀ m ∈ reads n, m ∉ l₂ ∧ m ≠ n)
    (s s' : LS) (hI : Inv s) (hD : NoDict s) (hC : Consistent reads s)
    (h : L.foldlM (refresh reads) s = .ok s') :
    Consistent reads s' ∧ Inv s' ∧ Live s' ∧ NoDict s' := by
  have hP : PC reads L s := ⟨fun sl v hv => (hC sl v hv).1, fun n v hn _ _ => (hC n v hn).2⟩
  obtain ⟨i1, d1, p1⟩ := update_aux reads L hreads hplain hclosed hordered L [] s s' (by simp) hI hD hP h
  have hC' : Consistent reads s' := fun sl v hv => ⟨p1.1 sl v hv, p1.2 sl v hv (by simp) (fun m _ => by simp)⟩
  exact ⟨hC', i1, consistent_live reads s' hC' i1.slot, d1⟩

end Efp.Links

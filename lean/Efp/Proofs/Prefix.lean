import Efp.Proofs.Series
/-!
# Running sums (`prefixSum`) of sparse series: the algebra behind the cumulative storage need
-/
namespace Efp
namespace Series

/-- running sum of the values at hours up to `t` -/
def prefixSum (a : Series) (t : Int) : Rat := ((a.filter (fun p => decide (p.1 ≤ t))).map Prod.snd).sum

theorem prefixSum_eq_total_truncate (a : Series) (t : Int) : prefixSum a t = total (truncateTo t a) := rfl

theorem get_truncateTo (m : Int) (a : Series) (s : Int) :
    get (truncateTo m a) s = if s ≤ m then get a s else 0 := by
  induction a with
  | nil => simp [truncateTo]
  | cons p rest ih =>
    obtain ⟨k, v⟩ := p
    unfold truncateTo at ih ⊢
    simp only [List.filter_cons]
    by_cases hk : k ≤ m
    · simp only [hk, decide_true, if_true, get_cons, ih]
      by_cases e : k = s
      · subst e; simp [hk]
      · simp [e]
    · simp only [hk, decide_false, Bool.false_eq_true, if_false, get_cons, ih]
      by_cases e : k = s
      · subst e; simp [hk]
      · simp [e]

theorem keys_truncateTo (m : Int) (a : Series) (k : Int) :
    k ∈ keys (truncateTo m a) ↔ k ∈ keys a ∧ k ≤ m := by
  unfold truncateTo keys
  simp only [List.mem_map, List.mem_filter, decide_eq_true_eq]
  constructor
  · rintro ⟨p, ⟨hp, hd⟩, rfl⟩; exact ⟨⟨p, hp, rfl⟩, hd⟩
  · rintro ⟨⟨p, hp, rfl⟩, hd⟩; exact ⟨p, ⟨hp, hd⟩, rfl⟩

theorem sorted_truncateTo (m : Int) (a : Series) (h : Sorted a) : Sorted (truncateTo m a) := by
  unfold Sorted truncateTo keys at *
  exact List.Pairwise.sublist (List.Sublist.map _ List.filter_sublist) h

/-- summing `get a` over the part `≤ t` of any duplicate-free superset of the keys gives the running sum -/
theorem sum_get_filter_superset (a : Series) (ha : Sorted a) (U : List Int) (hU : U.Nodup)
    (hsub : ∀ k ∈ keys a, k ∈ U) (t : Int) :
    ((U.filter (fun s => decide (s ≤ t))).map (get a)).sum = prefixSum a t := by
  rw [prefixSum_eq_total_truncate]
  have h1 := sum_get_superset (truncateTo t a) (sorted_truncateTo t a ha).nodup (U.filter (fun s => decide (s ≤ t)))
    (hU.filter _) (by
      intro k hk
      rw [keys_truncateTo] at hk
      exact List.mem_filter.mpr ⟨hsub k hk.1, by simpa using hk.2⟩)
  rw [← h1]
  apply congrArg
  apply List.map_congr_left
  intro s hs
  have : s ≤ t := by simpa using (List.mem_filter.mp hs).2
  rw [get_truncateTo]; simp [this]

theorem prefixSum_add (a b : Series) (ha : Sorted a) (hb : Sorted b) (t : Int) :
    prefixSum (add a b) t = prefixSum a t + prefixSum b t := by
  have hU : (unionKeys (keys a) (keys b)).Nodup := (unionKeys_sorted _ _ ha).imp (fun h => ne_of_lt h)
  have hs : Sorted (add a b) := sorted_add a b ha
  rw [← sum_get_filter_superset (add a b) hs (unionKeys (keys a) (keys b)) hU (by
        intro k hk; rw [keys_add] at hk; exact hk) t]
  rw [← sum_get_filter_superset a ha (unionKeys (keys a) (keys b)) hU (fun k hk => (mem_unionKeys _ _ k).mpr (Or.inl hk)) t,
      ← sum_get_filter_superset b hb (unionKeys (keys a) (keys b)) hU (fun k hk => (mem_unionKeys _ _ k).mpr (Or.inr hk)) t]
  generalize (unionKeys (keys a) (keys b)).filter (fun s => decide (s ≤ t)) = L
  induction L with
  | nil => simp
  | cons x xs ih => simp only [List.map_cons, List.sum_cons, ih, get_add]; ring

theorem prefixSum_neg (a : Series) (t : Int) : prefixSum (neg a) t = - prefixSum a t := by
  unfold prefixSum neg mapVals
  induction a with
  | nil => simp
  | cons p rest ih =>
    simp only [List.map_cons, List.filter_cons]
    by_cases h : p.1 ≤ t
    · simp only [h, decide_true, if_true, List.map_cons, List.sum_cons, ih]; ring
    · simp only [h, decide_false, Bool.false_eq_true, if_false, ih]

theorem prefixSum_truncateTo (m : Int) (a : Series) (t : Int) :
    prefixSum (truncateTo m a) t = prefixSum a (min t m) := by
  unfold prefixSum truncateTo
  rw [List.filter_filter]
  congr 2
  apply List.filter_congr
  intro p _
  by_cases h1 : p.1 ≤ m <;> by_cases h2 : p.1 ≤ t <;> by_cases h3 : p.1 ≤ min t m <;> simp [h1, h2, h3] <;> omega

theorem prefixSum_shift (d : Int) (a : Series) (t : Int) :
    prefixSum (shift d a) t = prefixSum a (t - 3600 * d) := by
  unfold prefixSum shift
  induction a with
  | nil => simp
  | cons p rest ih =>
    simp only [List.map_cons, List.filter_cons]
    by_cases h : p.1 + 3600 * d ≤ t
    · have h' : p.1 ≤ t - 3600 * d := by omega
      simp only [h, h', decide_true, if_true, List.map_cons, List.sum_cons, ih]
    · have h' : ¬ p.1 ≤ t - 3600 * d := by omega
      simp only [h, h', decide_false, Bool.false_eq_true, if_false, ih]

/-- for a series of non-negative values the running sum is non-negative and non-decreasing -/
theorem prefixSum_mono (a : Series) (hpos : ∀ p ∈ a, 0 ≤ p.2) (t' t : Int) (h : t' ≤ t) :
    0 ≤ prefixSum a t' ∧ prefixSum a t' ≤ prefixSum a t := by
  unfold prefixSum
  induction a with
  | nil => simp
  | cons p rest ih =>
    have hp := hpos p (by simp)
    obtain ⟨i1, i2⟩ := ih (fun q hq => hpos q (by simp [hq]))
    simp only [List.filter_cons]
    by_cases h1 : p.1 ≤ t'
    · have h2 : p.1 ≤ t := le_trans h1 h
      simp only [h1, h2, decide_true, if_true, List.map_cons, List.sum_cons]
      constructor <;> linarith
    · by_cases h2 : p.1 ≤ t
      · simp only [h1, h2, decide_true, decide_false, Bool.false_eq_true, if_true, if_false, List.map_cons, List.sum_cons]
        constructor <;> linarith
      · simp only [h1, h2, decide_false, Bool.false_eq_true, if_false]
        exact ⟨i1, i2⟩

theorem sorted_neg (a : Series) (h : Sorted a) : Sorted (neg a) := by
  unfold Sorted neg at *; rw [keys_mapVals]; exact h

end Series
end Efp

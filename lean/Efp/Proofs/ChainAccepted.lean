import Efp.Theory.Checker
import Efp.Proofs.Chain
/-!
# The chain returned by the port of `attr_updates_chain` is accepted by the verified checker

… on every graph without shared ids (`wfOk`), whose ancestor links are mirrored by child links
(`ancInChiOk`) and which is acyclic with depth within the fuel (`rankOk`, a checked witness).
-/
namespace Efp.Graph
open Efp.Theory

theorem nodupOk_complete (l : List Nat) (h : l.Nodup) : nodupOk l = true := by
  induction l with
  | nil => rfl
  | cons a as ih =>
    obtain ⟨h1, h2⟩ := List.nodup_cons.mp h
    simp [nodupOk, h1, ih h2]

theorem orderedOk_complete (reads : Nat → List Nat) (chain : List Nat)
    (h : ∀ l₁ n l₂, chain = l₁ ++ n :: l₂ → ∀ m ∈ reads n, m ∉ l₂ ∧ m ≠ n) : orderedOk reads chain = true := by
  induction chain with
  | nil => rfl
  | cons a as ih =>
    simp only [orderedOk, Bool.and_eq_true, List.all_eq_true, Bool.not_eq_true', List.contains_eq_mem,
      decide_eq_false_iff_not, bne_iff_ne, ne_eq]
    refine ⟨fun m hm => h [] a as rfl m hm, ih ?_⟩
    intro l₁ n l₂ e m hm
    exact h (a :: l₁) n l₂ (by simp [e]) m hm

theorem code_chain_accepted (g : G) (fuel u : Nat) (rk : Array Nat)
    (hwf : wfOk g = true) (hbi : ancInChiOk g = true) (hrk : rankOk g rk fuel = true) (hu : u < g.size)
    (calcs : List Nat) (hcalcs : ∀ n ∈ calcs, n < g.size ∧ n ≠ u)
    (chain : List (Nat × Bool)) (h : attrUpdatesChain g fuel u = some chain) :
    chainOk (fun n => (g.node n).anc) calcs [u] (chain.map Prod.fst) = true := by
  have hW := wfOk_sound g hwf
  have hB := ancInChiOk_sound g hbi
  obtain ⟨hnd, hcomp, hsound, hord⟩ := attrUpdatesChain_correct g hW fuel u hu chain h
  have hdepth : ∀ k a, ReachN g u k a → k ≤ fuel := fun k a hr => rankOk_depth g hW rk fuel hrk u hu k a hr
  simp only [chainOk, Bool.and_eq_true]
  refine ⟨⟨nodupOk_complete _ hnd, ?_⟩, ?_⟩
  · simp only [closedOk, List.all_eq_true, Bool.or_eq_true, List.contains_eq_mem, decide_eq_true_eq,
      Bool.and_eq_true, Bool.not_eq_true', decide_eq_false_iff_not, List.mem_singleton]
    intro n hn
    obtain ⟨hns, hnu⟩ := hcalcs n hn
    by_cases hin : n ∈ chain.map Prod.fst
    · exact Or.inl hin
    · refine Or.inr ⟨hnu, fun m hm => ⟨?_, ?_⟩⟩
      · intro e
        subst e
        exact hin (hcomp n (.child (hB n hns m hm)))
      · intro hmc
        exact hin (hcomp n ((hsound m hmc).snoc (hB n hns m hm)))
  · apply orderedOk_complete
    intro l₁ n l₂ e m hm
    have hnd' : (l₁ ++ n :: l₂).Nodup := e ▸ hnd
    have hn_in : n ∈ chain.map Prod.fst := by rw [e]; simp
    have before : ∀ m', m' ∈ (g.node n).anc → m' ∈ chain.map Prod.fst → m' ∈ l₁ := by
      intro m' hm' hc
      obtain ⟨k, hk⟩ := (hsound m' hc).reachN
      exact hord l₁ n l₂ e m' hm' k hk (hdepth k m' hk)
    have hdisj := List.nodup_append.mp hnd'
    refine ⟨fun h2 => ?_, fun e2 => ?_⟩
    · have h1 := before m hm (by rw [e]; simp [h2])
      exact hdisj.2.2 m h1 m (List.mem_cons_of_mem _ h2) rfl
    · subst e2
      have h1 := before m hm hn_in
      exact hdisj.2.2 m h1 m List.mem_cons_self rfl

end Efp.Graph

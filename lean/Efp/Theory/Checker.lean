import Efp.Theory.Incr
/-!
# A verified checker for recomputation chains

`chainOk reads calcs J chain` is an executable test; `chainOk_sound` shows that a chain accepted by
it turns a consistent state into a consistent state for **every** rule system whose read-sets are
`reads` — it discharges the hypotheses of `incr_consistent`.  The check run evaluates it on the
graphs and chains exported from the real code.
-/
namespace Efp.Theory

def orderedOk (reads : Nat → List Nat) : List Nat → Bool
  | [] => true
  | n :: rest => (reads n).all (fun m => !rest.contains m && m != n) && orderedOk reads rest

def closedOk (reads : Nat → List Nat) (calcs J chain : List Nat) : Bool :=
  calcs.all (fun n => chain.contains n ||
    (!J.contains n && (reads n).all (fun m => !J.contains m && !chain.contains m)))

def nodupOk : List Nat → Bool
  | [] => true
  | n :: rest => !rest.contains n && nodupOk rest

def chainOk (reads : Nat → List Nat) (calcs J chain : List Nat) : Bool :=
  nodupOk chain && closedOk reads calcs J chain && orderedOk reads chain

theorem nodupOk_sound (l : List Nat) (h : nodupOk l = true) : l.Nodup := by
  induction l with
  | nil => exact List.nodup_nil
  | cons a as ih =>
    simp only [nodupOk, Bool.and_eq_true, Bool.not_eq_true', List.contains_eq_mem, decide_eq_false_iff_not] at h
    exact List.nodup_cons.mpr ⟨h.1, ih h.2⟩

theorem orderedOk_sound (reads : Nat → List Nat) (chain : List Nat) (h : orderedOk reads chain = true) :
    ∀ l₁ n l₂, chain = l₁ ++ n :: l₂ → ∀ m ∈ reads n, m ∉ l₂ ∧ m ≠ n := by
  induction chain with
  | nil => intro l₁ n l₂ e; cases l₁ <;> cases e
  | cons a as ih =>
    simp only [orderedOk, Bool.and_eq_true, List.all_eq_true, Bool.not_eq_true', List.contains_eq_mem,
      decide_eq_false_iff_not, bne_iff_ne, ne_eq] at h
    intro l₁ n l₂ e m hm
    cases l₁ with
    | nil =>
      simp only [List.nil_append, List.cons.injEq] at e
      obtain ⟨rfl, rfl⟩ := e
      exact h.1 m hm
    | cons b bs =>
      simp only [List.cons_append, List.cons.injEq] at e
      exact ih h.2 bs n l₂ e.2 m hm

/-- **Soundness of the checker.** -/
theorem chainOk_sound {V : Type} (reads : Nat → List Nat) (calcs J chain : List Nat)
    (hok : chainOk reads calcs J chain = true)
    (S : RuleSys Nat V) (hreads : ∀ n, S.reads n = reads n) (hcalc : ∀ n, S.isCalc n = true → n ∈ calcs)
    (σ₀ σ₁ : Nat → V) (h0 : Consistent S σ₀) (hin : ∀ n, n ∉ J → σ₁ n = σ₀ n) :
    Consistent S (run S σ₁ chain) := by
  simp only [chainOk, Bool.and_eq_true] at hok
  obtain ⟨⟨hnd, hcl⟩, hord⟩ := hok
  apply incr_consistent S S σ₀ σ₁ J chain h0 hin (nodupOk_sound chain hnd)
  · intro n hn hnc
    have hmem := hcalc n hn
    simp only [closedOk, List.all_eq_true, Bool.or_eq_true, List.contains_eq_mem, decide_eq_true_eq,
      Bool.and_eq_true, Bool.not_eq_true', decide_eq_false_iff_not] at hcl
    rcases hcl n hmem with h | h
    · exact absurd h hnc
    · refine ⟨hn, rfl, h.1, ?_⟩
      intro m hm
      rw [hreads] at hm
      exact h.2 m hm
  · intro l₁ n l₂ e m hm
    rw [hreads] at hm
    exact orderedOk_sound reads chain hord l₁ n l₂ e m hm

/-- a full pass over all calculated nodes in an order that respects the reads yields a consistent
state from **any** starting state (what building a system does) -/
theorem full_pass_consistent {V : Type} (S : RuleSys Nat V) (chain : List Nat) (σ : Nat → V)
    (hnd : chain.Nodup) (hall : ∀ n, S.isCalc n = true → n ∈ chain)
    (hord : ∀ l₁ n l₂, chain = l₁ ++ n :: l₂ → ∀ m ∈ S.reads n, m ∉ l₂ ∧ m ≠ n) :
    Consistent S (run S σ chain) := by
  intro n hn
  exact run_consistent_aux S chain hnd σ hord n (hall n hn)

/-- in a consistent state, recomputing a calculated node changes nothing -/
theorem recompute_fixed {V : Type} (S : RuleSys Nat V) (σ : Nat → V) (h : Consistent S σ) (n : Nat)
    (hn : S.isCalc n = true) : recompute S σ n = σ := by
  funext m
  unfold recompute
  split
  · rename_i e; subst e; exact (h m hn).symm
  · rfl

/-- … hence any sequence of explicit recomputation requests, in any order and with repetitions,
leaves a consistent state unchanged -/
theorem run_fixed {V : Type} (S : RuleSys Nat V) (σ : Nat → V) (h : Consistent S σ) (l : List Nat)
    (hl : ∀ n ∈ l, S.isCalc n = true) : run S σ l = σ := by
  induction l with
  | nil => rfl
  | cons a as ih =>
    simp only [run, List.foldl_cons]
    rw [recompute_fixed S σ h a (hl a (by simp))]
    exact ih (fun n hn => hl n (by simp [hn]))

end Efp.Theory

/-! Abstract recomputation theory (core Lean only). -/
namespace Efp.Theory
variable {N V : Type} [DecidableEq N]

structure RuleSys (N V : Type) where
  isCalc : N → Bool
  reads : N → List N
  rule  : N → (N → V) → V
  rule_local : ∀ n σ σ', (∀ m ∈ reads n, σ m = σ' m) → rule n σ = rule n σ'

def Consistent (S : RuleSys N V) (σ : N → V) : Prop := ∀ n, S.isCalc n = true → σ n = S.rule n σ

def recompute (S : RuleSys N V) (σ : N → V) (n : N) : N → V :=
  fun m => if m = n then S.rule n σ else σ m

def run (S : RuleSys N V) (σ : N → V) (chain : List N) : N → V := chain.foldl (recompute S) σ

theorem run_not_mem (S : RuleSys N V) (chain : List N) (σ : N → V) (m : N) (h : m ∉ chain) :
    run S σ chain m = σ m := by
  induction chain generalizing σ with
  | nil => rfl
  | cons a as ih =>
    simp only [List.mem_cons, not_or] at h
    simp only [run, List.foldl_cons]
    have := ih (recompute S σ a) h.2
    simp only [run] at this
    rw [this]; simp [recompute, h.1]

/-- `Before m n l`: some occurrence of `m` strictly precedes the (first) occurrence of `n`. -/
def Before (m n : N) (l : List N) : Prop := ∃ l₁ l₂, l = l₁ ++ n :: l₂ ∧ m ∈ l₁

/-- Main lemma, in "prefix / suffix" form: processing `suf` from a state in which every node of
`suf` only reads (in `suf`-relevant part) nodes that are either already final or earlier in `suf`. -/
theorem run_consistent_aux (S' : RuleSys N V) (suf : List N) (hnd : suf.Nodup)
    (σ : N → V)
    (ordered : ∀ l₁ n l₂, suf = l₁ ++ n :: l₂ → ∀ m ∈ S'.reads n, m ∉ l₂ ∧ m ≠ n) :
    ∀ n ∈ suf, run S' σ suf n = S'.rule n (run S' σ suf) := by
  induction suf generalizing σ with
  | nil => intro n hn; cases hn
  | cons a as ih =>
    intro n hn
    have hnd' := (List.nodup_cons.mp hnd)
    have ordered' : ∀ l₁ n l₂, as = l₁ ++ n :: l₂ → ∀ m ∈ S'.reads n, m ∉ l₂ ∧ m ≠ n := by
      intro l₁ n l₂ h m hm
      exact ordered (a :: l₁) n l₂ (by simp [h]) m hm
    simp only [run, List.foldl_cons]
    rcases List.mem_cons.mp hn with rfl | hn'
    · -- n = a : value set now, never touched later; reads not in `as`, not `n`
      have h1 : run S' (recompute S' σ n) as n = recompute S' σ n n :=
        run_not_mem S' as _ n hnd'.1
      simp only [run] at h1
      rw [h1]
      simp only [recompute, if_true]
      apply S'.rule_local
      intro m hm
      have := ordered [] n as rfl m hm
      have h2 : run S' (recompute S' σ n) as m = recompute S' σ n m := run_not_mem S' as _ m this.1
      simp only [run] at h2
      rw [h2]; simp [recompute, this.2]
    · exact ih hnd'.2 (recompute S' σ a) ordered' n hn'

/-- Incremental recomputation theorem. `S` = rules before the edit, `S'` = rules after the edit
(they differ for link edits), `J` = edited inputs. -/
theorem incr_consistent (S S' : RuleSys N V) (σ₀ σ₁ : N → V) (J chain : List N)
    (h0 : Consistent S σ₀)
    (hin : ∀ n, n ∉ J → σ₁ n = σ₀ n)
    (nodup : chain.Nodup)
    (closed : ∀ n, S'.isCalc n = true → n ∉ chain →
        S.isCalc n = true ∧ S.rule n = S'.rule n ∧ n ∉ J ∧ ∀ m ∈ S'.reads n, m ∉ J ∧ m ∉ chain)
    (ordered : ∀ l₁ n l₂, chain = l₁ ++ n :: l₂ → ∀ m ∈ S'.reads n, m ∉ l₂ ∧ m ≠ n) :
    Consistent S' (run S' σ₁ chain) := by
  intro n hn
  by_cases hc : n ∈ chain
  · exact run_consistent_aux S' chain nodup σ₁ ordered n hc
  · obtain ⟨hS, hrule, hnJ, hreads⟩ := closed n hn hc
    rw [run_not_mem S' chain σ₁ n hc, hin n hnJ, h0 n hS, hrule]
    apply S'.rule_local
    intro m hm
    have := hreads m hm
    rw [run_not_mem S' chain σ₁ m this.2, hin m this.1]

omit [DecidableEq N] in
/-- Uniqueness of the consistent state given the inputs, when reads are well-founded. -/
theorem consistent_unique (S : RuleSys N V) (rk : N → Nat)
    (wf : ∀ n, S.isCalc n = true → ∀ m ∈ S.reads n, rk m < rk n)
    (σ σ' : N → V) (hσ : Consistent S σ) (hσ' : Consistent S σ')
    (inp : ∀ n, S.isCalc n = false → σ n = σ' n) : ∀ n, σ n = σ' n := by
  intro n
  induction h : rk n using Nat.strongRecOn generalizing n with
  | _ k ih =>
    cases hc : S.isCalc n with
    | false => exact inp n hc
    | true =>
      rw [hσ n hc, hσ' n hc]
      apply S.rule_local
      intro m hm
      exact ih (rk m) (h ▸ wf n hc m hm) m rfl

/-- **a property that every rule propagates from its reads to its result holds for everything a
run recomputes**, provided it holds for what the chain reads from outside (simulations: "contains no
hour before the date", once the ancestors outside the chain have been cut at the date) -/
theorem run_pred (S : RuleSys N V) (P : V → Prop)
    (hrule : ∀ n σ, (∀ m ∈ S.reads n, P (σ m)) → P (S.rule n σ))
    (chain : List N) (hnd : chain.Nodup) :
    ∀ (σ : N → V), (∀ l₁ n l₂, chain = l₁ ++ n :: l₂ → ∀ m ∈ S.reads n, m ∉ l₂ ∧ m ≠ n) →
      (∀ n ∈ chain, ∀ m ∈ S.reads n, m ∉ chain → P (σ m)) →
      ∀ n ∈ chain, P (run S σ chain n) := by
  induction chain with
  | nil => intro σ _ _ n hn; cases hn
  | cons a as ih =>
    intro σ ordered hout n hn
    obtain ⟨ha, has⟩ := List.nodup_cons.mp hnd
    simp only [run, List.foldl_cons]
    have hPa : P (recompute S σ a a) := by
      simp only [recompute, if_true]
      apply hrule
      intro m hm
      have := ordered [] a as rfl m hm
      exact hout a (by simp) m hm (by
        intro hin
        rcases List.mem_cons.mp hin with h | h
        · exact this.2 h
        · exact this.1 h)
    have ordered' : ∀ l₁ n l₂, as = l₁ ++ n :: l₂ → ∀ m ∈ S.reads n, m ∉ l₂ ∧ m ≠ n := by
      intro l₁ n l₂ h m hm
      exact ordered (a :: l₁) n l₂ (by simp [h]) m hm
    have hout' : ∀ n ∈ as, ∀ m ∈ S.reads n, m ∉ as → P (recompute S σ a m) := by
      intro n hn' m hm hmas
      by_cases hma : m = a
      · rw [hma]; exact hPa
      · have : recompute S σ a m = σ m := by simp [recompute, hma]
        rw [this]
        exact hout n (by simp [hn']) m hm (by
          intro hin
          rcases List.mem_cons.mp hin with h | h
          · exact hma h
          · exact hmas h)
    rcases List.mem_cons.mp hn with rfl | hn'
    · have h1 : run S (recompute S σ n) as n = recompute S σ n n := run_not_mem S as _ n ha
      simp only [run] at h1
      rw [h1]
      exact hPa
    · exact ih has (recompute S σ a) ordered' hout' n hn'

end Efp.Theory

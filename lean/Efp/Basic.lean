def hello := "world"

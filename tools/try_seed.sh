#!/bin/bash
# usage: try_seed.sh <worktree-id e.g. C04> <seed-name e.g. C04-a> [checks to run, default = the property]
# 1. confirms the demo passes without / fails with the patch and the suite still passes, in the agent's worktree
# 2. copies patch + demo to /verif/seeded/<name>/
# 3. applies the patch to /repo, runs the quick check(s), undoes it
set -u
ID=$1; NAME=$2; shift 2; CHECKS=${@:-$ID}
WT=/tmp/wt/$ID
cd $WT || exit 2
[ -f patch.diff ] || git diff -- efootprint > patch.diff
git checkout -- efootprint
/venv/bin/python demo_$ID.py > /tmp/scratch/demo_clean_$NAME.txt 2>&1; RC_CLEAN=$?
git apply patch.diff || { echo "patch does not apply"; exit 2; }
/venv/bin/python demo_$ID.py > /tmp/scratch/demo_patched_$NAME.txt 2>&1; RC_PATCHED=$?
SUITE=$(/venv/bin/python -m pytest -q -p no:cacheprovider --timeout=900 --continue-on-collection-errors 2>&1 | tail -1)
echo "demo clean rc=$RC_CLEAN patched rc=$RC_PATCHED suite: $SUITE"
mkdir -p /verif/seeded/$NAME
cp patch.diff /verif/seeded/$NAME/patch.diff; cp demo_$ID.py /verif/seeded/$NAME/demo.py
cd /verif
git -C /repo apply /verif/seeded/$NAME/patch.diff || { echo "patch does not apply to /repo"; exit 2; }
RES=""
for C in $CHECKS; do
  OUT=$(timeout 1500 /venv/bin/python check.py $C --tier quick 2>&1 | grep -v "^KNOWN-FINDING" | tail -4 | cut -c1-300)
  echo "--- $C: $OUT"
  if echo "$OUT" | grep -q "^VIOLATION"; then RES="$RES $C:caught"; else RES="$RES $C:missed"; fi
done
git -C /repo checkout -- .
git -C /repo status --short | head -3
echo "RESULT $NAME demo_clean=$RC_CLEAN demo_patched=$RC_PATCHED suite='$SUITE' $RES"

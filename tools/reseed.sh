#!/bin/bash
# usage: tools/reseed.sh <Cxx> ; re-runs the quick check of Cxx (no Lean stage) against every seed /verif/seeded/Cxx-* applied in a
# scratch worktree /tmp/wt/re_Cxx (never touches the /repo working tree; the worktree is removed at the end)
P=$1
WT=/tmp/wt/re_$P
git -C /repo worktree add -q --detach $WT HEAD || exit 2
for d in /verif/seeded/$P-*; do
  n=$(basename $d)
  (cd $WT && git checkout -q -- . && git apply $d/patch.diff) || { echo "$n patch-does-not-apply"; continue; }
  OUT=$(cd /verif && EFP_REPO=$WT timeout 1500 /venv/bin/python check.py $P --tier quick --no-lean 2>&1 | grep -v "^KNOWN-FINDING")
  if echo "$OUT" | grep -q "^VIOLATION"; then R=caught; else R=MISSED; fi
  echo "$n $R $(echo "$OUT" | tail -1 | cut -c1-140)"
done
git -C /repo worktree remove --force $WT; git -C /repo worktree prune
echo DONE-$P

#!/usr/bin/env python3
"""Writes /verif/MANIFEST.json from the per-property metadata below (kept here so that the
manifest stays valid and in step with the checks that exist)."""
import json
import os

HERE = os.path.dirname(os.path.dirname(os.path.abspath(__file__)))
BASELINE_CMD = ("cd /repo && /venv/bin/python -m pytest -ra -q -p no:cacheprovider --timeout=900 "
                "--continue-on-collection-errors")

COMMON_NOTE = ("Trusted base: Lean 4.33 kernel (thorough tier re-checks with leanchecker); axioms of the property "
               "theorems audited on every run ⊆ {propext, Classical.choice, Quot.sound}; no sorry/admit/axiom/"
               "native_decide/bv_decide. The theorems are about hand-written executable Lean models; the tie to /repo is "
               "(i) tables regenerated from the source on every run and re-checked by `decide`, (ii) correspondence "
               "suites running model and real code on the same generated inputs. IEEE-754 rounding, pandas/pint/numpy/"
               "pytz internals are modelled by explicit contracts, not verified (DESIGN §9).")

CHECKS = {
    "C01": dict(
        technique="Lean 4 abstract recomputation theory + total-correctness proof of the literal port of attr_updates_chain (and of the keep-last merge for grouped updates) + correspondence of that port with the real chains on exported graphs (K-graph) + edit-vs-rebuild oracle",
        text=("Proved in Lean for any node/value type: a chain that is duplicate-free, closed under 'reads something edited "
              "or recomputed' and ordered after its reads turns a consistent state into a consistent state "
              "(incr_consistent); consistent states are unique given the inputs; hence any finite history of accepted "
              "edits equals the from-scratch state, undo restores. chainOk is an executable checker proved sound "
              "(chainOk_sound). The code's own algorithm is proved too: on every graph without shared ids, with mirrored "
              "links and acyclic (three executable hypotheses that Lean evaluates on each exported real graph), the "
              "literal port of attr_updates_chain terminates and returns a chain accepted by the checker "
              "(code_chain_total), and the keep-last merge used for grouped updates is accepted as well "
              "(grouped_code_chain_accepted). Every run compares the port's chains with the real ones (must match "
              "exactly). NOT proved: graphs with shared ids (there the statement fails: D2, D13) and link edits "
              "(object-level chain), covered by the oracle only. Known findings D2, D3, D13 delimit the guarded domain."),
        design="§7 C01"),
    "C14": dict(
        technique="Lean 4 theorems by kernel evaluation over the parameter table regenerated from /repo + K-valid correspondence (exhaustive class × parameter × invalid kind)",
        text=("Proved in Lean (decide +kernel over Generated.params, the table of every __init__ parameter of every public "
              "class rewritten from /repo on every run): every quantity parameter has a default; wrong dimension, "
              "negative (unless declared meaningful — only data_stored), wrong type and wrong class in a list are refused "
              "by the parse phase, i.e. before any mutation; valid values are accepted. The model of the check is run "
              "against the real code for every table row × invalid kind (K-valid) together with a deep before/after "
              "snapshot. False of the code and recorded as known findings: allowed-value checks run after apply (D8), "
              "Union-annotated parameters unchecked (D9), UsagePattern constructor accepts wrong classes (D16), a "
              "grouped update failing inside apply_changes stays half applied (D17)."),
        design="§7 C14"),
    "C18": dict(
        technique="Lean 4 fixed-point theorems + table obligation order_respects_reads (decide +kernel over tables regenerated from /repo on every run, builder classes included) + K-calc correspondence + recomputation oracle",
        text=("Proved in Lean: in a consistent state any sequence of recomputation requests changes nothing; a full pass in "
              "an order respecting the reads yields a consistent state; nodes outside a chain are never written. The "
              "obligation order_respects_reads is re-proved by decide on every run over CANONICAL_COMPUTATION_ORDER, "
              "calculated_attributes orders and the class-level dependencies recorded by the real code, all regenerated "
              "from /repo: a reorder in the code breaks the proof. Oracle: extra recomputations in random order, "
              "explain, export, aggregates leave calculated values and input physical values unchanged."),
        design="§7 C18"),
    "C02": dict(
        technique="Lean 4 theorems on Model B aggregation (dedup, sumVals, rounding, energy×intensity) + K-calc correspondence",
        text=("Proved in Lean for all inputs: the collections the system sums over contain every reachable component "
              "exactly once (dedup), the un-rounded total is the hour-by-hour sum of the parts and the category/period "
              "views are sums of sub-lists of the same parts, the 4-decimal rounding moves the total by ≤ 5e-5 kg, "
              "energy footprint = energy × intensity physically. Model B (all update rules) is run against the real "
              "code on random systems every run (K-calc, every calculated attribute hour by hour); the same accounting "
              "identities, the five views, finiteness and sign are evaluated on the real objects as the search."),
        design="§7 C02"),
    "C03": dict(
        technique="Lean 4 theorems on the executable cores occFold/dataFold/avgOccSeries of Model B + K-calc correspondence",
        text=("Proved in Lean for every start series, delay list and duration: occurrences are the starts shifted by "
              "the whole hours of the preceding steps, summed over appearances (total = multiplicity × starts); data "
              "totals = occurrences × per-request amount; occurrence-hours = occurrences × duration incl. the "
              "fractional last hour (journeys in parallel and device energy use the same function). K-calc runs the "
              "whole Model B against the real code; the conservation equalities are evaluated exactly on real objects."),
        design="§7 C03"),
    "C04": dict(
        technique="Lean 4 theorems on the sizing rules of Model B (ceil, on-premise peak, fixed counts, cumsum) + K-calc correspondence",
        text=("Proved in Lean: autoscaling = hour-by-hour ceiling (≥ need, < need+1), serverless = raw need, on-premise = "
              "constant ≥ every hourly need, a fixed count is honoured exactly or the rule raises (server and storage), "
              "cumulative need = initial need + running sum of the delta, instances×capacity ≥ cumulative need, active ≤ "
              "provisioned position by position; and, over ℚ, every running sum of a deletion-free storage delta is ≥ 0, so "
              "the sign test never rejects a model without deleting jobs (cumulative_nonneg_without_deletion). Known findings D4 (float cancellation rejects deletion-free models) "
              "and D15 (positional combination of different time windows) are reproduced by the model and reported as "
              "KNOWN-FINDING."),
        design="§7 C04"),
    "C10": dict(
        technique="Lean 4 congruence theorems (PhysEq) for Model A operators and magnitude reads + K-calc with random units",
        text=("Proved in Lean: every scalar and hourly operator is a congruence for physical equality, `.to u` "
              "canonicalises (physically equal inputs become equal), the ceil/floor magnitude reads of Model B come "
              "after `.to hour`, sign/zero tests are unit independent. The composition through all rules is not one "
              "theorem; it is validated by K-calc (a random unit per input: a bare-magnitude read in the code is a "
              "disagreement) and searched by rebuilding the same model with every input re-expressed."),
        design="§7 C10"),
    "C11": dict(
        technique="Lean 4 theorems on convertToUtc for an arbitrary resolution function + K-tz correspondence with pandas/pytz",
        text=("Proved in Lean for every resolution function (hence every zone and transition table) and every series: "
              "the total is preserved, the UTC index is strictly increasing without duplicates, the value at a UTC "
              "instant is the sum of the local hours resolving to it (merged, never dropped); an existing local time "
              "is placed at local − offset in force. The zone resolution (pandas tz_localize semantics on pytz tables, "
              "incl. its treatment of non-hour gaps) is a modelled contract validated by K-tz on every run (quick: 40 "
              "zones; thorough: all pytz zones × all transitions 1950-2037). Finding D7 (index not sorted) was "
              "repaired by a fix: commit."),
        design="§7 C11"),
    "C12": dict(
        technique="Lean 4 linearity and device-share theorems on Model A/B chains + K-calc correspondence + ratio / device-share oracle",
        text=("Proved in Lean: scalar driver × k ⇒ hourly product × k at every hour, through `.to`; divisor × k ⇒ "
              "quotient / k; occurrences, occurrence-hours and journeys in parallel are × k when all traffic is × k; "
              "ceil-based counts are not proportional (witness). K-calc ties Model B to the code; the ratio test on "
              "the real code (one driver at a time, all traffic) is the search."),
        design="§7 C12"),
    "C19": dict(
        technique="Lean 4 permutation-invariance and renaming-invariance theorems (Model B accumulations, abstract rule systems) + K-calc + shuffled rebuilds",
        text=("Proved in Lean: sumVals (every `+=` accumulation of the rules) is invariant under permutation of its "
              "terms hour by hour, the de-duplicated collections do not depend on enumeration order, same-step job "
              "order is irrelevant; any two read-respecting computation orders end in the same state, and the rule system "
              "transported along any renaming of its nodes has the transported state as its only consistent state "
              "(identifiers_irrelevant). Identifiers never enter Model B. Float non-associativity and Python hashing are "
              "runtime: covered by rebuilding with shuffled creation order / permuted lists and comparing."),
        design="§7 C19"),
    "C09": dict(
        technique="Lean 4 theorems on Model A (Qty/HQ/Val operators) + K-qty correspondence with the real classes",
        text=("Proved for all operands in Lean: physical sum/difference/product/quotient, dimension of the result, "
              "raise on dimension mismatch, `.to` keeps the physical value, Empty neutral for + and absorbing for ×, "
              "hourly + and × timestamp by timestamp with missing hours as 0 (totals add up), commutativity. The model's "
              "operators are run against the real classes on random operands every run (K-qty); the same laws are "
              "evaluated directly on the real results as the failing-input search."),
        design="§7 C09"),
}

CHECKS["C20"] = dict(
    technique="Lean 4 theorems on the time-builder model (fromList, fromFrequency, calendar) + K-time correspondence with the real helpers and pandas calendar",
    text=("Proved in Lean: a list is reproduced element for element on a contiguous hourly index from the start date "
          "(length, keys, values, strictly increasing); a frequency-based series has the requested number of points and "
          "carries the volume exactly where the calendar predicate holds, 0 elsewhere; hour-of-day and day-of-week "
          "periodicity. The calendar algorithm is kernel-checked against its inverse on 2023-2028 (a finite table, labelled "
          "as such) and compared with pandas (day of week / month / year) on every run by K-time; for duplicate-free hours "
          "within 0..23 the daily-volume helper carries exactly the daily volume on any 24 consecutive hours "
          "(dailyVolume_sum_full_day). sin-based helpers: index by the model, values by the "
          "oracle. Finding D12 (duplicate / out-of-range hours) is a known finding."),
    design="§7 C20")

CHECKS["C13"] = dict(
    technique="Lean 4 theorems on Model E (typed JSON encode/decode, traversal) + K-json correspondence with system_to_json / json_to_system",
    text=("Proved in Lean: decode(encode m) = m with hourly inputs rounded to 3 decimals (same objects, ids, classes, links, "
          "labels, sources, scalar inputs exactly) under the hypothesis the proof forces — no raw string equals an exported "
          "id (counterexample proved and replayed on the real code: D19); the rounding is idempotent, hence re-export gives "
          "the same JSON; every object reachable through links and lists is written (verified worklist traversal, for every "
          "link graph); the version-9 handler commutes with loading. The model's encode and decode are compared with the "
          "real exporter and loader object by object on every run (K-json). 'Results equal' and 'the loaded system is live' "
          "are covered by the oracle (and by C01's theorems once the loaded graph is well formed). Findings: D14 fixed "
          "(hourly rounding), D18 (api_call_response not loadable), D19."),
    design="§7 C13")

CHECKS["C05"] = dict(
    technique="Lean 4 theorems on Model D's slot store (reset∘set = id, toggle words) + K-engine toggle correspondence + deep-snapshot oracle",
    text=("Proved in Lean, for every store and every list of pairs occupying pairwise distinct slots: switching the "
          "simulated values on and back off restores exactly the same object in every slot and the slot of every object; "
          "hence a successful simulation (which ends with reset_values) and any word of set/reset toggles followed by a "
          "reset return to the baseline. After every toggle the real objects sitting in the simulation's slots are compared "
          "with the model (K-engine). The statement for raising simulations is false of the code (D5: no rollback) and is "
          "a proved counterexample + known finding; graph identity in systems with a shared job is finding D2."),
    design="§7 C05")
CHECKS["C06"] = dict(
    technique="Lean 4 causality theorems on the series primitives and rule cores + simulation-vs-real-update oracle",
    text=("Proved in Lean: the cut at the simulation date keeps nothing before the date and is the identity when the date "
          "is the first hour (so a first-hour simulation runs the same rules on the same inputs as the real update); every "
          "series primitive and rule core used downstream (add, scale, shift by non-negative hours, cumulative sum, "
          "occurrence folding, average occurrences) maps series without hours before the date to such series; twins are "
          "paired position by position; the date check rejects naive and outside dates. The oracle compares first-hour "
          "simulations with really applying the changes to a copy, checks earliest simulated hours, twin links and "
          "rejections. Findings D20 (TypeError), D21 (time-zone change), D22 (link change), D2 facet."),
    design="§7 C06")
CHECKS["C07"] = dict(
    technique="Lean 4 theorems on explanation-tree recording (Model A Expl) + re-evaluation of every node of every real explanation tree",
    text=("Proved in Lean: every recording operator (+ − × ÷ sum abs) yields a tree whose root — and, inductively, every "
          "intermediate step — reproduces its value when the recorded operator is re-evaluated on the recorded operands; "
          "labelling keeps this; leaves of well-recorded trees are labelled; the renderer is total. The tie to the code is "
          "the K-expl oracle: every node of every explanation tree of every calculated attribute of every class (≈65 000 "
          "arithmetic re-evaluations per quick run) and K-qty for the operator values. In-place mutators after recording "
          "and 'leaf has a source' are covered by the oracle only."),
    design="§7 C07")
CHECKS["C08"] = dict(
    technique="Lean 4 theorems: the port of attr_updates_chain yields a complete, duplicate-free, dependency-respecting order and terminates; the link-bookkeeping model (Model F) keeps links mirrored under every operation; table obligation cross_object_reads_are_declared over dependency tables regenerated from /repo; + correspondence (K-graph on exported real graphs, K-bookkeeping on operation sequences) + perturbation oracle",
    text=("Proved in Lean: (1) a chain accepted by chainOk lists each dependent exactly once, after everything it depends "
          "on, and contains every transitive dependent; the literal port of attr_updates_chain produces such an order and "
          "terminates on every acyclic graph without shared ids (code_update_order_correct/terminates). (2) Model F, a "
          "literal port of ExplainableObject.__init__, set_modeling_obj_container, add/remove_child, "
          "ModelingObject.__setattr__ and replace_in_mod_obj_container_without_recomputation: after any sequence of "
          "these operations that does not raise, every attached value is listed by each recorded ancestor, every listed "
          "child is attached and records the parent, ids are unique (links_mirrored_after_any_operations); swapping "
          "detach/attach breaks it (attach_before_detach_breaks_links); replacing a dict-held value keeps them when ids "
          "are unique (replace_in_dict_keeps_links_mirrored; no_relink_breaks_links = seed C05-a; shared_id_breaks_mirror "
          "= root of D2); a whole update whose order satisfies the checker's conditions leaves every attribute's value "
          "recording exactly the values currently held by what it reads, so every recorded ancestor is live "
          "(accepted_update_keeps_graph_consistent, build_gives_consistent_graph); composed with the port of "
          "attr_updates_chain run on the graph exported from the bookkeeping state, any number of input edits keeps the "
          "graph consistent (edit_cycles_keep_graph_consistent). K-bookkeeping runs the model and the real code on "
          "the same random operation sequences; graphInv is evaluated by Lean on graphs exported after builds, "
          "histories, simulations and toggles. Completeness (true reads ⊆ recorded ancestors) is tested by perturbation "
          "only; list-held values are not in Model F. Findings D2, D6, D13 are known."),
    design="§7 C08")
CHECKS["C15"] = dict(
    technique="Lean 4 recovery theorem in the abstract recomputation theory + failing-edit / injected-crash-point oracle",
    text=("Proved in Lean for any rule system: whatever prefix of the chain was recomputed before the failure (any crash "
          "point, any number of failed attempts on the same inputs), re-assigning the previous input values and running the "
          "chain restores exactly the pre-edit state (revert_restores_values, no_unrecoverable_state). The oracle fails "
          "edits at every raising rule and at injected positions, reverts, edits again and compares with fresh builds. The "
          "graph part ('edits after that behave as on a fresh system') is false of the code: finding D10."),
    design="§7 C15")
CHECKS["C16"] = dict(
    technique="Lean 4 theorems on Model D's list operations and reverse look-ups + K-links correspondence with ListLinkedToModelingObj",
    text=("Proved in Lean: an operation a Python list refuses is refused with the same exception and changes nothing; an "
          "operation that changes the content leaves exactly Python's content in an attached list; assignment installs the "
          "list; reverse look-ups are derived from forward links and a referenced object has a non-empty one. The model's "
          "step (content, attachment, exception) is compared with the real class for every generated operation (K-links). "
          "The full statement 'including ones that change nothing' is false of the code: no-op mutators detach the live list, "
          "remove() raises after applying (D11, proved as counterexamples of the model)."),
    design="§7 C16")
CHECKS["C17"] = dict(
    technique="Lean 4 theorems on the builders' derivation rules (Model B Builders) and builder ≡ plain in the abstract recomputation theory + K-builders correspondence + builder-vs-plain oracle",
    text=("Proved in Lean, in physical units and for all inputs: video bitrate = pixels × bits per pixel × frame rate, data = "
          "bitrate × duration, CPU = cost × bitrate; generative-AI token weights, data, latency, GPU need and base RAM "
          "formulas; a builder input drives the derived parameters proportionally. In Model B a builder job is a plain job "
          "with the derived parameters by construction. The derivations are compared with the real builders (K-builders) and "
          "the oracle compares builder systems with hand-built plain systems, alone or mixed with plain jobs, for all "
          "resolutions and (thorough) all technologies, models and instance types. Findings D23, D24."),
    design="§7 C17")

NOT_YET = {}


def main():
    props = [json.loads(l) for l in open(os.path.join(HERE, "properties.jsonl"))]
    checks = []
    na = []
    for p in props:
        pid = p["id"]
        if pid in CHECKS:
            c = CHECKS[pid]
            checks.append({
                "property_id": pid,
                "quick_cmd": f"/venv/bin/python check.py {pid} --tier quick",
                "thorough_cmd": f"/venv/bin/python check.py {pid} --tier thorough",
                "evidence_file": f"/verif/evidence/{pid}.json",
                "replay_cmd_template": f"/venv/bin/python check.py {pid} --replay {{path}}",
                "engine": "lean-models+correspondence",
                "level_claimed": {"category": "proof", "text": c["text"], "design_ref": c["design"]},
                "level_note": c.get("note", "") + COMMON_NOTE,
                "technique": c["technique"],
            })
        else:
            na.append({"property_id": pid,
                       "reason": NOT_YET.get(pid, "check not built yet in this round (no claim made); see DESIGN.md §7 "
                                                   "for the planned theorems, suites and oracle")})
    manifest = {
        "version": 1,
        "setup_cmd": "cd /verif/lean && lake build Efp",
        "hooks": {"guard": "EFOOTPRINT_VERIF", "enable": "none needed: observation and read tracing are done by "
                  "monkey-patching inside the harness process", "baseline_off_cmd": BASELINE_CMD,
                  "source_commits": [], "add_only": True},
        "engines": [
            {"name": "lean-models", "path": "lean/", "serves_properties": sorted(CHECKS),
             "kind_free_text": "hand-written executable Lean 4 models + theorems (Efp/Model, Efp/Proofs, Efp/Props)"},
            {"name": "correspondence-harness", "path": "harness/", "serves_properties": sorted(CHECKS),
             "kind_free_text": "Python harness running the real code and the Lean driver on the same inputs"},
            {"name": "table-translator", "path": "harness/extract_schema.py", "serves_properties": sorted(CHECKS),
             "kind_free_text": "regenerates lean/Efp/Generated/*.lean from /repo on every run"},
        ],
        "checks": checks,
        "not_applicable": na,
        "notes": "See DESIGN.md. Findings on the unchanged tree are in known_findings.json.",
    }
    with open(os.path.join(HERE, "MANIFEST.json"), "w") as f:
        json.dump(manifest, f, indent=1, ensure_ascii=False)
    print("checks:", [c["property_id"] for c in checks], "na:", len(na))


if __name__ == "__main__":
    main()

#!/usr/bin/env python3
"""Writes /verif/MANIFEST.json from the per-property metadata below (kept here so that the
manifest stays valid and in step with the checks that exist)."""
import json
import os

HERE = os.path.dirname(os.path.dirname(os.path.abspath(__file__)))
BASELINE_CMD = ("cd /repo && /venv/bin/python -m pytest -ra -q -p no:cacheprovider --timeout=900 "
                "--continue-on-collection-errors")

COMMON_NOTE = ("Trusted base: Lean 4.33 kernel (thorough tier re-checks with leanchecker); axioms of the property "
               "theorems audited on every run ⊆ {propext, Classical.choice, Quot.sound}; no sorry/admit/axiom/"
               "native_decide/bv_decide. The theorems are about hand-written executable Lean models; the tie to /repo is "
               "(i) tables regenerated from the source on every run and re-checked by `decide`, (ii) correspondence "
               "suites running model and real code on the same generated inputs. IEEE-754 rounding, pandas/pint/numpy/"
               "pytz internals are modelled by explicit contracts, not verified (DESIGN §9).")

CHECKS = {
    "C09": dict(
        technique="Lean 4 theorems on Model A (Qty/HQ/Val operators) + K-qty correspondence with the real classes",
        text=("Proved for all operands in Lean: physical sum/difference/product/quotient, dimension of the result, "
              "raise on dimension mismatch, `.to` keeps the physical value, Empty neutral for + and absorbing for ×, "
              "hourly + and × timestamp by timestamp with missing hours as 0 (totals add up), commutativity. The model's "
              "operators are run against the real classes on random operands every run (K-qty); the same laws are "
              "evaluated directly on the real results as the failing-input search."),
        design="§7 C09"),
}

NOT_YET = {}


def main():
    props = [json.loads(l) for l in open(os.path.join(HERE, "properties.jsonl"))]
    checks = []
    na = []
    for p in props:
        pid = p["id"]
        if pid in CHECKS:
            c = CHECKS[pid]
            checks.append({
                "property_id": pid,
                "quick_cmd": f"/venv/bin/python check.py {pid} --tier quick",
                "thorough_cmd": f"/venv/bin/python check.py {pid} --tier thorough",
                "evidence_file": f"/verif/evidence/{pid}.json",
                "replay_cmd_template": f"/venv/bin/python check.py {pid} --replay {{path}}",
                "engine": "lean-models+correspondence",
                "level_claimed": {"category": "proof", "text": c["text"], "design_ref": c["design"]},
                "level_note": c.get("note", "") + COMMON_NOTE,
                "technique": c["technique"],
            })
        else:
            na.append({"property_id": pid,
                       "reason": NOT_YET.get(pid, "check not built yet in this round (no claim made); see DESIGN.md §7 "
                                                   "for the planned theorems, suites and oracle")})
    manifest = {
        "version": 1,
        "setup_cmd": "cd /verif/lean && lake build Efp",
        "hooks": {"guard": "EFOOTPRINT_VERIF", "enable": "none needed: observation and read tracing are done by "
                  "monkey-patching inside the harness process", "baseline_off_cmd": BASELINE_CMD,
                  "source_commits": [], "add_only": True},
        "engines": [
            {"name": "lean-models", "path": "lean/", "serves_properties": sorted(CHECKS),
             "kind_free_text": "hand-written executable Lean 4 models + theorems (Efp/Model, Efp/Proofs, Efp/Props)"},
            {"name": "correspondence-harness", "path": "harness/", "serves_properties": sorted(CHECKS),
             "kind_free_text": "Python harness running the real code and the Lean driver on the same inputs"},
            {"name": "table-translator", "path": "harness/extract_schema.py", "serves_properties": sorted(CHECKS),
             "kind_free_text": "regenerates lean/Efp/Generated/*.lean from /repo on every run"},
        ],
        "checks": checks,
        "not_applicable": na,
        "notes": "See DESIGN.md. Findings on the unchanged tree are in known_findings.json.",
    }
    with open(os.path.join(HERE, "MANIFEST.json"), "w") as f:
        json.dump(manifest, f, indent=1, ensure_ascii=False)
    print("checks:", [c["property_id"] for c in checks], "na:", len(na))


if __name__ == "__main__":
    main()

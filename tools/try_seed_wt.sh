#!/bin/bash
# usage: try_seed_wt.sh <worktree-id e.g. C04> <seed-name e.g. C04-b> [checks to run, default = the property]
# like try_seed.sh but never touches /repo (safe while a background sweep is running): the checks import the
# patched worktree through EFP_REPO and skip the Lean stage (which would regenerate tables from the patched tree)
set -u
ID=$1; NAME=$2; shift 2; CHECKS=${@:-$ID}
WT=/tmp/wt/$ID
cd $WT || exit 2
[ -f patch.diff ] || git diff -- efootprint > patch.diff
git checkout -- efootprint
/venv/bin/python demo_$ID.py > /tmp/scratch/demo_clean_$NAME.txt 2>&1; RC_CLEAN=$?
git apply patch.diff || { echo "patch does not apply"; exit 2; }
/venv/bin/python demo_$ID.py > /tmp/scratch/demo_patched_$NAME.txt 2>&1; RC_PATCHED=$?
SUITE=$(/venv/bin/python -m pytest -q -p no:cacheprovider --timeout=900 --continue-on-collection-errors 2>&1 | tail -1)
echo "demo clean rc=$RC_CLEAN patched rc=$RC_PATCHED suite: $SUITE"
mkdir -p /verif/seeded/$NAME
cp patch.diff /verif/seeded/$NAME/patch.diff; cp demo_$ID.py /verif/seeded/$NAME/demo.py
cd /verif
RES=""
for C in $CHECKS; do
  OUT=$(EFP_REPO=$WT timeout 1500 /venv/bin/python check.py $C --tier quick --no-lean 2>&1 | grep -v "^KNOWN-FINDING" | tail -4 | cut -c1-300)
  echo "--- $C: $OUT"
  if echo "$OUT" | grep -q "^VIOLATION"; then RES="$RES $C:caught"; else RES="$RES $C:missed"; fi
done
echo "RESULT $NAME demo_clean=$RC_CLEAN demo_patched=$RC_PATCHED suite='$SUITE' $RES"

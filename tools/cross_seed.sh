#!/bin/bash
# usage: cross_seed.sh <log> <worktree-id>... ; runs every registered check (no Lean stage) against each patched worktree
LOG=$1; shift
CHECKS=$(python3 -c "import json; print(' '.join(c['property_id'] for c in json.load(open('/verif/MANIFEST.json'))['checks']))")
cd /verif
for ID in "$@"; do
  for C in $CHECKS; do
    OUT=$(EFP_REPO=/tmp/wt/$ID timeout 1200 /venv/bin/python check.py $C --tier quick --no-lean 2>&1 | grep -v "^KNOWN-FINDING")
    if echo "$OUT" | grep -q "^VIOLATION"; then R=caught; else R=missed; fi
    echo "$ID $C $R $(echo "$OUT" | grep -c '^VIOLATION') $(echo "$OUT" | tail -1 | cut -c1-160)" >> $LOG
  done
done
echo DONE >> $LOG

"""Export of the real value-level calculation graph, and the direct C08 checks on it."""
from harness.common import watchdog, Hang
from harness import realsys
from harness.realsys import ExplainableObjectDict

from efootprint.abstract_modeling_classes.explainable_object_base_class import ExplainableObject
from efootprint.abstract_modeling_classes.explainable_objects import EmptyExplainableObject


def attached_values(rs):
    """[(object name, attr, key name or None, value)] for every explainable value held by the model"""
    out = []
    inv = {o.id: n for n, o in rs.objs.items()}
    for n, o in rs.objs.items():
        for attr, v in list(o.__dict__.items()):
            if attr in ("previous_total_energy_footprints_sum_over_period", "previous_total_fabrication_footprints_sum_over_period",
                        "initial_total_energy_footprints_sum_over_period", "initial_total_fabrication_footprints_sum_over_period"):
                continue
            if isinstance(v, ExplainableObjectDict):
                for k, vv in v.items():
                    out.append((n, attr, inv.get(getattr(k, "id", None), str(k)), vv))
            elif isinstance(v, ExplainableObject):
                out.append((n, attr, None, v))
    return out


def export(rs):
    """nodes: uid, sid (interned ObjectLinkedToModelingObj.id), dict flag, anc/chi uids, liveness, slot, calc flag"""
    vals = attached_values(rs)
    uid = {}
    nodes = []
    sids = {}

    def sid_of(v):
        try:
            s = v.id
        except Exception:  # detached value: no id
            s = f"<detached:{id(v)}>"
        if s not in sids:
            sids[s] = len(sids)
        return sids[s], s

    def add(v, slot, live):
        if id(v) in uid:
            return uid[id(v)]
        u_ = len(nodes)
        uid[id(v)] = u_
        si, sname = sid_of(v)
        nodes.append({"uid": u_, "sid": si, "sname": sname, "dict": bool(slot and slot[2] is not None), "anc": [], "chi": [],
                      "live": live, "slot": slot, "obj": v})
        return u_

    for (n, attr, key, v) in vals:
        add(v, (n, attr, key), True)
    i = 0
    while i < len(nodes):       # ancestors / children that are not held by the model any more are kept as dead nodes
        v = nodes[i]["obj"]
        for a in getattr(v, "direct_ancestors_with_id", []):
            nodes[i]["anc"].append(add(a, None, False))
        for c in getattr(v, "direct_children_with_id", []):
            nodes[i]["chi"].append(add(c, None, False))
        i += 1
    calc = set()
    for n, o in rs.objs.items():
        for a in o.calculated_attributes:
            calc.add((n, a))
    for nd in nodes:
        nd["calc"] = bool(nd["slot"] and (nd["slot"][0], nd["slot"][1]) in calc)
    return nodes


def rank(nodes):
    """longest-path rank over child edges (an acyclicity witness that Lean re-checks); [] when there is a cycle"""
    n = len(nodes)
    indeg = [0] * n
    for nd in nodes:
        for c in nd["chi"]:
            indeg[c] += 1
    rk = [0] * n
    todo = [i for i in range(n) if indeg[i] == 0]
    seen = 0
    while todo:
        x = todo.pop()
        seen += 1
        for c in nodes[x]["chi"]:
            rk[c] = max(rk[c], rk[x] + 1)
            indeg[c] -= 1
            if indeg[c] == 0:
                todo.append(c)
    return rk if seen == n else []


def to_lean(nodes):
    return [{"uid": n["uid"], "sid": n["sid"], "dict": n["dict"], "anc": n["anc"], "chi": n["chi"],
             "calc": n["calc"], "live": n["live"]} for n in nodes]


def check_graph(nodes):
    """C08 on the real graph: every dependency listed on both ends, only live values, no cycle.
    Returns a list of (kind, description)."""
    bad = []
    for n in nodes:
        if not n["live"]:
            continue
        for a in n["anc"]:
            if not nodes[a]["live"]:
                bad.append(("dead-ancestor", f"{n['sname']} lists an ancestor that the model no longer holds ({nodes[a]['sname']})"))
            elif n["uid"] not in nodes[a]["chi"] and n["sid"] not in [nodes[c]["sid"] for c in nodes[a]["chi"]]:
                bad.append(("missing-child-link", f"{nodes[a]['sname']} does not list its dependent {n['sname']}"))
        for c in n["chi"]:
            if not nodes[c]["live"]:
                bad.append(("dead-child", f"{n['sname']} lists a dependent that the model no longer holds ({nodes[c]['sname']})"))
            elif n["uid"] not in nodes[c]["anc"] and n["sid"] not in [nodes[a]["sid"] for a in nodes[c]["anc"]]:
                bad.append(("missing-ancestor-link", f"{nodes[c]['sname']} does not list its ancestor {n['sname']}"))
    # cycle detection on live nodes at slot level
    adj = {}
    for n in nodes:
        if n["live"]:
            adj.setdefault(n["sid"], set()).update(nodes[c]["sid"] for c in n["chi"] if nodes[c]["live"])
    color = {}

    def dfs(s):
        stack = [(s, iter(adj.get(s, ())))]
        color[s] = 1
        while stack:
            node, it = stack[-1]
            for nx in it:
                if color.get(nx, 0) == 1 and nx != node:
                    return True
                if color.get(nx, 0) == 0:
                    color[nx] = 1
                    stack.append((nx, iter(adj.get(nx, ()))))
                    break
            else:
                color[node] = 2
                stack.pop()
        return False

    for s in list(adj):
        if color.get(s, 0) == 0 and dfs(s):
            bad.append(("cycle", "the calculation graph has a cycle"))
            break
    return bad


def real_chain(node, timeout=10):
    """the real update order for an attached value: list of (sid string, is dict container) or 'hang' / 'err:…'"""
    v = node["obj"]
    try:
        with watchdog(timeout):
            ch = v.attr_updates_chain
            return [(c.id, isinstance(c, ExplainableObjectDict)) for c in ch]
    except Hang:
        return "hang"
    except Exception as e:  # noqa
        return f"err:{type(e).__name__}"

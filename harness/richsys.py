"""A real system that contains every public class (incl. services and builder servers), built from
the classes' own default values; used by C14, C13, C17, C07."""
from datetime import datetime

from harness import realsys  # noqa: F401  (silences logs, imports the real code)
from efootprint.core.all_classes_in_order import ALL_EFOOTPRINT_CLASSES
from efootprint.builders.time_builders import create_source_hourly_values_from_list
from efootprint.core.hardware.storage import Storage
from efootprint.core.hardware.server import Server
from efootprint.core.hardware.gpu_server import GPUServer
from efootprint.builders.hardware.boavizta_cloud_server import BoaviztaCloudServer
from efootprint.builders.services.web_application import WebApplication, WebApplicationJob
from efootprint.builders.services.video_streaming import VideoStreaming, VideoStreamingJob
from efootprint.builders.services.generative_ai_ecologits import GenAIModel, GenAIJob
from efootprint.core.usage.job import Job
from efootprint.core.usage.usage_journey_step import UsageJourneyStep
from efootprint.core.usage.usage_journey import UsageJourney
from efootprint.core.hardware.device import Device
from efootprint.core.hardware.network import Network
from efootprint.core.country import Country
from efootprint.core.usage.usage_pattern import UsagePattern
from efootprint.core.system import System


def build(values=None, with_system=True, **overrides):
    """objects by short name; `overrides` = {short name: {param: value}} applied at construction"""
    ov = lambda n: overrides.get(n, {})  # noqa: E731
    o = {}
    o["st"] = Storage.from_defaults("st", **ov("st"))
    o["sv"] = Server.from_defaults("sv", storage=o["st"], **ov("sv"))
    o["gst"] = Storage.from_defaults("gst", **ov("gst"))
    o["gpu"] = GPUServer.from_defaults("gpu", storage=o["gst"], **ov("gpu"))
    o["cst"] = Storage.from_defaults("cst", **ov("cst"))
    o["cloud"] = BoaviztaCloudServer.from_defaults("cloud", storage=o["cst"], **ov("cloud"))
    o["web"] = WebApplication.from_defaults("web", server=o["sv"], **ov("web"))
    o["video"] = VideoStreaming.from_defaults("video", server=o["sv"], **ov("video"))
    o["genai"] = GenAIModel.from_defaults("genai", server=o["gpu"], **ov("genai"))
    o["job"] = Job.from_defaults("job", server=o["sv"], **ov("job"))
    o["cjob"] = Job.from_defaults("cjob", server=o["cloud"], **ov("cjob"))
    o["wjob"] = WebApplicationJob.from_defaults("wjob", service=o["web"], **ov("wjob"))
    o["vjob"] = VideoStreamingJob.from_defaults("vjob", service=o["video"], **ov("vjob"))
    o["gjob"] = GenAIJob.from_defaults("gjob", service=o["genai"], **ov("gjob"))
    o["step"] = UsageJourneyStep.from_defaults("step", jobs=[o["job"], o["cjob"], o["wjob"], o["vjob"], o["gjob"]], **ov("step"))
    o["uj"] = UsageJourney("uj", **dict({"uj_steps": [o["step"]]}, **ov("uj")))
    o["dev"] = Device.from_defaults("dev", **ov("dev"))
    o["net"] = Network.from_defaults("net", **ov("net"))
    o["co"] = Country.from_defaults("co", short_name="CO", **ov("co"))
    vals = values or [3.0, 1.0, 0.0, 4.5, 2.0, 6.25, 1.5]
    o["up"] = UsagePattern("up", **dict({"usage_journey": o["uj"], "devices": [o["dev"]], "network": o["net"], "country": o["co"],
                                         "hourly_usage_journey_starts": create_source_hourly_values_from_list(vals, datetime(2025, 3, 3, 6))},
                                        **ov("up")))
    if with_system:
        o["sys"] = System("sys", **dict({"usage_patterns": [o["up"]]}, **ov("sys")))
    return o


def classes_covered(objs):
    have = {type(v).__name__ for v in objs.values()}
    return have, {c.__name__ for c in ALL_EFOOTPRINT_CLASSES} - have

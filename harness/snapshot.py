"""Deep snapshots of a real model: identity and value of every attribute of every object, links,
reverse links and calculation-graph edges (what 'the baseline' / 'the model' means for C05, C14, C15)."""
from harness import realsys
from efootprint.abstract_modeling_classes.explainable_object_base_class import ExplainableObject
from efootprint.abstract_modeling_classes.explainable_object_dict import ExplainableObjectDict
from efootprint.abstract_modeling_classes.list_linked_to_modeling_obj import ListLinkedToModelingObj
from efootprint.abstract_modeling_classes.contextual_modeling_object_attribute import ContextualModelingObjectAttribute
from efootprint.abstract_modeling_classes.modeling_object import ModelingObject

JOURNAL = {"previous_change", "all_changes", "simulation", "previous_total_energy_footprints_sum_over_period",
           "previous_total_fabrication_footprints_sum_over_period", "initial_total_energy_footprints_sum_over_period",
           "initial_total_fabrication_footprints_sum_over_period", "contextual_modeling_obj_containers",
           "trigger_modeling_updates"}


def canon_key(c):
    if c is None:
        return None
    # physical value (magnitude × unit scale) and dimension: an in-place unit conversion is not a change
    if c["t"] == "q":
        return ("q", float(c["m"]) * float(c["scale"]), tuple(c["dim"]))
    if c["t"] == "h":
        return ("h", tuple(c["ks"]), tuple(float(v) * float(c["scale"]) for v in c["vs"]), tuple(c["dim"]))
    return (c["t"], c.get("repr"))


def same(a, b, rel=1e-9):
    """equality of two descriptions, numbers compared with a relative tolerance: an in-place unit conversion changes
    the last bits of a magnitude × scale product, which is not a change of the model"""
    if isinstance(a, float) and isinstance(b, float):
        if a == b or (a != a and b != b):
            return True
        return abs(a - b) <= rel * max(abs(a), abs(b))
    if isinstance(a, tuple) and isinstance(b, tuple):
        return len(a) == len(b) and all(same(x, y, rel) for x, y in zip(a, b))
    return a == b


def describe(v, with_identity=True, with_graph=True):
    if isinstance(v, ExplainableObjectDict):
        return ("dict", tuple(sorted((getattr(k, "id", str(k)), describe(x, with_identity, with_graph)) for k, x in v.items())))
    if isinstance(v, ExplainableObject):
        d = ("val", id(v) if with_identity else 0, canon_key(realsys.canon(v)), v.label)
        if with_graph:
            d += (tuple(sorted(id(a) for a in v.direct_ancestors_with_id)) if with_identity else len(v.direct_ancestors_with_id),
                  tuple(sorted(id(c) for c in v.direct_children_with_id)) if with_identity else len(v.direct_children_with_id))
        return d
    if isinstance(v, ListLinkedToModelingObj):
        return ("list", tuple(e.id for e in v))
    if isinstance(v, ContextualModelingObjectAttribute):
        return ("link", v.id)
    if isinstance(v, ModelingObject):
        return ("link", v.id)
    if isinstance(v, (str, int, float)) or v is None:
        return ("raw", v)
    if isinstance(v, list):
        return ("pylist", len(v))
    return ("other", type(v).__name__)


def deep(objs, with_identity=True, with_graph=True):
    """{(object name, attribute): description} + reverse links"""
    snap = {}
    for n, o in objs.items():
        for attr, v in o.__dict__.items():
            if attr in JOURNAL:
                continue
            snap[(n, attr)] = describe(v, with_identity, with_graph)
        try:
            snap[(n, "<containers>")] = ("containers", tuple(sorted(c.id for c in o.modeling_obj_containers)))
        except Exception as e:  # noqa
            snap[(n, "<containers>")] = ("containers-error", type(e).__name__)
    return snap


def diff(a, b, limit=5):
    out = []
    for k in sorted(set(a) | set(b), key=str):
        if not same(a.get(k), b.get(k)):
            out.append(k)
            if len(out) >= limit:
                break
    return out

"""Table translator: regenerates lean/Efp/Generated/*.lean from the *current* /repo on every run.

The generated files contain only data (`def … : List … := […]`); the obligations over them are Lean
theorems in Efp/Proofs/Tables.lean proved by `decide`, re-checked by `lake build` whenever the data
changed.  A table that no longer matches what the models were written against is a broken proof
obligation in the sense of the brief."""
import inspect
import os
from fractions import Fraction
from typing import get_args, get_origin

from harness.common import LEAN_DIR, silence_logs

silence_logs()

GEN = os.path.join(LEAN_DIR, "Efp", "Generated")

MODEL_UNITS = ["dimensionless", "hour", "kWh", "kg", "g", "GB", "TB", "W", "B", "cpu_core", "gpu", "year", "day",
               "s", "min", "kB", "MB", "percent", "tonne", "kW", "Wh", "MWh"]


def lean_str(s):
    return '"' + str(s).replace("\\", "\\\\").replace('"', '\\"') + '"'


def lean_list(items, per_line=4, indent="  "):
    if not items:
        return "[]"
    lines = []
    for i in range(0, len(items), per_line):
        lines.append(indent + ", ".join(items[i:i + per_line]))
    return "[\n" + ",\n".join(lines) + "]"


def write_if_changed(path, content):
    old = None
    if os.path.exists(path):
        with open(path) as f:
            old = f.read()
    if old != content:
        os.makedirs(os.path.dirname(path), exist_ok=True)
        with open(path, "w") as f:
            f.write(content)
        return True
    return False


def rat_lit(fr):
    fr = Fraction(fr)
    return f"({fr.numerator} : Rat)" if fr.denominator == 1 else f"(({fr.numerator} : Rat) / {fr.denominator})"


def gen_units():
    from harness.realsys import unit_info
    rows = []
    for name in MODEL_UNITS:
        scale, dim = unit_info(name)
        rows.append(f"({lean_str(name)}, {rat_lit(scale)}, [{', '.join(str(int(x)) for x in dim)}])")
    return ("/- GENERATED from /repo by harness/extract_schema.py — do not edit. -/\n"
            "namespace Efp.Generated\n\n"
            "/-- pint's view of every unit the models name: (name, scale to base units, exponents of\n"
            "time, length, mass, cpu_core, gpu) -/\n"
            f"def units : List (String × Rat × List Int) := {lean_list(rows, 1)}\n\n"
            "end Efp.Generated\n")


def default_instance(cls):
    """a throw-away instance to read `calculated_attributes` (a property) from"""
    import efootprint.core.all_classes_in_order as aco
    obj = cls.__new__(cls)
    return obj


def annotation_kind(ann):
    from efootprint.abstract_modeling_classes.explainable_objects import (
        ExplainableQuantity, ExplainableHourlyQuantities)
    from efootprint.abstract_modeling_classes.explainable_object_base_class import ExplainableObject
    from efootprint.abstract_modeling_classes.modeling_object import ModelingObject
    if ann is inspect.Parameter.empty:
        return "none"
    if get_origin(ann) is not None:
        if get_origin(ann) in (list,):
            inner = get_args(ann)[0]
            return "list:" + getattr(inner, "__name__", str(inner))
        return "union"
    if ann is str:
        return "str"
    try:
        if issubclass(ann, ExplainableHourlyQuantities):
            return "hourly"
        if issubclass(ann, ExplainableQuantity):
            return "quantity"
        from efootprint.abstract_modeling_classes.source_objects import SourceObject
        if issubclass(ann, SourceObject):
            return "sourceobject"
        if issubclass(ann, ExplainableObject):
            return "object"
        if issubclass(ann, ModelingObject):
            return "modeling:" + ann.__name__
    except TypeError:
        pass
    return "other"


def gen_schema():
    from efootprint.core.all_classes_in_order import ALL_EFOOTPRINT_CLASSES, CANONICAL_COMPUTATION_ORDER
    from efootprint.abstract_modeling_classes.explainable_objects import ExplainableQuantity
    from harness.realsys import unit_info
    classes = [c.__name__ for c in ALL_EFOOTPRINT_CLASSES]
    canon = [c.__name__ for c in CANONICAL_COMPUTATION_ORDER]
    bases = []
    for c in ALL_EFOOTPRINT_CLASSES:
        bases.append(f"({lean_str(c.__name__)}, [{', '.join(lean_str(b.__name__) for b in c.__mro__[1:] if b.__name__ not in ('object', 'ABC'))}])")
    calc = []
    for c in ALL_EFOOTPRINT_CLASSES:
        # calculated_attributes is a property that never reads instance state for its *order*,
        # except GPUServer/Storage which extend the parent's list: evaluate on a bare instance
        try:
            obj = c.__new__(c)
            attrs = list(c.calculated_attributes.fget(obj))
        except Exception as e:  # noqa
            attrs = ["<error:" + type(e).__name__ + ">"]
        calc.append(f"({lean_str(c.__name__)}, [{', '.join(lean_str(a) for a in attrs)}])")
    params = []
    for c in ALL_EFOOTPRINT_CLASSES:
        sig = inspect.signature(c.__init__)
        try:
            defaults = c.default_values() or {}
        except Exception:  # noqa
            defaults = {}
        neg = c.attributes_that_can_have_negative_values()
        for pn, p in sig.parameters.items():
            if pn in ("self", "name"):
                continue
            kind = annotation_kind(p.annotation)
            dim = "[]"
            has_default = pn in defaults
            if has_default and isinstance(defaults[pn], ExplainableQuantity):
                _, d = unit_info(defaults[pn].value.units)
                dim = "[" + ", ".join(str(int(x)) for x in d) + "]"
            params.append(f"({lean_str(c.__name__)}, {lean_str(pn)}, {lean_str(kind)}, "
                          f"{'true' if has_default else 'false'}, {dim}, {'true' if pn in neg else 'false'})")
    return ("/- GENERATED from /repo by harness/extract_schema.py — do not edit. -/\n"
            "namespace Efp.Generated\n\n"
            f"def allClasses : List String := {lean_list([lean_str(c) for c in classes])}\n\n"
            f"def canonicalOrder : List String := {lean_list([lean_str(c) for c in canon])}\n\n"
            "/-- class ↦ its base classes (MRO without the class itself) -/\n"
            f"def classBases : List (String × List String) := {lean_list(bases, 1)}\n\n"
            "/-- class ↦ `calculated_attributes` in declared order -/\n"
            f"def calculatedAttributes : List (String × List String) := {lean_list(calc, 1)}\n\n"
            "/-- (class, parameter, annotation kind, has a default value, dimension of the default,\n"
            "may be negative) for every `__init__` parameter of every public class -/\n"
            f"def params : List (String × String × String × Bool × List Int × Bool) := {lean_list(params, 1)}\n\n"
            "end Efp.Generated\n")


def reference_specs():
    """a fixed (seeded) family of systems on which the recorded dependencies are observed"""
    import random
    from harness import specgen, realsys
    rng = random.Random(20260927)
    specs = []
    for i in range(14):
        specs.append(specgen.gen_safe_spec(rng, realsys.unit_info, allow_delete=(i % 3 == 0), allow_dumps=(i % 4 == 0),
                                           same_window=True))
    return specs


def gen_reads():
    """class-level dependencies as the real code records them (direct_ancestors_with_id) on the
    reference systems: ((class, calculated attr), (class, attr it was computed from))"""
    from harness import realsys, graphx
    reads = set()
    for spec in reference_specs():
        try:
            rs = realsys.RealSystem(spec)
        except Exception:  # noqa
            continue
        nodes = graphx.export(rs)
        cls_of = {n: type(o).__name__ for n, o in rs.objs.items()}
        for nd in nodes:
            if not (nd["live"] and nd["calc"]):
                continue
            c = (cls_of[nd["slot"][0]], nd["slot"][1])
            for a in nd["anc"]:
                an = nodes[a]
                if an["slot"] is None:
                    continue
                reads.add((c, (cls_of[an["slot"][0]], an["slot"][1])))
    # … and on the system that contains every public class (services, builder jobs, cloud server)
    try:
        from harness import richsys

        class _RS:
            pass
        rs = _RS()
        rs.objs = richsys.build()
        nodes = graphx.export(rs)
        cls_of = {n: type(o).__name__ for n, o in rs.objs.items()}
        for nd in nodes:
            if not (nd["live"] and nd["calc"]):
                continue
            c = (cls_of[nd["slot"][0]], nd["slot"][1])
            for a in nd["anc"]:
                an = nodes[a]
                if an["slot"] is None:
                    continue
                reads.add((c, (cls_of[an["slot"][0]], an["slot"][1])))
    except Exception as e:  # noqa
        reads.add((("<builder reference system failed>", type(e).__name__), ("", "")))
    rows = [f"(({lean_str(c)}, {lean_str(a)}), ({lean_str(d)}, {lean_str(b)}))" for (c, a), (d, b) in sorted(reads)]
    return ("/- GENERATED from /repo by harness/extract_schema.py — do not edit. -/\n"
            "namespace Efp.Generated\n\n"
            "/-- ((class, calculated attribute), (class, attribute)) : the first was computed from the second,\n"
            "as recorded by the real code in `direct_ancestors_with_id` on the reference systems -/\n"
            f"def recordedReads : List ((String × String) × (String × String)) := {lean_list(rows, 1)}\n\n"
            "end Efp.Generated\n")


def gen_depends():
    """(class of an object, class of an object it lists in `modeling_objects_whose_attributes_depend_directly_on_me`),
    as returned by the real code on the reference systems and on the system that contains every public class"""
    from harness import realsys
    deps = set()

    def record(objs):
        for o in objs:
            for x in o.modeling_objects_whose_attributes_depend_directly_on_me:
                deps.add((type(o).__name__, type(getattr(x, "_value", x)).__name__))
    for spec in reference_specs():
        try:
            rs = realsys.RealSystem(spec)
        except Exception:  # noqa
            continue
        record(rs.objs.values())
    try:
        from harness import richsys
        record(richsys.build().values())
    except Exception as e:  # noqa
        deps.add(("<builder reference system failed>", type(e).__name__))
    rows = [f"({lean_str(a)}, {lean_str(b)})" for a, b in sorted(deps)]
    return ("/- GENERATED from /repo by harness/extract_schema.py — do not edit. -/\n"
            "namespace Efp.Generated\n\n"
            "/-- (class, class of an object whose attributes it declares as depending directly on it) -/\n"
            f"def dependsDirectly : List (String × String) := {lean_list(rows, 1)}\n\n"
            "end Efp.Generated\n")


def regenerate():
    changed = []
    for fname, gen in [("Units.lean", gen_units), ("Schema.lean", gen_schema), ("Reads.lean", gen_reads), ("Depends.lean", gen_depends)]:
        if write_if_changed(os.path.join(GEN, fname), gen()):
            changed.append(fname)
    return changed


if __name__ == "__main__":
    print("changed:", regenerate())

"""K-qty: operator applications on random operands, real classes vs Model A; plus the direct
algebraic-law oracle of C09 on the real classes."""
import math
import random
from datetime import datetime, timedelta, timezone
from fractions import Fraction

import numpy as np
import pandas as pd
import pint_pandas

from harness.common import watchdog, run_lean, err_enum, frac, rat_str
from harness import realsys, leanio
from harness.realsys import u, EmptyExplainableObject, ExplainableQuantity, ExplainableHourlyQuantities, canon

UNIT_POOL = {
    "data": ["B", "kB", "MB", "GB", "TB"], "time": ["s", "min", "hour", "day"], "mass": ["g", "kg", "tonne"],
    "power": ["W", "kW"], "none": ["dimensionless", "percent"], "cpu": ["cpu_core"], "ci": ["g/kWh", "kg/kWh"],
    "energy": ["kWh", "Wh", "MWh"],
}
BINOPS = ["add", "sub", "mul", "div", "npmax", "npmin"]
UNOPS = ["max", "sum", "abs", "neg", "ceil", "to", "shift", "round", "copy"]


def gen_operand(rng, kind=None, fam=None, base=None, aware=None):
    kind = kind or rng.choice(["q", "q", "h", "h", "h", "e"])
    fam = fam or rng.choice(list(UNIT_POOL))
    unit = rng.choice(UNIT_POOL[fam])
    if kind == "e":
        return {"k": "e"}
    if kind == "q":
        m = rng.choice([0.0, 1.0, round(rng.uniform(-50, 500), 3), round(rng.uniform(0.001, 5), 4)])
        return {"k": "q", "m": m, "u": unit, "fam": fam}
    start = (base if base is not None else 0) + rng.choice([0, 0, 1, 2, 5, 40])
    n = rng.randint(1, 12)
    vals = [rng.choice([0.0, round(rng.uniform(-20, 300), 3), round(rng.uniform(0, 3), 4)]) for _ in range(n)]
    flavour = rng.random()
    if flavour < 0.12:
        vals = [-round(rng.uniform(0.001, 300), 3) for _ in range(n)]        # strictly negative at every hour (freed storage)
    elif flavour < 0.2:
        vals = [round(rng.uniform(0.5, 300), 3) for _ in range(n)]           # strictly positive at every hour
    elif flavour < 0.25:
        vals = [float(rng.randint(-9, 9)) for _ in range(n)]                 # whole numbers of both signs
    elif flavour < 0.33:
        # whole numbers given as Python ints (what a user types: [1, 2, 4, 5]): the series keeps an integer dtype
        vals = [rng.randint(1, 12) * rng.choice([1, 1, -1]) for _ in range(n)]
        return {"k": "h", "start": start, "vs": vals, "u": unit, "fam": fam, "int": True,
                "aware": rng.random() < 0.5 if aware is None else aware}
    return {"k": "h", "start": start, "vs": vals, "u": unit, "fam": fam,
            "aware": rng.random() < 0.5 if aware is None else aware}


def build_real(op):
    if op["k"] == "e":
        return EmptyExplainableObject()
    if op["k"] == "q":
        return ExplainableQuantity(op["m"] * u(op["u"]), "operand")
    t0 = datetime(2025, 3, 1) + timedelta(hours=op["start"])
    idx = pd.date_range(start=t0, periods=len(op["vs"]), freq="h", tz="UTC" if op["aware"] else None)
    if op.get("gap"):
        # an hour missing in the middle (what convert_to_utc produces at a fall-back transition)
        idx = pd.DatetimeIndex([t + timedelta(hours=1 if i >= op["gap"] else 0) for i, t in enumerate(idx)])
    if op.get("int") and not op.get("gap") and all(isinstance(v, int) for v in op["vs"]):
        from efootprint.builders.time_builders import create_hourly_usage_df_from_list
        df = create_hourly_usage_df_from_list([int(v) for v in op["vs"]], t0, u(op["u"]).units)
        if op["aware"]:
            df.index = df.index.tz_localize("UTC")
        return ExplainableHourlyQuantities(df, "operand")
    df = pd.DataFrame({"value": pint_pandas.PintArray(np.array(op["vs"], dtype=float), dtype=u(op["u"]).units)}, index=idx)
    return ExplainableHourlyQuantities(df, "operand")


def lean_operand(op):
    if op["k"] == "e":
        return None
    uj = leanio.unit_json(realsys.unit_info, op["u"])
    if op["k"] == "q":
        return {"q": rat_str(op["m"]), "u": uj}
    k0 = leanio.naive_epoch(2025, 3, 1) + 3600 * op["start"]
    if op.get("gap"):
        return {"ks": [k0 + 3600 * (i + (1 if i >= op["gap"] else 0)) for i in range(len(op["vs"]))],
                "vs": [rat_str(v) for v in op["vs"]], "u": uj}
    return {"k0": k0, "vs": [rat_str(v) for v in op["vs"]], "u": uj}


def apply_real(name, a, b, extra):
    if name == "add":
        return a + b
    if name == "sub":
        return a - b
    if name == "mul":
        return a * b
    if name == "div":
        return a / b
    if name == "npmax":
        return a.np_compared_with(b, "max")
    if name == "npmin":
        return a.np_compared_with(b, "min")
    if name == "max":
        return a.max()
    if name == "sum":
        return a.sum()
    if name == "abs":
        return a.abs()
    if name == "neg":
        return -a
    if name == "ceil":
        return a.ceil()
    if name == "copy":
        return a.copy()
    if name == "to":
        return a.to(u(extra["unit"]).units)
    if name == "shift":
        if extra.get("unit", "hour") == "minute":
            return a.return_shifted_hourly_quantities(ExplainableQuantity(extra["k"] * 60 * u.min, "shift"))
        return a.return_shifted_hourly_quantities(ExplainableQuantity(extra["k"] * u.hour, "shift"))
    if name == "round":
        return round(a, extra["n"])
    raise ValueError(name)


def phys_view(c):
    """canonical value → (kind, dim, {key: Fraction phys} or Fraction phys)"""
    if c is None:
        return ("e", None, None)
    if c["t"] == "q":
        return ("q", tuple(c["dim"]), frac(c["m"]) * c["scale"])
    if c["t"] == "h":
        return ("h", tuple(c["dim"]), {k: frac(v) * c["scale"] for k, v in zip(c["ks"], c["vs"])})
    return (c["t"], None, None)


def nonfinite(c):
    return c is not None and not realsys.finite(c)


def gen_case(rng):
    opn = rng.choice(BINOPS * 3 + UNOPS)
    extra = {}
    if opn in BINOPS:
        fam = rng.choice(list(UNIT_POOL))
        same_fam = rng.random() < 0.75 or opn in ("mul", "div")
        aware = rng.random() < 0.5
        a = gen_operand(rng, fam=fam, aware=aware)
        b = gen_operand(rng, fam=fam if same_fam else None, base=a.get("start", 0) if rng.random() < 0.7 else None,
                        aware=aware if rng.random() < 0.9 else not aware)
        if opn in ("add", "sub", "mul", "div") and a["k"] == "h" and b["k"] == "h" and len(a["vs"]) >= 2 and rng.random() < 0.2:
            # same start and same number of hours, but one of the two skips an hour
            b["start"] = a["start"]
            b["vs"] = [rng.choice([0.0, round(rng.uniform(-20, 300), 3)]) for _ in a["vs"]]
            rng.choice([a, b])["gap"] = rng.randint(1, len(a["vs"]) - 1)
        if opn in ("npmax", "npmin"):
            a = gen_operand(rng, kind=rng.choice(["h", "h", "e"]), fam=fam, aware=aware)
            b = gen_operand(rng, kind=rng.choice(["h", "h", "e"]), fam=fam, aware=aware)
            if a["k"] == "h" and b["k"] == "h" and rng.random() < 0.8:
                b["vs"] = [rng.choice([0.0, round(rng.uniform(-20, 300), 3)]) for _ in a["vs"]]
                b["start"] = a["start"]
    else:
        a = gen_operand(rng, kind="h" if opn in ("max", "sum", "abs", "neg", "shift") and rng.random() < 0.9 else None)
        b = {"k": "e"}
        if opn == "to":
            extra["unit"] = rng.choice(UNIT_POOL[a["fam"]]) if a["k"] != "e" and rng.random() < 0.85 \
                else rng.choice(UNIT_POOL[rng.choice(list(UNIT_POOL))])
        if opn == "shift":
            # whole and fractional hours of both signs (the hour bucket of t + d is t + floor(d)), written in hours or minutes
            extra["k"] = rng.choice([0, 1, 2, 5, 0.5, 1.75, 26, -1, -3, -0.5, -1.5, -2.25, -0.25])
            extra["unit"] = rng.choice(["hour", "hour", "minute"])
        if opn == "round":
            extra["n"] = rng.choice([0, 1, 2, 4])
    return {"op": opn, "a": a, "b": b, "extra": extra}


def run_real(case):
    """('ok', canonical result, operand phys before/after) or ('err', enum)"""
    try:
        with watchdog(20):
            a = build_real(case["a"])
            b = build_real(case["b"])
            before = (phys_view(canon(a)), phys_view(canon(b)))
            r = apply_real(case["op"], a, b, case["extra"])
            c = canon(r)
            after = (phys_view(canon(a)), phys_view(canon(b)))
            if nonfinite(c):
                vals = c["vs"] if c["t"] == "h" else [c["m"]]
                return "err", ("nan" if any(math.isnan(x) for x in vals) else "divzero"), before, after
            return "ok", c, before, after
    except Exception as e:  # noqa
        return "err", err_enum(e), None, None


def lean_request(case):
    r = {"cmd": "qty", "op": case["op"], "a": lean_operand(case["a"]), "b": lean_operand(case["b"])}
    if case["op"] == "to":
        r["unit"] = leanio.unit_json(realsys.unit_info, case["extra"]["unit"])
    if case["op"] == "shift":
        # the model takes the floor itself, from the duration as written (hours or minutes)
        r["op"] = "shiftd"
        ex = case["extra"]
        r["b"] = lean_operand({"k": "q", "m": ex["k"] * 60, "u": "minute"} if ex.get("unit") == "minute" else {"k": "q", "m": ex["k"], "u": "hour"})
    if case["op"] == "round":
        r["n"] = case["extra"]["n"]
    if case["op"] == "copy":
        r["op"] = "add"
        r["b"] = None     # copy = same value; modelled as x + Empty for q/h, Empty + Empty for Empty
    return r


def expected_by_law(case, before):
    """The C09 laws, evaluated exactly on the operands' physical views (independent of the model):
    returns None when the law makes no prediction for this case, else ('ok', kind, dim, phys) / ('raise',)"""
    (ka, da, pa), (kb, db, pb) = before
    opn = case["op"]
    if opn in ("add", "sub") and case["a"]["k"] != "e" and case["b"]["k"] != "e":
        if ka != kb:
            return ("raise",)
        if da != db:
            return ("raise",)
        sgn = 1 if opn == "add" else -1
        if ka == "q":
            return ("ok", "q", da, pa + sgn * pb)
        if case["a"]["aware"] != case["b"]["aware"]:
            return ("raise",)
        if opn == "sub" and set(pa) != set(pb):
            return None    # index mismatch under `-`: outside the statement (missing hours → NaN)
        keys = sorted(set(pa) | set(pb))
        return ("ok", "h", da, {k: pa.get(k, 0) + sgn * pb.get(k, 0) for k in keys})
    if opn == "add" and (case["a"]["k"] == "e" or case["b"]["k"] == "e"):
        other = before[1] if case["a"]["k"] == "e" else before[0]
        return ("ok",) + other
    if opn == "mul":
        if case["a"]["k"] == "e" or case["b"]["k"] == "e":
            return ("ok", "e", None, None)
        dim = tuple(x + y for x, y in zip(da, db))
        if ka == "q" and kb == "q":
            return ("ok", "q", dim, pa * pb)
        if ka == "q":
            return ("ok", "h", dim, {k: pa * v for k, v in pb.items()})
        if kb == "q":
            return ("ok", "h", dim, {k: v * pb for k, v in pa.items()})
        if case["a"]["aware"] != case["b"]["aware"]:
            return ("raise",)
        keys = sorted(set(pa) | set(pb))
        return ("ok", "h", dim, {k: pa.get(k, 0) * pb.get(k, 0) for k in keys})
    if opn == "div" and ka in ("q", "h") and kb in ("q", "h") and not (ka == "h" and kb == "h"):
        # quotient of a scalar and a series (either way) or of two scalars, where no divisor is zero
        dim = tuple(x - y for x, y in zip(da, db))
        if kb == "q":
            if pb == 0:
                return None
            return ("ok", "q", dim, pa / pb) if ka == "q" else ("ok", "h", dim, {k: v / pb for k, v in pa.items()})
        if any(v == 0 for v in pb.values()):
            return None
        return ("ok", "h", dim, {k: pa / v for k, v in pb.items()})
    if opn == "to" and ka != "e":
        _, dim_t = realsys.unit_info(case["extra"]["unit"])
        if tuple(dim_t) != da:
            return ("raise",)
        return ("ok", ka, da, pa)
    if opn == "copy":
        return ("ok", ka, da, pa)
    if opn == "sum" and ka == "h":
        return ("ok", "q", da, sum(pa.values(), Fraction(0)))
    if opn == "neg" and ka == "h":
        return ("ok", "h", da, {k: -v for k, v in pa.items()})
    if opn == "abs" and ka == "h":
        return ("ok", "h", da, {k: abs(v) for k, v in pa.items()})
    if opn == "max" and ka == "h":
        return ("ok", "q", da, max(pa.values()))
    if opn == "shift" and ka == "h":
        k = math.floor(case["extra"]["k"])
        return ("ok", "h", da, {t + 3600 * k: v for t, v in pa.items()})
    return None


def law_violation(case, status, res, before, after):
    """a string describing how the real result breaks a C09 law, or None"""
    if before is None:
        return None
    exp = expected_by_law(case, before)
    # operands keep their physical value (scalar `ceil` and `to` are in-place by design; `to` keeps phys)
    if after is not None and case["op"] not in ("ceil", "round"):
        for nm, b4, af in (("left", before[0], after[0]), ("right", before[1], after[1])):
            if not same_phys(b4, af):
                return f"operand-changed:{case['op']}:{nm}"
    if exp is None:
        return None
    if exp[0] == "raise":
        if status == "ok":
            return f"no-raise:{case['op']}:{case['a']['k']}{case['b']['k']}"
        return None
    if status != "ok":
        return f"unexpected-raise:{case['op']}:{case['a']['k']}{case['b']['k']}:{res}"
    got = phys_view(res)
    if not same_phys(got, exp[1:]):
        return f"wrong-result:{case['op']}:{case['a']['k']}{case['b']['k']}"
    return None


def same_phys(x, y, rel=1e-9):
    (kx, dx, px), (ky, dy, py) = x, y
    if kx != ky:
        return False
    if kx == "e":
        return True
    if kx not in ("q", "h"):
        return True
    if tuple(dx) != tuple(dy):
        return False
    if kx == "q":
        return abs(float(px) - float(py)) <= rel * max(abs(float(px)), abs(float(py))) + 1e-300
    if sorted(px) != sorted(py):
        return False
    ref = max([abs(float(v)) for v in py.values()] + [0.0])
    return all(abs(float(px[k]) - float(py[k])) <= rel * max(abs(float(px[k])), abs(float(py[k])), ref * 1e-3) + 1e-300
               for k in px)


def float_tie(case):
    a = case["a"]
    vals = a.get("vs") if a.get("k") == "h" else [a.get("m", 0.0)]
    p = 10 ** case["extra"]["n"]
    return any(abs(abs(v * p - math.floor(v * p)) - 0.5) < 1e-6 for v in (vals or []))


def run_shard(args):
    seed, n = args
    rng = random.Random(seed)
    cases = [gen_case(rng) for _ in range(n)]
    reals = [run_real(c) for c in cases]
    answers = run_lean([lean_request(c) for c in cases])
    out = {"cases": n, "disagreements": [], "violations": [], "ops": {}, "errs": {}, "inconclusive": 0, "samples": []}
    for c, (st, res, before, after), ans in zip(cases, reals, answers):
        out["ops"][c["op"]] = out["ops"].get(c["op"], 0) + 1
        if st == "err":
            out["errs"][res] = out["errs"].get(res, 0) + 1
        # --- correspondence with the model
        mixed = c["a"]["k"] == "h" and c["b"]["k"] == "h" and c["a"]["aware"] != c["b"]["aware"]
        dis = None
        if "bad" in ans:
            dis = f"driver: {ans['bad']}"
        elif mixed:
            pass   # awareness is not part of the model (DESIGN §9): judged by the oracle only
        elif "err" in ans:
            if st != "err":
                dis = f"model raises {ans['err']}, real returns a value"
            elif res != ans["err"] and not ({res, ans["err"]} <= {"nan", "divzero"}) and not (res in ("type", "not-implemented", "other:AttributeError", "other:TypeError")
                                            and ans["err"] in ("type", "not-implemented")):
                dis = f"model raises {ans['err']}, real raises {res}"
        else:
            if st == "err":
                dis = f"real raises {res}, model returns a value"
            else:
                lv = leanio.lean_val(ans["ok"])
                why = leanio.compare_vals(res if (res is None or res.get("t") in ("q", "h")) else None, lv)
                if why and res is not None and res.get("t") not in ("q", "h"):
                    why = None if lv is None else why
                if why:
                    dis = why
        if dis and c["op"] == "round" and float_tie(c):
            # numpy rounds x·10ⁿ computed in binary floating point; the model rounds the exact rational.  They may
            # differ only when x·10ⁿ lands on a tie in floats: floating point, outside the model (DESIGN §9)
            out["inconclusive"] += 1
            dis = None
        if dis:
            out["disagreements"].append({"case": c, "why": str(dis)})
        # --- direct oracle (laws) on the real result
        v = law_violation(c, st, res, before, after)
        if v:
            out["violations"].append({"signature": "C09:" + v, "detail": v, "replay": {"case": c}})
        if len(out["samples"]) < 2:
            out["samples"].append({"case": c, "real": st if st == "err" else "value", "model": "err" if "err" in ans else "value"})
    return out

"""Direct oracles on real systems (the failing-input search of the system-level properties).
Each oracle: (spec, status, observations, RealSystem, rng) -> (violations, number of evaluations).
Expected values are computed exactly (Fractions) from the spec's inputs, independently of the
Lean model, and compared with the real objects within 1e-9 relative."""
import math
from fractions import Fraction

from harness.common import frac
from harness import realsys

REL = 1e-9


def qphys(q):
    scale, _ = realsys.unit_info(q["u"])
    return frac(q["m"]) * scale


def hours(q):
    return qphys(q) / 3600


def series_phys(c):
    """canonical hourly value → {key: Fraction phys}; Empty → {}"""
    if c is None:
        return {}
    if c["t"] != "h":
        raise ValueError("hourly expected")
    return {k: frac(v) * c["scale"] for k, v in zip(c["ks"], c["vs"])}


def scalar_phys(c):
    if c is None:
        return Fraction(0)
    return frac(c["m"]) * c["scale"]


def close(a, b, ref=0.0, rel=REL):
    a, b = float(a), float(b)
    if not (math.isfinite(a) and math.isfinite(b)):
        return False
    return abs(a - b) <= rel * max(abs(a), abs(b), ref)


def series_close(got, exp, rel=REL):
    """None if equal as sparse series (missing = 0), else a description"""
    ref = max([abs(float(v)) for v in exp.values()] + [abs(float(v)) for v in got.values()] + [0.0]) * 1e-3
    for k in set(got) | set(exp):
        if not close(got.get(k, 0), exp.get(k, 0), ref, rel):
            return f"hour {k}: got {float(got.get(k, 0))!r} expected {float(exp.get(k, 0))!r}"
    return None


def shift(s, h):
    return {k + 3600 * h: v for k, v in s.items()}


def add(a, b):
    out = dict(a)
    for k, v in b.items():
        out[k] = out.get(k, 0) + v
    return out


def scale(s, c):
    return {k: v * c for k, v in s.items()}


def total(s):
    return sum(s.values(), Fraction(0))


def viol(prop, what, detail):
    return {"signature": f"{prop}:{what}", "detail": detail}


# ---------------------------------------------------------------------------------------------
# C03 — conservation from journey starts to job load
# ---------------------------------------------------------------------------------------------
def avg_occ(s, dh):
    n = math.floor(dh)
    rest = dh - n
    out = {}
    for k in range(n):
        out = add(out, shift(s, k))
    if rest > 0:
        out = add(out, scale(shift(s, n), rest))
    return out


def conservation(spec, st, obs, rs, rng):
    if st != "ok":
        return [], 0
    vs, ev = [], 0
    for pn, p in spec["patterns"].items():
        if pn not in spec["system"]["usage_patterns"]:
            continue
        uj = spec["journeys"][p["usage_journey"]]
        steps = [spec["steps"][s] for s in uj["uj_steps"]]
        utc = series_phys(obs[(pn, "utc_hourly_usage_journey_starts", "")])
        local = p["hourly_usage_journey_starts"]
        ev += 1
        if not close(total(utc), sum((frac(v) for v in local["values"]), Fraction(0))):
            vs.append(viol("C03", "utc-total", f"{pn}: UTC starts total differs from local total"))
        # journeys in parallel = starts × journey duration
        dur_h = sum((hours(s["user_time_spent"]) for s in steps), Fraction(0))
        par = series_phys(obs[(pn, "nb_usage_journeys_in_parallel", "")])
        ev += 1
        why = series_close(par, avg_occ(utc, dur_h))
        if why:
            vs.append(viol("C03", "journeys-in-parallel", f"{pn}: {why}"))
        if not close(total(par), total(utc) * dur_h):
            vs.append(viol("C03", "journeys-in-parallel-total", f"{pn}: total {float(total(par))} vs starts×duration {float(total(utc) * dur_h)}"))
        # device energy = journeys in parallel × Σ power × 1 h
        pw = sum((qphys(spec["devices"][d]["power"]) for d in p["devices"]), Fraction(0))
        de = series_phys(obs[(pn, "devices_energy", "")])
        ev += 1
        if not close(total(de), total(par) * pw * 3600):
            vs.append(viol("C03", "devices-energy", f"{pn}: devices energy total {float(total(de))} vs {float(total(par) * pw * 3600)}"))
        # jobs
        delays_of = {}
        prefix = Fraction(0)
        for s in steps:
            for jn in s["jobs"]:
                delays_of.setdefault(jn, []).append(math.floor(prefix))
            prefix += hours(s["user_time_spent"])
        for jn, delays in delays_of.items():
            job = spec["jobs"][jn]
            occ = series_phys(obs.get((jn, "hourly_occurrences_per_usage_pattern", pn)))
            exp = {}
            for d in delays:
                exp = add(exp, shift(utc, d))
            ev += 1
            why = series_close(occ, exp)
            if why:
                vs.append(viol("C03", "occurrences-placement", f"{jn} in {pn}: {why}"))
            if not close(total(occ), total(utc) * len(delays)):
                vs.append(viol("C03", "occurrences-total", f"{jn} in {pn}: {float(total(occ))} vs starts×multiplicity {float(total(utc) * len(delays))}"))
            rd = hours(job["request_duration"])
            dfh = math.ceil(rd)
            for attr, key in (("data_transferred", "hourly_data_transferred_per_usage_pattern"),
                              ("data_stored", "hourly_data_stored_per_usage_pattern")):
                amount = qphys(job[attr])
                got = series_phys(obs.get((jn, key, pn)))
                expd = {}
                for k in range(dfh):
                    expd = add(expd, scale(shift(occ, k), amount / dfh))
                ev += 1
                why = series_close(got, expd)
                if why:
                    vs.append(viol("C03", attr + "-placement", f"{jn} in {pn}: {why}"))
                if not close(total(got), total(occ) * amount, abs(float(total(occ) * amount)) * 1e-3 + 1e-300):
                    vs.append(viol("C03", attr + "-total", f"{jn} in {pn}: {float(total(got))} vs occurrences×amount {float(total(occ) * amount)}"))
            avg = series_phys(obs.get((jn, "hourly_avg_occurrences_per_usage_pattern", pn)))
            ev += 1
            why = series_close(avg, avg_occ(occ, rd))
            if why:
                vs.append(viol("C03", "avg-occurrences", f"{jn} in {pn}: {why}"))
            if not close(total(avg), total(occ) * rd):
                vs.append(viol("C03", "avg-occurrences-total", f"{jn} in {pn}: occurrence-hours {float(total(avg))} vs occurrences×duration {float(total(occ) * rd)}"))
    return vs, ev

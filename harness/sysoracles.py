"""Direct oracles on real systems (the failing-input search of the system-level properties).
Each oracle: (spec, status, observations, RealSystem, rng) -> (violations, number of evaluations).
Expected values are computed exactly (Fractions) from the spec's inputs, independently of the
Lean model, and compared with the real objects within 1e-9 relative."""
import math
from fractions import Fraction

from harness.common import frac
from harness import realsys

REL = 1e-9


def qphys(q):
    scale, _ = realsys.unit_info(q["u"])
    return frac(q["m"]) * scale


def hours(q):
    return qphys(q) / 3600


def series_phys(c):
    """canonical hourly value → {key: Fraction phys}; Empty → {}"""
    if c is None:
        return {}
    if c["t"] != "h":
        raise ValueError("hourly expected")
    return {k: frac(v) * c["scale"] for k, v in zip(c["ks"], c["vs"])}


def scalar_phys(c):
    if c is None:
        return Fraction(0)
    return frac(c["m"]) * c["scale"]


def close(a, b, ref=0.0, rel=REL):
    a, b = float(a), float(b)
    if not (math.isfinite(a) and math.isfinite(b)):
        return False
    return abs(a - b) <= rel * max(abs(a), abs(b), ref)


def series_close(got, exp, rel=REL):
    """None if equal as sparse series (missing = 0), else a description"""
    ref = max([abs(float(v)) for v in exp.values()] + [abs(float(v)) for v in got.values()] + [0.0]) * 1e-3
    for k in set(got) | set(exp):
        if not close(got.get(k, 0), exp.get(k, 0), ref, rel):
            return f"hour {k}: got {float(got.get(k, 0))!r} expected {float(exp.get(k, 0))!r}"
    return None


def shift(s, h):
    return {k + 3600 * h: v for k, v in s.items()}


def add(a, b):
    out = dict(a)
    for k, v in b.items():
        out[k] = out.get(k, 0) + v
    return out


def scale(s, c):
    return {k: v * c for k, v in s.items()}


def total(s):
    return sum(s.values(), Fraction(0))


def viol(prop, what, detail):
    return {"signature": f"{prop}:{what}", "detail": detail}


# ---------------------------------------------------------------------------------------------
# C03 — conservation from journey starts to job load
# ---------------------------------------------------------------------------------------------
def avg_occ(s, dh):
    n = math.floor(dh)
    rest = dh - n
    out = {}
    for k in range(n):
        out = add(out, shift(s, k))
    if rest > 0:
        out = add(out, scale(shift(s, n), rest))
    return out


def conservation(spec, st, obs, rs, rng):
    if st != "ok":
        return [], 0
    vs, ev = [], 0
    for pn, p in spec["patterns"].items():
        if pn not in spec["system"]["usage_patterns"]:
            continue
        uj = spec["journeys"][p["usage_journey"]]
        steps = [spec["steps"][s] for s in uj["uj_steps"]]
        utc = series_phys(obs[(pn, "utc_hourly_usage_journey_starts", "")])
        local = p["hourly_usage_journey_starts"]
        ev += 1
        if not close(total(utc), sum((frac(v) for v in local["values"]), Fraction(0))):
            vs.append(viol("C03", "utc-total", f"{pn}: UTC starts total differs from local total"))
        # journeys in parallel = starts × journey duration
        dur_h = sum((hours(s["user_time_spent"]) for s in steps), Fraction(0))
        par = series_phys(obs[(pn, "nb_usage_journeys_in_parallel", "")])
        ev += 1
        why = series_close(par, avg_occ(utc, dur_h))
        if why:
            vs.append(viol("C03", "journeys-in-parallel", f"{pn}: {why}"))
        if not close(total(par), total(utc) * dur_h):
            vs.append(viol("C03", "journeys-in-parallel-total", f"{pn}: total {float(total(par))} vs starts×duration {float(total(utc) * dur_h)}"))
        # device energy = journeys in parallel × Σ power × 1 h
        pw = sum((qphys(spec["devices"][d]["power"]) for d in p["devices"]), Fraction(0))
        de = series_phys(obs[(pn, "devices_energy", "")])
        ev += 1
        if not close(total(de), total(par) * pw * 3600):
            vs.append(viol("C03", "devices-energy", f"{pn}: devices energy total {float(total(de))} vs {float(total(par) * pw * 3600)}"))
        # jobs
        delays_of = {}
        prefix = Fraction(0)
        for s in steps:
            for jn in s["jobs"]:
                delays_of.setdefault(jn, []).append(math.floor(prefix))
            prefix += hours(s["user_time_spent"])
        for jn, delays in delays_of.items():
            job = spec["jobs"][jn]
            occ = series_phys(obs.get((jn, "hourly_occurrences_per_usage_pattern", pn)))
            exp = {}
            for d in delays:
                exp = add(exp, shift(utc, d))
            ev += 1
            why = series_close(occ, exp)
            if why:
                vs.append(viol("C03", "occurrences-placement", f"{jn} in {pn}: {why}"))
            if not close(total(occ), total(utc) * len(delays)):
                vs.append(viol("C03", "occurrences-total", f"{jn} in {pn}: {float(total(occ))} vs starts×multiplicity {float(total(utc) * len(delays))}"))
            rd = hours(job["request_duration"])
            dfh = math.ceil(rd)
            for attr, key in (("data_transferred", "hourly_data_transferred_per_usage_pattern"),
                              ("data_stored", "hourly_data_stored_per_usage_pattern")):
                amount = qphys(job[attr])
                got = series_phys(obs.get((jn, key, pn)))
                expd = {}
                for k in range(dfh):
                    expd = add(expd, scale(shift(occ, k), amount / dfh))
                ev += 1
                why = series_close(got, expd)
                if why:
                    vs.append(viol("C03", attr + "-placement", f"{jn} in {pn}: {why}"))
                if not close(total(got), total(occ) * amount, abs(float(total(occ) * amount)) * 1e-3 + 1e-300):
                    vs.append(viol("C03", attr + "-total", f"{jn} in {pn}: {float(total(got))} vs occurrences×amount {float(total(occ) * amount)}"))
            avg = series_phys(obs.get((jn, "hourly_avg_occurrences_per_usage_pattern", pn)))
            ev += 1
            why = series_close(avg, avg_occ(occ, rd))
            if why:
                vs.append(viol("C03", "avg-occurrences", f"{jn} in {pn}: {why}"))
            if not close(total(avg), total(occ) * rd):
                vs.append(viol("C03", "avg-occurrences-total", f"{jn} in {pn}: occurrence-hours {float(total(avg))} vs occurrences×duration {float(total(occ) * rd)}"))
    return vs, ev


# ---------------------------------------------------------------------------------------------
# helpers over the real system
# ---------------------------------------------------------------------------------------------
def reachable(spec):
    """names of servers / storages / networks reachable from the system's usage patterns"""
    servers, storages, networks = [], [], []
    for pn in spec["system"]["usage_patterns"]:
        p = spec["patterns"][pn]
        if p["network"] not in networks:
            networks.append(p["network"])
        for s in spec["journeys"][p["usage_journey"]]["uj_steps"]:
            for j in spec["steps"][s]["jobs"]:
                sv = spec["jobs"][j]["server"]
                if sv not in servers:
                    servers.append(sv)
                    if spec["servers"][sv]["storage"] not in storages:
                        storages.append(spec["servers"][sv]["storage"])
    return servers, storages, networks


def has_deletion(spec):
    return any(j["data_stored"]["m"] < 0 for j in spec["jobs"].values())


def all_finite(obs):
    return all(realsys.finite(v) for v in obs.values())


# ---------------------------------------------------------------------------------------------
# C02 — the system footprint accounts for every component exactly once
# ---------------------------------------------------------------------------------------------
def accounting(spec, st, obs, rs, rng):
    if st != "ok":
        return [], 0
    vs, ev = [], 0
    servers, storages, networks = reachable(spec)
    pats = spec["system"]["usage_patterns"]
    parts = {}
    for n in servers + storages:
        parts[(n, "fab")] = series_phys(obs[(n, "instances_fabrication_footprint", "")])
        parts[(n, "energy")] = series_phys(obs[(n, "energy_footprint", "")])
    for n in networks:
        parts[(n, "energy")] = series_phys(obs[(n, "energy_footprint", "")])
    for n in pats:
        parts[(n, "fab")] = series_phys(obs[(n, "instances_fabrication_footprint", "")])
        parts[(n, "energy")] = series_phys(obs[(n, "energy_footprint", "")])
    exp = {}
    for s in parts.values():
        exp = add(exp, s)
    tot = series_phys(obs[("__system__", "total_footprint", "")])
    ev += 1
    for k in set(tot) | set(exp):
        a, b = float(tot.get(k, 0)), float(exp.get(k, 0))
        if abs(a - b) > 5.0001e-5 + 1e-9 * abs(b):
            vs.append(viol("C02", "total-vs-parts", f"hour {k}: total {a!r} vs sum of parts {b!r}"))
            break
    # the views
    sysobj = rs.system
    inv = {o.id: n for n, o in rs.objs.items()}
    try:
        fab = sysobj.fabrication_footprints
        en = sysobj.energy_footprints
        tfab = sysobj.total_fabrication_footprints
        ten = sysobj.total_energy_footprints
        fab_sum = sysobj.fabrication_footprint_sum_over_period
        en_sum = sysobj.energy_footprint_sum_over_period
        tfab_sum = sysobj.total_fabrication_footprint_sum_over_period
        ten_sum = sysobj.total_energy_footprint_sum_over_period
    except Exception as e:  # noqa
        return vs + [viol("C02", "views-raise", f"{type(e).__name__}: {e}")], ev
    cats = {"Servers": servers, "Storage": storages, "Network": networks, "Devices": pats}
    for kind, per_obj, per_cat, per_obj_sum, per_cat_sum in (("fab", fab, tfab, fab_sum, tfab_sum),
                                                             ("energy", en, ten, en_sum, ten_sum)):
        for cat, names in cats.items():
            ev += 1
            listed = {inv.get(k, k): realsys.canon(v) for k, v in per_obj[cat].items()}
            want = set(names) if not (kind == "fab" and cat == "Network") else {"networks"}
            if set(listed) != want:
                vs.append(viol("C02", f"view-objects-{kind}-{cat}", f"listed {sorted(listed)} expected {sorted(want)}"))
                continue
            cat_exp = {}
            for n in names:
                if (n, kind) in parts:
                    cat_exp = add(cat_exp, parts[(n, kind)])
                    why = series_close(series_phys(listed[n]), parts[(n, kind)])
                    if why:
                        vs.append(viol("C02", f"view-per-object-{kind}", f"{cat}/{n}: {why}"))
                    got_sum = scalar_phys(realsys.canon(per_obj_sum[cat][rs.objs[n].id]))
                    if not close(got_sum, total(parts[(n, kind)]), 1e-300):
                        vs.append(viol("C02", f"view-sum-over-period-{kind}", f"{cat}/{n}: {float(got_sum)} vs {float(total(parts[(n, kind)]))}"))
            why = series_close(series_phys(realsys.canon(per_cat[cat])), cat_exp)
            if why:
                vs.append(viol("C02", f"view-per-category-{kind}", f"{cat}: {why}"))
            got = scalar_phys(realsys.canon(per_cat_sum[cat]))
            if not close(got, total(cat_exp), 1e-300):
                vs.append(viol("C02", f"view-category-sum-{kind}", f"{cat}: {float(got)} vs {float(total(cat_exp))}"))
    # finiteness and sign
    ev += 1
    if not all_finite(obs):
        vs.append(viol("C02", "non-finite", "a calculated attribute contains NaN or inf"))
    if not has_deletion(spec):
        for (n, kind), s in parts.items():
            if any(float(v) < -1e-12 for v in s.values()):
                vs.append(viol("C02", "negative-footprint", f"{n} {kind} has a negative value without any deleting job"))
                break
    # energy footprint = energy × carbon intensity that applies
    for n in servers:
        ev += 1
        ci = qphys(spec["servers"][n]["average_carbon_intensity"])
        why = series_close(parts[(n, "energy")], scale(series_phys(obs[(n, "instances_energy", "")]), ci))
        if why:
            vs.append(viol("C02", "server-energy-footprint", f"{n}: {why}"))
    for n in storages:
        ev += 1
        sv = [s for s, o in spec["servers"].items() if o["storage"] == n][0]
        ci = qphys(spec["servers"][sv]["average_carbon_intensity"])
        why = series_close(parts[(n, "energy")], scale(series_phys(obs[(n, "instances_energy", "")]), ci))
        if why:
            vs.append(viol("C02", "storage-energy-footprint", f"{n}: {why}"))
    for n in pats:
        ev += 1
        ci = qphys(spec["countries"][spec["patterns"][n]["country"]]["average_carbon_intensity"])
        why = series_close(parts[(n, "energy")], scale(series_phys(obs[(n, "devices_energy", "")]), ci))
        if why:
            vs.append(viol("C02", "devices-energy-footprint", f"{n}: {why}"))
    for n in networks:
        ev += 1
        bei = qphys(spec["networks"][n]["bandwidth_energy_intensity"])
        expn = {}
        for pn, p in spec["patterns"].items():
            if p["network"] != n:
                continue
            ci = qphys(spec["countries"][p["country"]]["average_carbon_intensity"])
            seen = set()
            for s in spec["journeys"][p["usage_journey"]]["uj_steps"]:
                for j in spec["steps"][s]["jobs"]:
                    if j in seen:
                        continue
                    seen.add(j)
                    expn = add(expn, scale(series_phys(obs.get((j, "hourly_data_transferred_per_usage_pattern", pn))), bei * ci))
        why = series_close(parts[(n, "energy")], expn)
        if why:
            vs.append(viol("C02", "network-energy-footprint", f"{n}: {why}"))
    return vs, ev


# ---------------------------------------------------------------------------------------------
# C04 — infrastructure is sized to cover the need
# ---------------------------------------------------------------------------------------------
def near_int(x, rel=1e-9):
    return abs(x - round(x)) <= rel * max(1.0, abs(x))


def sizing_after_type_change(spec, st, obs, rs, rng):
    """the sizing rule of the *current* server type holds after the type of a server is changed in place"""
    if st != "ok":
        return [], 0
    from harness.history import Live
    servers, _, _ = reachable(spec)
    cands = [n for n in servers if spec["servers"][n].get("fixed_nb_of_instances") is None]
    if not cands:
        return [], 0
    try:
        live = Live(spec)
    except Exception:  # noqa
        return [], 0
    vs, ev = [], 0
    n = rng.choice(cands)
    walk = []
    for _ in range(rng.choice([1, 2, 2, 3])):
        cur = live.spec["servers"][n]["server_type"]
        new = rng.choice([t for t in ("autoscaling", "on-premise", "serverless") if t != cur])
        op = {"op": "settype", "kind": "servers", "name": n, "value": new}
        if live.apply(op)[0] != "ok":
            break
        walk.append(new)
        obs2 = live.rs.observe()
        vs2, e2 = sizing(live.spec, "ok", obs2, live.rs, rng)
        ev += e2
        for v in vs2:
            v["signature"] += ":after-type-change"
            v["detail"] = f"after changing the type of {n} in place ({spec['servers'][n]['server_type']} -> {' -> '.join(walk)}): " + v["detail"]
            v.setdefault("replay", {})["type_walk"] = [n] + walk
        vs += vs2
        if vs2:
            break
    return vs, ev


def sizing(spec, st, obs, rs, rng):
    vs, ev = [], 1
    if st == "err":
        if obs == "neg-storage" and not has_deletion(spec):
            vs.append(viol("C04", "neg-storage-without-deletion", "a model in which no job deletes data is rejected for negative cumulative storage"))
        if obs == "shape":
            vs.append(viol("C04", "positional-combination", "jobs active over different time windows are combined by position (numpy broadcast error)"))
        return vs, ev
    servers, storages, _ = reachable(spec)
    for n in servers:
        sv = spec["servers"][n]
        raw = series_phys(obs[(n, "raw_nb_of_instances", "")])
        nb = series_phys(obs[(n, "nb_of_instances", "")])
        ev += 1
        if set(raw) != set(nb):
            vs.append(viol("C04", "server-index", f"{n}: instance count and raw need have different hours"))
            continue
        if not raw:
            continue
        rawf = {k: float(v) for k, v in raw.items()}
        nbf = {k: float(v) for k, v in nb.items()}
        if sv["server_type"] == "serverless":
            if any(not close(nbf[k], rawf[k], 1e-300) for k in raw):
                vs.append(viol("C04", "serverless-not-raw", f"{n}: serverless instance count differs from the raw need"))
        elif sv["server_type"] == "autoscaling":
            for k in raw:
                if near_int(rawf[k]):
                    continue
                if nbf[k] != math.ceil(rawf[k]):
                    vs.append(viol("C04", "autoscaling-not-ceil", f"{n} hour {k}: {nbf[k]} instances for a raw need of {rawf[k]}"))
                    break
        else:
            vals = set(nbf.values())
            mx = max(rawf.values())
            if len(vals) != 1:
                vs.append(viol("C04", "on-premise-not-constant", f"{n}: on-premise instance count varies"))
            else:
                c = vals.pop()
                fixed = sv.get("fixed_nb_of_instances")
                if fixed is not None:
                    if not close(c, float(qphys(fixed)), 1e-300):
                        vs.append(viol("C04", "fixed-not-honoured", f"{n}: {c} instances but {float(qphys(fixed))} were fixed"))
                    if c < math.ceil(mx) and not near_int(mx):
                        vs.append(viol("C04", "fixed-under-provisions", f"{n}: fixed {c} < need {mx}"))
                elif not near_int(mx) and c != math.ceil(mx):
                    vs.append(viol("C04", "on-premise-not-ceil-of-peak", f"{n}: {c} instances for a peak raw need of {mx}"))
        if any(nbf[k] < rawf[k] - 1e-9 * max(1.0, abs(rawf[k])) for k in raw):
            vs.append(viol("C04", "server-under-provisioned", f"{n}: instance count below the raw need"))
        # the raw need itself: max of RAM-based and CPU-based need
        ram_need = series_phys(obs[(n, "hour_by_hour_ram_need", "")])
        cpu_need = series_phys(obs[(n, "hour_by_hour_compute_need", "")])
        ar = scalar_phys(obs[(n, "available_ram_per_instance", "")])
        ac = scalar_phys(obs[(n, "available_compute_per_instance", "")])
        if ar > 0 and ac > 0:
            expraw = {k: max(ram_need.get(k, 0) / ar, cpu_need.get(k, 0) / ac) for k in set(ram_need) | set(cpu_need)}
            why = series_close(raw, expraw)
            if why:
                vs.append(viol("C04", "server-raw-need", f"{n}: {why}"))
    for n in storages:
        sto = spec["storages"][n]
        ev += 1
        cap = qphys(sto["storage_capacity"])
        repl = qphys(sto["data_replication_factor"])
        base = qphys(sto["base_storage_need"])
        svs = [s for s, o in spec["servers"].items() if o["storage"] == n]
        jobs = [j for j, o in spec["jobs"].items() if o["server"] in svs]
        needed, freed = {}, {}
        for j in jobs:
            ds = series_phys(obs.get((j, "hourly_data_stored_across_usage_patterns", "")))
            if spec["jobs"][j]["data_stored"]["m"] >= 0:
                needed = add(needed, scale(ds, repl))
            else:
                freed = add(freed, scale(ds, repl))
        cum = series_phys(obs[(n, "full_cumulative_storage_need", "")])
        nb = series_phys(obs[(n, "nb_of_instances", "")])
        act = series_phys(obs[(n, "nb_of_active_instances", "")])
        if not needed and not freed:
            continue
        dumps = {}
        if needed:
            dh = math.ceil(hours(sto["data_storage_duration"]))
            last = max(needed)
            dumps = {k: -v for k, v in shift(needed, dh).items() if k <= last}
        delta = add(add(needed, freed), dumps)
        # cumulative need at hour k = initial need + running sum of the delta up to k (the real series may
        # carry extra hours at which nothing changes)
        expc = {}
        dk = sorted(delta)
        for k in sorted(set(cum) | set(delta)):
            expc[k] = base + sum((delta[s] for s in dk if s <= k), Fraction(0))
        ref = max([abs(float(v)) for v in expc.values()] + [float(base), 0.0])
        bad = [k for k in expc if k not in cum or abs(float(cum[k]) - float(expc[k])) > 1e-9 * ref + 1e-300]
        if bad:
            k = sorted(bad)[0]
            vs.append(viol("C04", "storage-cumulative-formula", f"{n} hour {k}: cumulative {float(cum.get(k, 0))!r} expected {float(expc.get(k, 0))!r}"))
        if any(float(v) < -1e-9 * ref for v in cum.values()):
            vs.append(viol("C04", "storage-cumulative-negative", f"{n}: negative cumulative need accepted"))
        for k in cum:
            if float(nb.get(k, 0)) * float(cap) < float(cum[k]) - 1e-9 * max(ref, float(cap)):
                vs.append(viol("C04", "storage-under-provisioned", f"{n} hour {k}: {float(nb.get(k, 0))} instances × capacity < cumulative need {float(cum[k])}"))
                break
        fixed = sto.get("fixed_nb_of_instances")
        if fixed is not None and any(not close(v, qphys(fixed), 1e-300) for v in nb.values()):
            vs.append(viol("C04", "storage-fixed-not-honoured", f"{n}: instance count differs from the fixed count"))
        if fixed is None:
            for k in cum:
                r = float(cum[k]) / float(cap)
                if not near_int(r) and float(nb.get(k, 0)) != math.ceil(r):
                    vs.append(viol("C04", "storage-not-ceil", f"{n} hour {k}: {float(nb.get(k, 0))} instances for a raw need of {r}"))
                    break
        for k in act:
            if float(act[k]) > float(nb.get(k, 0)) + 1e-9 * max(1.0, float(nb.get(k, 0))):
                vs.append(viol("C04", "active-exceeds-provisioned", f"{n} hour {k}: {float(act[k])} active > {float(nb.get(k, 0))} provisioned"))
                break
    return vs, ev


# ---------------------------------------------------------------------------------------------
# comparing two builds physically
# ---------------------------------------------------------------------------------------------
def obs_diff(a, b, rel=REL, scale_of=None, skip_near_int_of=None):
    """first difference between two observation dicts compared physically (None = equal).
    scale_of: optional {(obj, attr): expected ratio b/a}"""
    for key in sorted(set(a) | set(b)):
        if key not in a or key not in b:
            return f"{key}: present in one build only"
        x, y = a[key], b[key]
        k = (scale_of or {}).get((key[0], key[1]), 1)
        if x is None or y is None:
            if x is None and y is None:
                continue
            return f"{key}: empty in one build only"
        if x["t"] != y["t"]:
            return f"{key}: kind {x['t']} vs {y['t']}"
        if x["t"] not in ("q", "h"):
            if x.get("repr") != y.get("repr"):
                return f"{key}: {str(x.get('repr'))[:60]} vs {str(y.get('repr'))[:60]}"
            continue
        if tuple(x["dim"]) != tuple(y["dim"]):
            return f"{key}: dimension {x['dim']} vs {y['dim']}"
        if x["t"] == "q":
            if not close(scalar_phys(x) * k, scalar_phys(y), 1e-300, rel):
                return f"{key}: {float(scalar_phys(x) * k)!r} vs {float(scalar_phys(y))!r}"
        else:
            why = series_close(scale(series_phys(x), k), series_phys(y), rel)
            if why:
                return f"{key}: {why}"
    return None


def ceil_sensitive(spec, obs):
    """objects whose instance count sits on a ceil discontinuity in this build (raw need within 1e-9 of an integer)"""
    out = set()
    for (o, a, k), v in obs.items():
        if a == "raw_nb_of_instances" and v is not None and v["t"] == "h":
            if any(near_int(float(x) * float(v["scale"])) and float(x) != 0 for x in v["vs"]):
                out.add(o)
    return out


def drop_objects(obs, names):
    return {k: v for k, v in obs.items() if k[0] not in names}


# ---------------------------------------------------------------------------------------------
# C10 — results do not depend on the units inputs are expressed in
# ---------------------------------------------------------------------------------------------
def unit_independence(spec, st, obs, rs, rng):
    from harness import specgen, kcalc
    spec2 = specgen.reexpress(spec, rng, realsys.unit_info)
    if not specgen.spec_is_safe(spec2, realsys.unit_info):
        return [], 0
    st2, obs2, _ = kcalc.real_outcome(spec2)
    if st != st2:
        if "neg-storage" in (obs if st == "err" else "", obs2 if st2 == "err" else ""):
            return [], 1       # sign test on a float-cancelled zero (D4), judged under C04
        return [viol("C10", "outcome-differs", f"original build: {st} {obs if st == 'err' else ''}; re-expressed build: {st2} {obs2 if st2 == 'err' else ''}")], 1
    if st == "err":
        return ([] if obs == obs2 else [viol("C10", "error-differs", f"{obs} vs {obs2}")]), 1
    sens = ceil_sensitive(spec, obs) | ceil_sensitive(spec2, obs2)
    if sens:
        sens |= {"__system__"}
    why = obs_diff(drop_objects(obs, sens), drop_objects(obs2, sens))
    if why:
        return [viol("C10", "value-depends-on-unit:" + why.split(":")[0].split(",")[1].strip(" '\""), why)], 1
    return [], 1


def whole_hours_in_days(spec, st, obs, rs, rng):
    """a duration that is a whole number of hours gives the same results written in hours or in days (12 h = 0.5 day,
    24 h = 1 day, 48 h = 2 day: exact in binary floating point, so no rounding excuse at the ceiling)"""
    import copy
    from harness import kcalc
    if st != "ok":
        return [], 0
    servers, _, _ = reachable(spec)
    jobs = sorted(j for j, o in spec["jobs"].items() if o["server"] in servers and o["data_stored"]["m"] >= 0)
    if not jobs:
        return [], 0
    j = rng.choice(jobs)
    h = rng.choice([12, 24, 48])
    sp_h, sp_d = copy.deepcopy(spec), copy.deepcopy(spec)
    sp_h["jobs"][j]["request_duration"] = {"m": float(h), "u": "hour"}
    sp_d["jobs"][j]["request_duration"] = {"m": h / 24, "u": "day"}
    st1, o1, _ = kcalc.real_outcome(sp_h)
    st2, o2, _ = kcalc.real_outcome(sp_d)
    if st1 != "ok" or st2 != "ok":
        if st1 != st2 and "neg-storage" not in (o1 if st1 == "err" else "", o2 if st2 == "err" else ""):
            return [viol("C10", "outcome-differs:request_duration-in-days", f"{j}.request_duration {h} hour: {st1} {o1 if st1 == 'err' else ''}; {h / 24} day: {st2} {o2 if st2 == 'err' else ''}")], 1
        return [], 1
    sens = ceil_sensitive(sp_h, o1) | ceil_sensitive(sp_d, o2)
    if sens:
        sens |= {"__system__"}
    why = obs_diff(drop_objects(o1, sens), drop_objects(o2, sens))
    if why:
        return [viol("C10", "value-depends-on-unit:request_duration-in-days", f"{j}.request_duration written {h} hour or {h / 24} day: {why}")], 1
    return [], 1


def unit_of_an_edit(spec, st, obs, rs, rng):
    """an input edited in place to the same *number* in another unit (150 MB -> 150 kB) is an edit like any other:
    the live model then equals the model built with the new value; and edited to the same *quantity* written in
    another unit it keeps every result"""
    import copy
    from harness import specgen, kcalc, history
    if st != "ok" or rs is None or history.has_shared_job(spec):
        return [], 0
    servers, storages, networks = reachable(spec)
    names = set(servers) | set(storages) | set(networks)
    for pn in spec["system"]["usage_patterns"]:
        p = spec["patterns"][pn]
        names |= set(p["devices"]) | {p["country"]}
        for s_ in spec["journeys"][p["usage_journey"]]["uj_steps"]:
            names |= set(spec["steps"][s_]["jobs"])
    cands = []
    for kind in ("jobs", "servers", "storages", "networks", "devices", "countries"):
        for n, o in spec[kind].items():
            if n not in names:
                continue
            for prm, v in o.items():
                if isinstance(v, dict) and "m" in v and (kind, prm) in specgen.PARAM_FAMILY and prm not in (
                        "fixed_nb_of_instances", "request_duration", "data_storage_duration", "user_time_spent"):
                    fam, _ = specgen.PARAM_FAMILY[(kind, prm)]
                    alts = [a for a in specgen.ALT_UNITS.get(fam, []) if a != v["u"] and realsys.unit_info(a)[0] != realsys.unit_info(v["u"])[0]]
                    if alts and v["m"] != 0:
                        cands.append((kind, n, prm, alts))
    vs, ev = [], 0
    for kind, n, prm, alts in (rng.sample(cands, min(2, len(cands))) if cands else []):
        old_q = spec[kind][n][prm]
        new_q = {"m": old_q["m"], "u": rng.choice(alts)}
        spec2 = copy.deepcopy(spec)
        spec2[kind][n][prm] = new_q
        st2, obs2, _ = kcalc.real_outcome(spec2)
        if st2 != "ok":
            continue
        ev += 1
        try:
            setattr(rs.objs[n], prm, realsys.mkq(new_q))
            live_obs = {key: v for key, v in rs.observe().items() if key in obs2}
            sens = ceil_sensitive(spec2, obs2) | ceil_sensitive(spec2, live_obs)
            if sens:
                sens |= {"__system__"}
            why = obs_diff(drop_objects(live_obs, sens), drop_objects(obs2, sens))
            setattr(rs.objs[n], prm, realsys.mkq(old_q))
            back = {key: v for key, v in rs.observe().items() if key in obs}
            sens = ceil_sensitive(spec, obs) | ceil_sensitive(spec, back)
            if sens:
                sens |= {"__system__"}
            why_back = obs_diff(drop_objects(back, sens), drop_objects(obs, sens))
        except Exception as e:  # noqa
            # a refused edit (capacity …) leaves the live model in the state of finding D10: stop here
            break
        if why:
            vs.append(viol("C10", "edit-to-same-number-in-other-unit", f"{n}.{prm} edited from {old_q['m']} {old_q['u']} to {new_q['m']} {new_q['u']}: the live model differs from the model built with it: {why}"))
            break
        if why_back:
            vs.append(viol("C10", "edit-back-to-original-unit", f"{n}.{prm} {old_q['m']} {old_q['u']} -> {new_q['u']} -> back: {why_back}"))
            break
    # durations (they go through floor / ceil, hence another *quantity*, away from whole hours, written in another unit
    # than the one the object was built with): the live model equals the model built with it
    dur = [("storages", n, "data_storage_duration", (2.0, 30.0)) for n in sorted(storages)]
    dur += [("jobs", n, "request_duration", (0.2, 3.0)) for n in sorted(spec["jobs"]) if n in names]
    dur += [("steps", s_, "user_time_spent", (0.05, 2.5)) for pn in spec["system"]["usage_patterns"]
            for s_ in spec["journeys"][spec["patterns"][pn]["usage_journey"]]["uj_steps"]]
    for kind, n, prm, (lo, hi) in (rng.sample(dur, min(2, len(dur))) if dur and not vs else []):
        old_q = spec[kind][n][prm]
        new_q = None
        for _ in range(20):
            unit = rng.choice([a for a in ("min", "s", "day", "hour") if a != old_q["u"]])
            h_new = round(rng.uniform(lo, hi), 3) + 0.0137
            cand = {"m": round(h_new * 3600 / float(realsys.unit_info(unit)[0]), 6), "u": unit}
            spec2 = copy.deepcopy(spec)
            spec2[kind][n][prm] = cand
            if specgen.safe_duration(cand, realsys.unit_info) and specgen.spec_is_safe(spec2, realsys.unit_info):
                new_q = cand
                break
        if new_q is None:
            continue
        st2, obs2, _ = kcalc.real_outcome(spec2)
        if st2 != "ok":
            continue
        ev += 1
        try:
            setattr(rs.objs[n], prm, realsys.mkq(new_q))
            live_obs = {key: v for key, v in rs.observe().items() if key in obs2}
            sens = ceil_sensitive(spec2, obs2) | ceil_sensitive(spec2, live_obs)
            if sens:
                sens |= {"__system__"}
            why = obs_diff(drop_objects(live_obs, sens), drop_objects({key: v for key, v in obs2.items() if key in live_obs}, sens))
            setattr(rs.objs[n], prm, realsys.mkq(old_q))
            back = {key: v for key, v in rs.observe().items() if key in obs}
            sens = ceil_sensitive(spec, obs) | ceil_sensitive(spec, back)
            if sens:
                sens |= {"__system__"}
            why_back = obs_diff(drop_objects(back, sens), drop_objects({key: v for key, v in obs.items() if key in back}, sens))
        except Exception as e:  # noqa
            break
        if why:
            vs.append(viol("C10", f"edit-duration-in-other-unit:{prm}", f"{n}.{prm} edited from {old_q['m']} {old_q['u']} to {new_q['m']} {new_q['u']}: the live model differs from the model built with it: {why}"))
            break
        if why_back:
            vs.append(viol("C10", f"edit-duration-back:{prm}", f"{n}.{prm} {old_q['m']} {old_q['u']} -> {new_q['m']} {new_q['u']} -> back: {why_back}"))
            break
    return vs, ev


# ---------------------------------------------------------------------------------------------
# C12 — footprints respond to each driver in the documented proportion
# ---------------------------------------------------------------------------------------------
FOOT = ["instances_fabrication_footprint", "energy_footprint"]


def scaling(spec, st, obs, rs, rng):
    import copy
    from harness import kcalc
    if st != "ok":
        return [], 0

    def odiff(a, b, **kw):
        """obs_diff without the objects whose instance count sits on a ceil discontinuity in either build (a raw need within
        1e-9 of an integer — typically the float residue 1e-18 of a storage whose data has all expired: 0 or 1 instance
        from one build of the same inputs to the next), and then without the system totals they feed"""
        sens = ceil_sensitive(spec, a) | ceil_sensitive(spec, b)
        if sens:
            sens |= {"__system__"}
        return obs_diff(drop_objects(a, sens), drop_objects(b, sens), **kw)
    servers, storages, networks = reachable(spec)
    pats = spec["system"]["usage_patterns"]
    k = rng.choice([2.0, 3.0, 0.5, 1.7])
    kf = frac(k)
    drivers = []
    for sv in servers:
        sto = spec["servers"][sv]["storage"]
        drivers.append(("servers", sv, "power_usage_effectiveness", kf, {(sv, "instances_energy"): kf, (sv, "energy_footprint"): kf,
                                                                        (sto, "instances_energy"): kf, (sto, "energy_footprint"): kf}))
        drivers.append(("servers", sv, "average_carbon_intensity", kf, {(sv, "energy_footprint"): kf, (sto, "energy_footprint"): kf}))
        if spec["servers"][sv].get("cls", "Server") == "Server":
            drivers.append(("servers", sv, "carbon_footprint_fabrication", kf, {(sv, "instances_fabrication_footprint"): kf}))
        drivers.append(("servers", sv, "lifespan", kf, {(sv, "instances_fabrication_footprint"): 1 / kf}))
    for n in networks:
        drivers.append(("networks", n, "bandwidth_energy_intensity", kf, {(n, "energy_footprint"): kf}))
    for sto in storages:
        drivers.append(("storages", sto, "carbon_footprint_fabrication_per_storage_capacity", kf,
                        {(sto, "carbon_footprint_fabrication"): kf, (sto, "instances_fabrication_footprint"): kf}))
        drivers.append(("storages", sto, "lifespan", kf, {(sto, "instances_fabrication_footprint"): 1 / kf}))
    for pn in pats:
        p = spec["patterns"][pn]
        for d in p["devices"]:
            users = [q for q in pats if d in spec["patterns"][q]["devices"]]
            if len(p["devices"]) == 1 and all(len(spec["patterns"][q]["devices"]) == 1 for q in users):
                exp_e = {}
                exp_f = {}
                for q in users:
                    exp_e.update({(q, "devices_energy"): kf, (q, "devices_energy_footprint"): kf, (q, "energy_footprint"): kf})
                    exp_f.update({(q, "devices_fabrication_footprint"): kf, (q, "instances_fabrication_footprint"): kf})
                drivers.append(("devices", d, "power", kf, exp_e))
                drivers.append(("devices", d, "carbon_footprint_fabrication", kf, exp_f))
                drivers.append(("devices", d, "lifespan", kf, {a: 1 / kf for a in exp_f}))
                drivers.append(("devices", d, "fraction_of_usage_time", kf, {a: 1 / kf for a in exp_f}))
    # country carbon intensity drives the network footprint per pattern and the device energy footprint
    for cn in {spec["patterns"][pn]["country"] for pn in pats}:
        users = [q for q in pats if spec["patterns"][q]["country"] == cn]
        exp = {}
        for q in users:
            exp.update({(q, "devices_energy_footprint"): kf, (q, "energy_footprint"): kf})
        nets = {spec["patterns"][q]["network"] for q in users}
        ok_nets = [n for n in nets if all(spec["patterns"][q]["country"] == cn for q in spec["patterns"] if spec["patterns"][q]["network"] == n)]
        if len(ok_nets) == len(nets):
            for n in nets:
                exp[(n, "energy_footprint")] = kf
            drivers.append(("countries", cn, "average_carbon_intensity", kf, exp))
    # data transferred drives the network footprint
    for jn in spec["jobs"]:
        nets = set()
        others = False
        for pn in pats:
            p = spec["patterns"][pn]
            jobs_here = {j for s in spec["journeys"][p["usage_journey"]]["uj_steps"] for j in spec["steps"][s]["jobs"]}
            if jn in jobs_here:
                nets.add(p["network"])
        for n in nets:
            for pn in pats:
                p = spec["patterns"][pn]
                if p["network"] == n:
                    jobs_here = {j for s in spec["journeys"][p["usage_journey"]]["uj_steps"] for j in spec["steps"][s]["jobs"]}
                    if jobs_here - {jn}:
                        others = True
        if nets and not others:
            exp = {(n, "energy_footprint"): kf for n in nets}
            exp.update({(jn, "hourly_data_transferred_per_usage_pattern"): kf, (jn, "hourly_data_transferred_across_usage_patterns"): kf})
            drivers.append(("jobs", jn, "data_transferred", kf, exp))
    vs, ev = [], 0
    picks = rng.sample(drivers, min(3, len(drivers))) if drivers else []
    for kind, name, param, factor, expected in picks:
        spec2 = copy.deepcopy(spec)
        if param not in spec2[kind][name]:
            continue
        spec2[kind][name][param]["m"] = float(frac(spec2[kind][name][param]["m"]) * factor)
        st2, obs2, _ = kcalc.real_outcome(spec2)
        ev += 1
        if st2 != "ok":
            if obs2 != "neg-storage":      # D4 (float cancellation in the cumulative storage need) is C04's finding
                vs.append(viol("C12", f"scaled-build-fails:{param}", f"×{k} on {name}.{param}: {obs2}"))
            continue
        why = odiff(drop_objects(obs, {"__system__"}), drop_objects(obs2, {"__system__"}), scale_of=expected)
        if why:
            vs.append(viol("C12", f"{kind}.{param}", f"×{k} on {name}.{param}: {why}"))
    # the same multiplication made in place on the live model must give what a model built with the multiplied
    # driver gives (each driver of each object, also where proportionality is only partial: shared networks)
    from harness import history, realsys
    if rs is not None and not history.has_shared_job(spec):
        inplace = [("countries", cn, "average_carbon_intensity") for cn in sorted({spec["patterns"][pn]["country"] for pn in pats})]
        inplace += [(kind, name, param) for kind, name, param, _, _ in drivers]
        reach_names = None
        for kind, name, param in rng.sample(inplace, min(3, len(inplace))):
            if param not in spec[kind][name]:
                continue
            spec2 = copy.deepcopy(spec)
            spec2[kind][name][param]["m"] = float(frac(spec2[kind][name][param]["m"]) * kf)
            st2, obs2, _ = kcalc.real_outcome(spec2)
            if st2 != "ok":
                continue
            ev += 1
            old_q = spec[kind][name][param]
            try:
                setattr(rs.objs[name], param, realsys.mkq(spec2[kind][name][param]))
                live_obs = {key: v for key, v in rs.observe().items() if key in obs2}
                why = odiff(live_obs, obs2)
                setattr(rs.objs[name], param, realsys.mkq(old_q))
                back = {key: v for key, v in rs.observe().items() if key in obs}
                why_back = odiff(back, obs)
            except Exception as e:  # noqa
                vs.append(viol("C12", f"in-place-raises:{kind}.{param}", f"×{k} on {name}.{param}: {type(e).__name__}: {e}"))
                break
            if why:
                vs.append(viol("C12", f"in-place:{kind}.{param}", f"×{k} on {name}.{param} edited in place differs from the model built with it: {why}"))
            elif why_back:
                vs.append(viol("C12", f"in-place-undo:{kind}.{param}", f"×{k} then ÷{k} on {name}.{param}: {why_back}"))
    # a device among several in a usage pattern: the pattern's footprints move by exactly that device's share
    multi = [(pn, d) for pn in pats for d in sorted(set(spec["patterns"][pn]["devices"])) if len(spec["patterns"][pn]["devices"]) >= 2]
    for pn, d in (rng.sample(multi, min(2, len(multi))) if multi else []):
        param = rng.choice(["carbon_footprint_fabrication", "lifespan", "fraction_of_usage_time", "power"])
        spec2 = copy.deepcopy(spec)
        spec2["devices"][d][param]["m"] = float(frac(spec2["devices"][d][param]["m"]) * kf)
        st2, obs2, _ = kcalc.real_outcome(spec2)
        if st2 != "ok":
            continue
        ev += 1
        dv = spec["devices"][d]
        bad = None
        touched = set()
        for q in pats:
            m_q = spec["patterns"][q]["devices"].count(d)
            if not m_q:
                continue
            njp = series_phys(obs.get((q, "nb_usage_journeys_in_parallel", "")))
            if param == "power":
                attrs = ["devices_energy"]
                term = qphys(dv["power"]) * 3600
                kk = kf
            else:
                attrs = ["devices_fabrication_footprint", "instances_fabrication_footprint"]
                term = qphys(dv["carbon_footprint_fabrication"]) * 3600 / (qphys(dv["lifespan"]) * qphys(dv["fraction_of_usage_time"]))
                kk = kf if param == "carbon_footprint_fabrication" else 1 / kf
            for a in attrs:
                touched.add((q, a))
                old_s = series_phys(obs.get((q, a, "")))
                exp_s = {t: old_s.get(t, 0) + (kk - 1) * m_q * term * njp.get(t, 0) for t in set(old_s) | set(njp)}
                why = series_close(series_phys(obs2.get((q, a, ""))), exp_s)
                if why and not bad:
                    bad = f"{q}.{a}: {why}"
            touched |= {(q, "devices_energy_footprint"), (q, "energy_footprint")} if param == "power" else set()
        if not bad:
            rest1 = {key: v for key, v in obs.items() if (key[0], key[1]) not in touched and key[0] != "__system__"}
            rest2 = {key: v for key, v in obs2.items() if (key[0], key[1]) not in touched and key[0] != "__system__"}
            bad = odiff(rest1, rest2)
        if bad:
            vs.append(viol("C12", f"device-share:{param}", f"×{k} on {d}.{param} (one of the {len(spec['patterns'][pn]['devices'])} devices of {pn}): {bad}"))
    # all traffic × k: every load-proportional quantity × k
    spec3 = copy.deepcopy(spec)
    for p in spec3["patterns"].values():
        p["hourly_usage_journey_starts"]["values"] = [float(frac(v) * kf) for v in p["hourly_usage_journey_starts"]["values"]]
    st3, obs3, _ = kcalc.real_outcome(spec3)
    ev += 1
    if st3 == "ok":
        exp = {}
        for (o, a, kk) in obs:
            if o in spec["jobs"] or o in spec["networks"] or o in spec["patterns"]:
                exp[(o, a)] = kf
            if o in spec["servers"] and a in ("hour_by_hour_ram_need", "hour_by_hour_compute_need", "raw_nb_of_instances"):
                exp[(o, a)] = kf
            if o in spec["servers"] and spec["servers"][o]["server_type"] == "serverless" and a in (
                    "nb_of_instances", "instances_fabrication_footprint", "instances_energy", "energy_footprint"):
                exp[(o, a)] = kf
        skip = {o for o in spec["servers"] if spec["servers"][o]["server_type"] != "serverless"} | set(spec["storages"]) | {"__system__"}
        a1 = {key: v for key, v in obs.items() if not (key[0] in skip and (key[0], key[1]) not in exp)}
        a3 = {key: v for key, v in obs3.items() if not (key[0] in skip and (key[0], key[1]) not in exp)}
        why = odiff(a1, a3, scale_of=exp)
        if why:
            vs.append(viol("C12", "all-traffic", f"all starts ×{k}: {why}"))
        # the same multiplication made in place, usage pattern after usage pattern, on the live model: what a model
        # built with the multiplied traffic gives; and divided again: the original
        if rs is not None and not why and not history.has_shared_job(spec) and all(p_ in rs.objs for p_ in pats):
            ev += 1
            try:
                for pn in pats:
                    rs.objs[pn].hourly_usage_journey_starts = realsys.mk_hourly(spec3["patterns"][pn]["hourly_usage_journey_starts"])
                live_obs = {key: v for key, v in rs.observe().items() if key in obs3}
                why_live = odiff(live_obs, {key: v for key, v in obs3.items() if key in live_obs})
                for pn in pats:
                    rs.objs[pn].hourly_usage_journey_starts = realsys.mk_hourly(spec["patterns"][pn]["hourly_usage_journey_starts"])
                back = {key: v for key, v in rs.observe().items() if key in obs}
                why_back = odiff(back, {key: v for key, v in obs.items() if key in back})
                if why_live:
                    vs.append(viol("C12", "all-traffic-in-place", f"all starts ×{k} edited in place differ from the model built with them: {why_live}"))
                elif why_back:
                    vs.append(viol("C12", "all-traffic-in-place-undo", f"all starts ×{k} then ÷{k} in place: {why_back}"))
            except Exception as e:  # noqa
                # D4 (a float residue below zero in the cumulative storage need of a storage without deleting jobs) is C04's
                # finding, met here by an edit instead of a build: inconclusive for C12
                if "negative cumulative storage need" not in str(e):
                    vs.append(viol("C12", "all-traffic-in-place-raises", f"all starts ×{k} in place: {type(e).__name__}: {str(e)[:200]}"))
    elif obs3 not in ("fixed-instances", "neg-storage"):
        vs.append(viol("C12", "all-traffic-build-fails", f"all starts ×{k}: {obs3}"))
    return vs, ev


# ---------------------------------------------------------------------------------------------
# C19 — results are independent of creation order, identifiers, hashing and order-irrelevant lists
# ---------------------------------------------------------------------------------------------
def permuted(spec, rng):
    import copy
    from harness.realsys import KINDS
    sp = copy.deepcopy(spec)
    order = [(k, n) for k in KINDS for n in sp[k]]
    rng.shuffle(order)
    sp["order"] = order
    rng.shuffle(sp["system"]["usage_patterns"])
    for p in sp["patterns"].values():
        rng.shuffle(p["devices"])
    for s in sp["steps"].values():
        rng.shuffle(s["jobs"])
    return sp


def order_independence(spec, st, obs, rs, rng):
    from harness import kcalc
    sp2 = permuted(spec, rng)
    st2, obs2, _ = kcalc.real_outcome(sp2)
    if st != st2:
        if "neg-storage" in (obs if st == "err" else "", obs2 if st2 == "err" else ""):
            return [], 1
        return [viol("C19", "outcome-depends-on-order", f"{st} {obs if st == 'err' else ''} vs {st2} {obs2 if st2 == 'err' else ''}")], 1
    if st == "err":
        # both builds are refused. When two objects of the model fail independently (a storage hit by the float residue of
        # finding D4, a server hit by D15 — C04's findings), which refusal comes first follows the order in which independent
        # objects are computed: there is no result whose value could depend on the order — inconclusive
        if obs != obs2 and ({obs, obs2} & {"neg-storage", "shape"}):
            return [], 1
        return ([] if obs == obs2 else [viol("C19", "error-depends-on-order", f"{obs} vs {obs2}")]), 1
    sens = ceil_sensitive(spec, obs) | ceil_sensitive(sp2, obs2)
    if sens:
        sens |= {"__system__"}
    why = obs_diff(drop_objects(obs, sens), drop_objects(obs2, sens))
    if why:
        return [viol("C19", "value-depends-on-order", why)], 1
    return [], 1

"""Shared driver for the system-level checks: generate specs, build them for real, run the Lean
`computeSystem` on the same specs (K-calc), and evaluate the property's direct oracles."""
import hashlib
import json
import random

from harness.common import run_lean
from harness import realsys, specgen, leanio, kcalc, sysoracles


def spec_hash(spec):
    return hashlib.sha1(json.dumps(spec, sort_keys=True).encode()).hexdigest()[:12]


def spec_stats(spec):
    jobs_per_pattern = []
    for p in spec["patterns"].values():
        uj = spec["journeys"][p["usage_journey"]]
        jobs_per_pattern.append(sum(len(spec["steps"][s]["jobs"]) for s in uj["uj_steps"]))
    shared_journeys = len(spec["patterns"]) - len({p["usage_journey"] for p in spec["patterns"].values()})
    return {"patterns": len(spec["patterns"]), "jobs": len(spec["jobs"]), "servers": len(spec["servers"]),
            "shared_journeys": shared_journeys,
            "shared_network": len(spec["patterns"]) - len({p["network"] for p in spec["patterns"].values()}),
            "zones": sorted({c["timezone"] for c in spec["countries"].values()}),
            "max_series_len": max(len(p["hourly_usage_journey_starts"]["values"]) for p in spec["patterns"].values()),
            "server_types": sorted({s["server_type"] for s in spec["servers"].values()}),
            "deleting_jobs": sum(1 for j in spec["jobs"].values() if j["data_stored"]["m"] < 0)}


def probe_fixed_count(spec, obs, rng):
    """the same model with a user-fixed instance count placed around the computed need (peak, last
    hour, in between, one below the peak) on a storage or an on-premise server"""
    import copy
    import math
    servers, storages, _ = sysoracles.reachable(spec)
    cands = [("storages", n) for n in storages] + [("servers", n) for n in servers if spec["servers"][n]["server_type"] == "on-premise"]
    rng.shuffle(cands)
    for kind, name in cands:
        raw = obs.get((name, "raw_nb_of_instances", ""))
        if raw is None or raw["t"] != "h" or not raw["vs"]:
            continue
        vals = [float(v) * float(raw["scale"]) for v in raw["vs"]]
        peak, last = math.ceil(max(vals)), math.ceil(vals[-1])
        choices = [peak, peak + 1, max(1, peak - 1), max(1, last), max(1, (last + peak) // 2)]
        mx = max(vals)
        if mx > 0 and abs(mx - round(mx)) > 1e-6:
            # counts need not be whole numbers: one between the peak need and its ceiling (whole machines are needed: the
            # model must refuse it), one half an instance above the ceiling (honoured exactly)
            choices += [round((mx + math.ceil(mx)) / 2, 6), round((mx + math.ceil(mx)) / 2, 6), math.ceil(mx) + 0.5]
        f = rng.choice(choices)
        sp = copy.deepcopy(spec)
        sp[kind][name]["fixed_nb_of_instances"] = {"m": float(f), "u": "dimensionless"}
        return sp
    return None


def run_shard(args):
    """args = (seed, n, oracle names, generator kwargs, do_kcalc)"""
    seed, n, oracles, genkw, do_kcalc = args
    rng = random.Random(seed)
    out = {"cases": 0, "built": 0, "observations": 0, "disagreements": [], "violations": [], "inconclusive": 0,
           "errors": {}, "stats": [], "samples": [], "hashes": [], "oracle_evals": 0}
    cases = []
    genkw = dict(genkw)
    probe_fixed = genkw.pop("probe_fixed", False)
    cornered = genkw.pop("cornered", True)
    for i in range(n):
        spec = specgen.gen_safe_spec(rng, realsys.unit_info, **genkw)
        if cornered and i % 3 == 1:
            # no job shared between usage patterns, and the legal corners made certain (specgen.plant_corners)
            sp2 = specgen.plant_corners(specgen.unshare_jobs(spec), rng)
            if specgen.spec_is_safe(sp2, realsys.unit_info):
                spec = sp2
        elif cornered and i % 6 == 2 and len(spec["patterns"]) >= 2:
            # two usage patterns whose UTC series start together and have the same length, one of them skipping an hour
            sp2 = specgen.plant_dst_pair(spec, rng)
            if specgen.spec_is_safe(sp2, realsys.unit_info):
                spec = sp2
        st, obs, rs = kcalc.real_outcome(spec)
        if probe_fixed and st == "ok" and rng.random() < 0.6:
            spec2 = probe_fixed_count(spec, obs, rng)
            if spec2 is not None:
                spec = spec2
                st, obs, rs = kcalc.real_outcome(spec)
        cases.append((spec, st, obs, rs))
        out["cases"] += 1
        out["hashes"].append(spec_hash(spec))
        if len(out["stats"]) < 400:
            out["stats"].append(spec_stats(spec))
        if st == "err":
            out["errors"][obs] = out["errors"].get(obs, 0) + 1
        else:
            out["built"] += 1
            out["observations"] += len(obs)
        if len(out["samples"]) < 1:
            out["samples"].append({"spec": spec, "real": st if st == "err" else f"{len(obs)} calculated attributes"})
        # direct oracles on the real objects
        for name in oracles:
            fn = getattr(sysoracles, name)
            try:
                vs, evals = fn(spec, st, obs, rs, rng)
            except Exception as e:  # an oracle crash is an infrastructure problem, never a verdict
                raise RuntimeError(f"oracle {name} crashed on spec {spec_hash(spec)}: {type(e).__name__}: {e}") from e
            out["oracle_evals"] += evals
            for v in vs:
                v.setdefault("replay", {})["spec"] = spec
                v["replay"]["oracle"] = name
                out["violations"].append(v)
    if do_kcalc:
        answers = run_lean([{"cmd": "calc", "spec": leanio.spec_to_lean(s, realsys.unit_info)} for s, _, _, _ in cases])
        for (spec, st, obs, rs), ans in zip(cases, answers):
            dis, inc = kcalc.compare_case(spec, st, obs, ans)
            out["inconclusive"] += inc
            if dis:
                out["disagreements"].append({"spec": spec, "why": dis[:6], "real": st})
    return out


def merge(outs, suite_name="K-calc"):
    tot = {"cases": 0, "built": 0, "observations": 0, "disagreements": [], "violations": [], "inconclusive": 0,
           "errors": {}, "stats": [], "samples": [], "hashes": set(), "oracle_evals": 0}
    for o in outs:
        for k in ("cases", "built", "observations", "inconclusive", "oracle_evals"):
            tot[k] += o[k]
        tot["disagreements"] += o["disagreements"]
        tot["violations"] += o["violations"]
        tot["stats"] += o["stats"]
        tot["samples"] += o["samples"]
        tot["hashes"] |= set(o["hashes"])
        for k, v in o["errors"].items():
            tot["errors"][k] = tot["errors"].get(k, 0) + v
    return tot


def distribution(stats):
    if not stats:
        return {}
    def hist(key):
        h = {}
        for s in stats:
            h[str(s[key])] = h.get(str(s[key]), 0) + 1
        return h
    zones = {}
    for s in stats:
        for z in s["zones"]:
            zones[z] = zones.get(z, 0) + 1
    types = {}
    for s in stats:
        for z in s["server_types"]:
            types[z] = types.get(z, 0) + 1
    return {"patterns": hist("patterns"), "jobs": hist("jobs"), "servers": hist("servers"),
            "shared_journeys": hist("shared_journeys"), "shared_network": hist("shared_network"),
            "deleting_jobs": hist("deleting_jobs"), "zones": zones, "server_types": types,
            "max_series_len": max(s["max_series_len"] for s in stats)}


def run_corpus(prop, oracles):
    """corpus cases (minimised past failures and known-finding witnesses) run first"""
    import os
    from harness.common import VERIF
    d = os.path.join(VERIF, "corpus", prop)
    vs = []
    n = 0
    if os.path.isdir(d):
        for f in sorted(os.listdir(d)):
            if not f.endswith(".json"):
                continue
            with open(os.path.join(d, f)) as fh:
                w = json.load(fh)
            spec = w["spec"]
            st, obs, rs = kcalc.real_outcome(spec)
            n += 1
            for name in w.get("oracles", oracles):
                found, _ = getattr(sysoracles, name)(spec, st, obs, rs, random.Random(0))
                for v in found:
                    v.setdefault("replay", {})["spec"] = spec
                    v["replay"]["oracle"] = name
                    v["replay"]["corpus"] = f
                    vs.append(v)
    return vs, n

"""K-bookkeeping: the Lean model of the dependency-link bookkeeping (Model F, lean/Efp/Model/Links.lean)
against the real `ExplainableObject` / `ModelingObject.__setattr__` /
`replace_in_mod_obj_container_without_recomputation` on the same operation sequences."""
import random

from harness.common import run_lean, watchdog, silence_logs

silence_logs()

from efootprint.abstract_modeling_classes.modeling_object import ModelingObject  # noqa: E402
from efootprint.abstract_modeling_classes.explainable_objects import ExplainableQuantity  # noqa: E402
from efootprint.constants.units import u  # noqa: E402

N_OBJ, N_ATTR = 3, 4
DICT_ATTRS = [100, 101]     # attributes d100, d101 of every dummy hold an ExplainableObjectDict
N_KEYS = 3


class Dummy(ModelingObject):
    """a modeling object whose attributes c0…c3 are calculated attributes (set through the real __setattr__)"""

    def __init__(self, name):
        super().__init__(name)

    @property
    def modeling_objects_whose_attributes_depend_directly_on_me(self):
        return []

    @property
    def systems(self):
        return []

    @property
    def calculated_attributes(self):
        return [f"c{i}" for i in range(N_ATTR)] + [f"c{i}" for i in DICT_ATTRS]


def gen_ops(rng, n, with_dicts=False):
    """mostly the discipline the engine follows (fresh values set into slots, replacements of attached values),
    plus a stream of irregular operations (re-attaching, detaching twice, replacing detached values)"""
    ops, cont, holder = [], [], {}

    def attached():
        return [v for v, c in enumerate(cont) if c is not None]

    def detached():
        return [v for v, c in enumerate(cont) if c is None]

    def attach(v, sl):
        old = holder.get(sl)
        if old is not None and old != v and cont[old] == sl:
            cont[old] = None
        holder[sl] = v
        cont[v] = sl

    entries = {}          # dict slot -> {key: value}
    for _ in range(n):
        r = rng.random()
        irregular = rng.random() < 0.05
        if with_dicts and cont and rng.random() < 0.2:
            cands = attached() if irregular else detached()
            if not cands:
                continue
            v = rng.choice(cands)
            sl = (rng.randrange(N_OBJ), rng.choice(DICT_ATTRS))
            key = rng.randrange(N_KEYS)
            ops.append({"op": "dictset", "slot": list(sl), "key": key, "v": v})
            entries.setdefault(sl, {})[key] = v
            cont[v] = sl
            continue
        if not cont or r < 0.35:
            pool = attached() * 3 + detached()
            k = rng.choice([0, 1, 2, 2]) if pool else 0
            ops.append({"op": "mk", "parents": [rng.choice(pool) for _ in range(k)]})
            cont.append(None)
        elif r < 0.7:
            cands = attached() if irregular else detached()
            if not cands:
                continue
            v = rng.choice(cands)
            sl = (rng.randrange(N_OBJ), rng.randrange(N_ATTR))
            ops.append({"op": "setattr", "slot": list(sl), "v": v})
            attach(v, sl)
        elif r < 0.92:
            olds = detached() if irregular else attached()
            news = attached() if irregular and rng.random() < 0.5 else detached()
            if not olds or not news:
                continue
            old, new = rng.choice(olds), rng.choice(news)
            ops.append({"op": "replace", "old": old, "new": new})
            if cont[old] is not None:
                sl = cont[old]
                cont[old] = None
                if sl[1] >= 100:
                    for k_, x_ in entries.get(sl, {}).items():
                        if x_ == old:
                            entries[sl][k_] = new
                    cont[new] = sl
                else:
                    attach(new, sl)
        else:
            v = rng.randrange(len(cont))
            ops.append({"op": "detach", "v": v})
            cont[v] = None
    return ops


def err_kind(e):
    m = str(e)
    if "have a modeling_obj_container" in m:
        return "noId"
    if isinstance(e, PermissionError) or "more than one ModelingObject" in m:
        return "otherContainer"
    if isinstance(e, AssertionError) and "is not linked to a ModelingObject" in m:
        return "notAttached"
    if "Multiple keys found" in m:
        return "multipleKeys"
    if isinstance(e, (KeyError, AttributeError)) and ("not found as key" in m or "NoneType" in m):
        return "keyError"
    return f"other:{type(e).__name__}:{m[:60]}"


def run_real(ops):
    from efootprint.abstract_modeling_classes.explainable_object_dict import ExplainableObjectDict
    dummies = [Dummy(f"dummy{i}") for i in range(N_OBJ)]
    for d in dummies:
        for a in DICT_ATTRS:
            d.__setattr__(f"c{a}", ExplainableObjectDict())
    vals = []
    err = None
    for k, op in enumerate(ops):
        try:
            if op["op"] == "mk":
                ps = [vals[p] for p in op["parents"]]
                vals.append(ExplainableQuantity(1.0 * u.dimensionless, label=f"v{len(vals)}",
                                                left_parent=ps[0] if ps else None, right_parent=ps[1] if len(ps) > 1 else None,
                                                operator="+" if ps else None))
            elif op["op"] == "setattr":
                dummies[op["slot"][0]].__setattr__(f"c{op['slot'][1]}", vals[op["v"]])
            elif op["op"] == "replace":
                vals[op["old"]].replace_in_mod_obj_container_without_recomputation(vals[op["new"]])
            elif op["op"] == "detach":
                vals[op["v"]].set_modeling_obj_container(None, None)
            elif op["op"] == "dictset":
                getattr(dummies[op["slot"][0]], f"c{op['slot'][1]}")[f"k{op['key']}"] = vals[op["v"]]
        except Exception as e:  # noqa
            err = {"at": k, "kind": err_kind(e)}
            break
    index = {id(v): i for i, v in enumerate(vals)}
    objs = []
    for v in vals:
        cont = None
        if v.modeling_obj_container is not None:
            cont = [dummies.index(v.modeling_obj_container), int(v.attr_name_in_mod_obj_container[1:])]
        objs.append({"cont": cont, "anc": [index.get(id(a), -1) for a in v.direct_ancestors_with_id],
                     "chi": [index.get(id(c), -1) for c in v.direct_children_with_id]})
    return {"objs": objs, "err": err}


def shard(args):
    seed, n = args
    rng = random.Random(seed)
    out = {"cases": 0, "ops": 0, "disagreements": [], "errs": {}, "mirror_false": 0, "kinds": {}, "samples": []}
    cases = [gen_ops(rng, rng.randint(3, 40), with_dicts=(k % 2 == 1)) for k in range(n)]
    reals = []
    for ops in cases:
        with watchdog(30):
            reals.append(run_real(ops))
    answers = run_lean([{"cmd": "links", "ops": ops} for ops in cases])
    for ops, real, ans in zip(cases, reals, answers):
        out["cases"] += 1
        out["ops"] += len(ops)
        for o in ops:
            out["kinds"][o["op"]] = out["kinds"].get(o["op"], 0) + 1
        if "bad" in ans:
            out["disagreements"].append({"why": "driver: " + ans["bad"], "ops": ops})
            continue
        if real["err"] or ans["err"]:
            k = (real["err"] or {}).get("kind", "none")
            out["errs"][k] = out["errs"].get(k, 0) + 1
            if real["err"] != ans["err"]:
                out["disagreements"].append({"why": f"real {real['err']} vs model {ans['err']}", "ops": ops})
            continue          # the state after an exception in the middle of an operation is not compared
        if real["objs"] != ans["objs"]:
            i = next(i for i, (a, b) in enumerate(zip(real["objs"], ans["objs"])) if a != b) if len(real["objs"]) == len(ans["objs"]) else -1
            out["disagreements"].append({"why": f"value {i}: real {real['objs'][i] if i >= 0 else len(real['objs'])} vs model {ans['objs'][i] if i >= 0 else len(ans['objs'])}", "ops": ops})
        if not ans["mirror"]:
            out["mirror_false"] += 1
        if len(out["samples"]) < 1:
            out["samples"].append({"ops": ops[:8], "values": len(real["objs"])})
    return out


if __name__ == "__main__":
    import sys
    o = shard((int(sys.argv[1]) if len(sys.argv) > 1 else 0, 300))
    print({k: v for k, v in o.items() if k not in ("disagreements", "samples")})
    for d in o["disagreements"][:5]:
        print(d)

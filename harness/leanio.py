"""Spec → Lean driver JSON (exact rationals, zone tables), and comparison of model vs real values."""
import calendar
import math
from datetime import datetime
from fractions import Fraction

import pytz

from harness.common import frac, rat_str

DIMS0 = [0, 0, 0, 0, 0]


def unit_json(unit_info, ustr):
    scale, dim = unit_info(ustr)
    return {"s": rat_str(scale), "d": list(dim)}


def q_json(unit_info, q):
    if q is None:
        return None
    return {"q": rat_str(q["m"]), "u": unit_json(unit_info, q["u"])}


def naive_epoch(y, mo, d, hh=0):
    return calendar.timegm((y, mo, d, hh, 0, 0))


def hourly_json(unit_info, h):
    return {"k0": naive_epoch(*h["start"]), "vs": [rat_str(v) for v in h["values"]],
            "u": unit_json(unit_info, h.get("unit", "dimensionless"))}


_zone_cache = {}


def zone_json(name, lo=None, hi=None):
    """What pandas reads from a pytz zone: initial offset + (utc instant, offset) transitions.
    Restricted to transitions within [lo - 2 years, hi + 2 years] when bounds are given."""
    key = (name, lo, hi)
    if key in _zone_cache:
        return _zone_cache[key]
    tz = pytz.timezone(name)
    if not hasattr(tz, "_utc_transition_times"):
        off = int(tz.utcoffset(datetime(2025, 1, 1)).total_seconds()) if tz.utcoffset(datetime(2025, 1, 1)) else 0
        z = {"init": off, "tr": [], "east": off > 0}
    else:
        times = tz._utc_transition_times
        infos = tz._transition_info
        tr = []
        for t, info in zip(times, infos):
            if t.year <= 1:
                e = -(10 ** 12)
            else:
                e = calendar.timegm(t.timetuple())
            tr.append((e, int(info[0].total_seconds())))
        init = tr[0][1]
        east = tr[0][1] > 0
        tr = tr[1:]
        if lo is not None:
            margin = 2 * 366 * 86400
            before = [x for x in tr if x[0] < lo - margin]
            if before:
                init = before[-1][1]
            tr = [x for x in tr if lo - margin <= x[0] <= hi + margin]
        z = {"init": init, "tr": [[a, b] for a, b in tr], "east": east}
    _zone_cache[key] = z
    return z


def spec_to_lean(spec, unit_info):
    """The `spec` argument of the driver's `calc` command."""
    def conv(o, skip=()):
        r = {}
        for k, v in o.items():
            if k in skip:
                continue
            if isinstance(v, dict) and "m" in v:
                r[k] = q_json(unit_info, v)
            elif v is None:
                r[k] = None
            else:
                r[k] = v
        return r
    out = {}
    for kind in ["storages", "servers", "jobs", "steps", "journeys", "devices", "networks"]:
        out[kind] = [dict(conv(o), name=n) for n, o in spec[kind].items()]
    for sv in out["servers"]:
        sv.setdefault("cls", "Server")
    starts = [naive_epoch(*p["hourly_usage_journey_starts"]["start"]) for p in spec["patterns"].values()]
    lens = [len(p["hourly_usage_journey_starts"]["values"]) for p in spec["patterns"].values()]
    lo = min(starts) if starts else 0
    hi = max(s + 3600 * l for s, l in zip(starts, lens)) if starts else 0
    out["countries"] = [{"name": n, "average_carbon_intensity": q_json(unit_info, o["average_carbon_intensity"]),
                         "zone": zone_json(o["timezone"], lo, hi)} for n, o in spec["countries"].items()]
    out["patterns"] = [{"name": n, "usage_journey": p["usage_journey"], "devices": p["devices"],
                        "network": p["network"], "country": p["country"],
                        "hourly_usage_journey_starts": hourly_json(unit_info, p["hourly_usage_journey_starts"])}
                       for n, p in spec["patterns"].items()
                       # a usage pattern that has never been part of the system has never been computed: it loads nothing
                       if n in spec["system"]["usage_patterns"] or n in spec["system"].get("removed", [])]
    out["system"] = list(spec["system"]["usage_patterns"])
    return out


def lean_val(j):
    """Parse a value printed by the driver into the canonical form used for comparison."""
    if j is None:
        return None
    scale = Fraction(j["u"]["s"])
    dim = tuple(j["u"]["d"])
    if "q" in j:
        return {"t": "q", "m": Fraction(j["q"]), "scale": scale, "dim": dim}
    return {"t": "h", "ks": list(j["ks"]), "vs": [Fraction(x) for x in j["vs"]], "scale": scale, "dim": dim}


def close(a, b, scale_ref, rel=1e-9, abs_tol=1e-12):
    a = float(a)
    b = float(b)
    if not (math.isfinite(a) and math.isfinite(b)):
        return False
    return abs(a - b) <= rel * max(abs(a), abs(b), scale_ref) + abs_tol * max(scale_ref, 1e-300)


def compare_vals(py, ln, rel=1e-9):
    """None when the real value `py` (floats) and the model value `ln` (exact) agree; else a reason."""
    if py is None or ln is None:
        if py is None and ln is None:
            return None
        return f"empty-mismatch py={'empty' if py is None else py['t']} lean={'empty' if ln is None else ln['t']}"
    if py["t"] != ln["t"]:
        return f"kind py={py['t']} lean={ln['t']}"
    if tuple(py["dim"]) != tuple(ln["dim"]):
        return f"dim py={py['dim']} lean={ln['dim']}"
    if py["t"] == "q":
        a = py["m"] * float(py["scale"])
        b = float(ln["m"] * ln["scale"])
        if not close(a, b, 0.0, rel):
            return f"value py={a!r} lean={b!r}"
        return None
    if py["ks"] != ln["ks"]:
        return f"keys py[{len(py['ks'])}]={py['ks'][:4]}.. lean[{len(ln['ks'])}]={ln['ks'][:4]}.."
    pa = [v * float(py["scale"]) for v in py["vs"]]
    lb = [float(v * ln["scale"]) for v in ln["vs"]]
    ref = max([abs(x) for x in lb] + [0.0])
    bad = [i for i, (a, b) in enumerate(zip(pa, lb)) if not close(a, b, ref * 1e-3, rel)]
    if bad:
        i = bad[0]
        return Mismatch(f"value at {py['ks'][i]} py={pa[i]!r} lean={lb[i]!r} ({len(bad)} hours differ)",
                        [py["ks"][i] for i in bad])
    return None


class Mismatch(str):
    """a disagreement message that also carries the hours (keys) at which values differ"""
    def __new__(cls, msg, keys):
        o = super().__new__(cls, msg)
        o.keys = keys
        return o


def near_integer_keys(ln, rel=1e-9):
    """keys of a model series whose (dimensionless) value is within rel of an integer without the
    float computation being guaranteed to land on the same side: the ceil/floor discontinuity guard"""
    out = set()
    if ln is None or ln["t"] != "h":
        return out
    for k, v in zip(ln["ks"], ln["vs"]):
        x = v * ln["scale"]
        d = abs(x - round(x))
        if d <= Fraction(rel) * max(1, abs(x)):
            out.add(k)
    return out

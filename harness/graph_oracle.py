"""C08 oracle: the inspectable calculation graph is consistent (both ends, live values only, acyclic),
complete (perturbation test) and yields update orders that list each dependent once, after its
dependencies — after builds, edit histories, simulations and toggles."""
import copy
import random

from harness.common import watchdog, err_enum, frac
from harness import realsys, specgen, history, sysoracles, graphx, kcalc
from harness.history import Live
from harness import engine_oracles as eo
from harness import sim_oracle as so
from efootprint.abstract_modeling_classes.modeling_update import ModelingUpdate
from efootprint.abstract_modeling_classes.explainable_object_dict import ExplainableObjectDict


def graph_violations(live, phase, trig, replay):
    nodes = graphx.export(live.rs)
    issues = graphx.check_graph(nodes)
    out = []
    seen = set()
    for kind, desc in issues:
        if kind in seen:
            continue
        seen.add(kind)
        out.append({"signature": f"C08:{kind}:{phase}{trig}", "detail": desc, "replay": replay})
    return out, nodes


def chain_violations(nodes, trig, replay, rng, limit=12):
    """each dependent exactly once, after everything it depends on (checked on the real chain)"""
    out = []
    starts = [nd for nd in nodes if nd["live"] and not nd["calc"] and nd["chi"]]
    rng.shuffle(starts)
    sid_of = {nd["sname"]: nd["sid"] for nd in nodes}
    for nd in starts[:limit]:
        ch = graphx.real_chain(nd)
        if ch == "hang":
            out.append({"signature": f"C08:update-order-does-not-terminate{trig}", "detail": nd["sname"], "replay": replay})
            break
        if isinstance(ch, str):
            out.append({"signature": f"C08:update-order-raises:{ch}{trig}", "detail": nd["sname"], "replay": replay})
            break
        ids = [c[0] for c in ch]
        if len(set(ids)) != len(ids):
            out.append({"signature": f"C08:dependent-listed-twice{trig}", "detail": nd["sname"], "replay": replay})
            break
        # slot-level descendants of the start node
        children = {}
        for n2 in nodes:
            if n2["live"]:
                children.setdefault(n2["sid"], set()).update(nodes[c]["sid"] for c in n2["chi"] if nodes[c]["live"])
        desc, stack = set(), [nd["sid"]]
        while stack:
            x = stack.pop()
            for y in children.get(x, ()):
                if y not in desc and y != nd["sid"]:
                    desc.add(y)
                    stack.append(y)
        chain_sids = [sid_of.get(i) for i in ids]
        if set(chain_sids) != desc:
            out.append({"signature": f"C08:update-order-misses-or-adds-dependents{trig}",
                        "detail": f"{nd['sname']}: {len(desc - set(chain_sids))} dependents missing, {len(set(chain_sids) - desc)} extra", "replay": replay})
            break
        pos = {s: i for i, s in enumerate(chain_sids)}
        bad = False
        for n2 in nodes:
            if n2["live"] and n2["sid"] in pos:
                for a in n2["anc"]:
                    s2 = nodes[a]["sid"]
                    if s2 in pos and pos[s2] > pos[n2["sid"]]:
                        out.append({"signature": f"C08:dependent-before-its-dependency{trig}", "detail": f"{n2['sname']} before {nodes[a]['sname']}", "replay": replay})
                        bad = True
                        break
            if bad:
                break
        if bad:
            break
    return out


def completeness_violations(spec, live, rng, trig, replay, n_inputs=3):
    """whenever changing an input changes a calculated quantity, the input is a transitive ancestor of it"""
    out = []
    base_obs = live.rs.observe()
    reach = eo.reachable_spec_names(spec)
    # a step in which no time is spent, followed by steps with jobs, is an input like any other: it goes first
    zero_steps = [n for n in sorted(spec["steps"]) if n in reach and spec["steps"][n]["user_time_spent"]["m"] == 0]
    rng.shuffle(zero_steps)
    for k in range(n_inputs):
        op = None
        if k == 0 and zero_steps:
            op = {"op": "setq", "kind": "steps", "name": zero_steps[0], "param": "user_time_spent", "value": {"m": rng.choice([1, 2, 3]), "u": "hour"}}
            if not eo.safe_after(live, op):
                op = None
        for _ in range(0 if op else 20):
            op = history.gen_numeric_edit(rng, spec)
            if op and op["name"] in reach and eo.safe_after(live, op) and op["param"] not in ("fixed_nb_of_instances",):
                break
            op = None
        if op is None:
            continue
        sp2 = copy.deepcopy(spec)
        sp2[op["kind"]][op["name"]][op["param"]] = op["value"]
        st, obs2, _ = kcalc.real_outcome(sp2)
        if st != "ok":
            continue
        inp = getattr(live.obj(op["name"]), op["param"])
        inp_id = inp.id
        names = live.reachable_names()
        for key in sorted(base_obs):
            if key[0] not in names or key not in obs2:
                continue
            a, b = base_obs[key], obs2[key]
            if sysoracles.obs_diff({key: a}, {key: b}) is None:
                continue
            val = getattr(live.obj(key[0]), key[1])
            try:
                if isinstance(val, ExplainableObjectDict):
                    anc = {x.id for e in val.values() for x in e.all_ancestors_with_id}
                else:
                    anc = {x.id for x in val.all_ancestors_with_id}
            except ValueError as e:
                # an ancestor without container: the graph refers to a value the model no longer holds
                out.append({"signature": f"C08:ancestors-raise{trig}", "detail": f"walking the ancestors of {key[0]}.{key[1]} raises: {str(e)[-160:]}",
                            "replay": dict(replay, perturbed=op)})
                break
            if inp_id not in anc:
                # with a job shared by several usage patterns the ancestors are walked by id and the entries of one
                # per-usage-pattern dict share an id: one signature for the whole D2 family, whatever the attribute
                out.append({"signature": "C08:incomplete:shared-job" if trig == ":shared-job" else f"C08:incomplete:{op['kind']}.{op['param']}->{key[1]}{trig}",
                            "detail": f"{op['name']}.{op['param']} changes {key[0]}.{key[1]} but is not among its transitive ancestors",
                            "replay": dict(replay, perturbed=op)})
                break
    return out


def shard(args):
    seed, n = args
    rng = random.Random(seed)
    out = {"cases": 0, "violations": [], "samples": [], "hashes": [], "graphs": 0, "nodes": 0, "chains": 0, "perturbations": 0, "phases": {}}
    for i in range(n):
        spec = specgen.gen_safe_spec(rng, realsys.unit_info, allow_delete=False, allow_dumps=False)
        if i % 3 != 0:
            if history.has_shared_job(spec):
                spec = specgen.unshare_jobs(spec)      # own journey, steps and jobs per usage pattern
            if i % 3 == 1:
                sp3 = specgen.plant_corners(spec, rng)  # … with a journey in which no time is spent
                if specgen.spec_is_safe(sp3, realsys.unit_info):
                    spec = sp3
        try:
            with watchdog(60):
                live = Live(spec)
        except Exception:  # noqa
            continue
        out["cases"] += 1
        ops = []

        def trig_now():
            return ":shared-job" if history.has_shared_job(live.spec) else ""
        replay = {"spec": spec, "ops": ops}
        # after build
        vs, nodes = graph_violations(live, "after-build", trig_now(), replay)
        out["violations"] += vs
        out["graphs"] += 1
        out["nodes"] += len(nodes)
        out["phases"]["after-build"] = out["phases"].get("after-build", 0) + 1
        # after an edit history (guarded domain of C01)
        for k_ in range(rng.randint(1, 4)):
            op = eo.gen_op(rng, live.spec, True)
            if k_ == 0 and i % 3 == 1:
                # structural growth first, when the planted corners allow it: a job of a server the system does not use
                # yet placed in a step without jobs (the system must still end the recomputation chain)
                op = eo.growth_op(live.spec, rng) or op
            if op and eo.safe_after(live, op):
                if live.apply(op)[0] == "err":
                    break
                ops.append(op)
        if live.log and live.log[-1][1] == "err":
            continue
        vs, nodes = graph_violations(live, "after-edits", trig_now(), {"spec": spec, "ops": list(ops)})
        out["violations"] += vs
        out["graphs"] += 1
        out["phases"]["after-edits"] = out["phases"].get("after-edits", 0) + 1
        out["violations"] += chain_violations(nodes, trig_now(), {"spec": spec, "ops": list(ops)}, rng)
        out["chains"] += 1
        if rng.random() < 0.5 or any(st["user_time_spent"]["m"] == 0 for st in live.spec["steps"].values()):
            out["violations"] += completeness_violations(live.spec, live, rng, trig_now(), {"spec": spec, "ops": list(ops)})
            out["perturbations"] += 1
        # the exported graph resolves: every id listed in the JSON export names an exported value
        try:
            with watchdog(60):
                from efootprint.api_utils.system_to_json import system_to_json
                j = system_to_json(live.rs.system, save_calculated_attributes=True)
            ids, refs = set(), set()

            def walk(x):
                if isinstance(x, dict):
                    if "id" in x and ("direct_ancestors_with_id" in x or "direct_children_with_id" in x):
                        ids.add(x["id"])
                        refs.update(x.get("direct_ancestors_with_id", []))
                        refs.update(x.get("direct_children_with_id", []))
                    for v in x.values():
                        walk(v)
            walk(j)
            # hourly values do not export their id (by design of to_json): restrict to refs that could resolve
        except Exception as e:  # noqa
            out["violations"].append({"signature": f"C08:export-with-graph-raises:{err_enum(e)}{trig_now()}", "detail": str(e)[:200],
                                      "replay": {"spec": spec, "ops": list(ops)}})
        # simulation: graph while simulated values are switched on, and after switching back
        sim_ops = so.gen_changes(rng, live)
        sim_ops = [o for o in sim_ops if o["op"] in ("setq",)]
        if sim_ops:
            first, last, min_last = so.period(live)
            try:
                with watchdog(60):
                    sim = ModelingUpdate(so.build_changes(live, sim_ops), simulation_date=first)
                r2 = {"spec": spec, "ops": list(ops), "simulation": sim_ops}
                vs, _ = graph_violations(live, "after-simulation", trig_now(), r2)
                out["violations"] += vs
                sim.set_updated_values()
                vs, _ = graph_violations(live, "simulated-values-on", trig_now(), r2)
                out["violations"] += vs
                sim.reset_values()
                vs, _ = graph_violations(live, "after-toggle", trig_now(), r2)
                out["violations"] += vs
                out["graphs"] += 3
                for ph in ("after-simulation", "simulated-values-on", "after-toggle"):
                    out["phases"][ph] = out["phases"].get(ph, 0) + 1
            except Exception as e:  # noqa
                pass
        out["hashes"].append(eo.sysoracles_hash(spec, ops))
        if len(out["samples"]) < 1:
            out["samples"].append({"nodes": len(nodes), "history": [eo.op_label(o) for o in ops], "simulation": [eo.op_label(o) for o in sim_ops]})
    return out

"""Direct oracles on edit histories of live real systems (C01, C18, C15, C05, C06, C14, C16, C08)."""
import copy
import json
import random

from harness.common import watchdog, err_enum
from harness import realsys, specgen, history, sysoracles, kcalc
from harness.history import Live


def op_label(op):
    t = op["op"]
    if t == "group":
        return "group(" + ",".join(op_label(c) for c in op["changes"]) + ")"
    kind = op.get("kind", "")
    if t == "setq":
        return f"set:{kind}.{op['param']}"
    if t == "sethourly":
        return "set:patterns.hourly_usage_journey_starts"
    if t in ("setlink", "setlist"):
        return f"set:{kind}.{op['attr']}"
    if t == "listop":
        return f"{op['method']}:{kind}.{op['attr']}"
    if t == "settype":
        return "set:servers.server_type"
    if t == "settz":
        return "set:countries.timezone"
    return t


def stale_signature(before_spec, after_spec, op):
    """signature of a 'live system differs from a fresh build' violation: last operation kind plus
    the trigger predicate that held on the pre-state (so that a different violation is still reported)"""
    lab = op_label(op)
    if history.has_shared_job(before_spec) or history.has_shared_job(after_spec):
        return "C01:stale:shared-job"
    # D27: a usage pattern that exists outside the system (taken out of `system.usage_patterns`) keeps loading the
    # servers, storages and networks it shares with the system
    outside_after = set(after_spec["patterns"]) - set(after_spec["system"]["usage_patterns"])
    if any(sp["system"].get("removed") for sp in (before_spec, after_spec)) or (outside_after and op.get("kind") != "system"):
        return "C01:stale:usage-pattern-outside-the-system"
    if op["op"] == "setlink" and op.get("attr") == "usage_journey" and not history.journey_jobs(
            before_spec, before_spec["patterns"][op["name"]]["usage_journey"]):
        return "C01:stale-after-set:patterns.usage_journey:from-jobless-journey"
    # D3, second facet: a journey without jobs gains its first jobs through an edit of its step list
    if op["op"] in ("setlist", "listop") and op.get("attr") == "uj_steps" and not history.journey_jobs(before_spec, op["name"]):
        return "C01:stale-after-edit:journeys.uj_steps:from-jobless-journey"
    return f"C01:stale-after-{lab}"


def totals_snapshot(system):
    e = {k: realsys.canon(v) for k, v in system.total_energy_footprint_sum_over_period.items()}
    f = {k: realsys.canon(v) for k, v in system.total_fabrication_footprint_sum_over_period.items()}
    return {"energy": e, "fabrication": f}


def totals_equal(a, b):
    for part in ("energy", "fabrication"):
        for k in set(a[part]) | set(b[part]):
            x, y = a[part].get(k), b[part].get(k)
            if x is None or y is None:
                if x is None and y is None:
                    continue
                return False
            if not sysoracles.close(sysoracles.scalar_phys(x), sysoracles.scalar_phys(y), 1e-300):
                return False
    return True


def compare_with_fresh(live):
    """None if the live (edited) system equals a system freshly built from the same inputs"""
    try:
        with watchdog(60):
            fresh = live.fresh()
    except Exception as e:  # noqa
        return f"fresh build raises {err_enum(e)} while the edited system was accepted", None
    names = live.reachable_names(fresh)
    a = {k: v for k, v in live.rs.observe().items() if k[0] in names}
    b = {k: v for k, v in fresh.observe().items() if k[0] in names}
    sens = sysoracles.ceil_sensitive(live.spec, a) | sysoracles.ceil_sensitive(live.spec, b)
    if sens:
        sens |= {"__system__"}
        # a storage inherits nothing from its server's count, but the system total does
    why = sysoracles.obs_diff(sysoracles.drop_objects(a, sens), sysoracles.drop_objects(b, sens))
    return why, fresh


def safe_after(live, op):
    sp = copy.deepcopy(live.spec)
    tmp = Live.__new__(Live)
    tmp.spec = sp
    try:
        tmp.mirror(op)
    except Exception:  # noqa
        return False
    if not specgen.spec_is_safe(sp, realsys.unit_info):
        return False
    # keep every server/storage reachable-or-not consistently buildable: at least one pattern with devices
    return all(p["devices"] for p in sp["patterns"].values())


def reachable_spec_names(spec):
    servers, storages, networks = sysoracles.reachable(spec)
    names = set(servers) | set(storages) | set(networks) | set(spec["system"]["usage_patterns"]) | {"__system__"}
    for pn in spec["system"]["usage_patterns"]:
        p = spec["patterns"][pn]
        names |= {p["usage_journey"], p["country"]} | set(p["devices"])
        for st in spec["journeys"][p["usage_journey"]]["uj_steps"]:
            names.add(st)
            names |= set(spec["steps"][st]["jobs"])
    return names


def gen_op(rng, spec, guarded=True):
    """one edit inside the domain of the proved statement (guarded) or any edit (free)"""
    shared = history.has_shared_job(spec)
    reach = reachable_spec_names(spec)
    for _ in range(40):
        op = gen_op_once(rng, spec, guarded, shared)
        if op is None:
            continue
        # edits of objects that are not part of the system are not edits of the system
        if op["op"] != "group" and op["name"] not in reach:
            continue
        if op["op"] == "group" and any(c["name"] not in reach for c in op["changes"]):
            continue
        return op
    return None


def lone_job_move(spec, rng):
    """the op that moves the only job of a server to another server of the same class (None if there is none)"""
    reach_all = reachable_spec_names(spec)
    for svn in sorted(spec["servers"]):
        its_jobs = [j for j, o in spec["jobs"].items() if o["server"] == svn and j in reach_all]
        others_ = [s_ for s_ in spec["servers"] if s_ != svn and spec["servers"][s_].get("cls", "Server") == spec["servers"][svn].get("cls", "Server")]
        if len(its_jobs) == 1 and len([j for j, o in spec["jobs"].items() if o["server"] == svn]) == 1 and others_:
            return {"op": "setlink", "kind": "jobs", "name": its_jobs[0], "attr": "server", "target": rng.choice(sorted(others_))}
    return None


def with_spare_server(spec, rng):
    """(spec with one more server of the class of a used server, on its own storage and without jobs; ops that move the
    jobs of that used server to it one by one — the used server and its storage end without any load)"""
    sp = copy.deepcopy(spec)
    reach_all = reachable_spec_names(sp)
    used = sorted(s_ for s_ in sp["servers"] if s_ in reach_all)
    if not used:
        return spec, []
    src = rng.choice(used)
    stn, svn = f"st{len(sp['storages'])}x", f"sv{len(sp['servers'])}x"
    sp["storages"][stn] = copy.deepcopy(sp["storages"][sp["servers"][src]["storage"]])
    sp["storages"][stn]["fixed_nb_of_instances"] = None
    sp["servers"][svn] = dict(copy.deepcopy(sp["servers"][src]), storage=stn, fixed_nb_of_instances=None)
    jobs = sorted(j for j, o in sp["jobs"].items() if o["server"] == src)
    if any(sp["jobs"][j]["data_stored"]["m"] < 0 for j in jobs):
        return spec, []       # a deleting job needs the base need of its storage
    return sp, [{"op": "setlink", "kind": "jobs", "name": j, "attr": "server", "target": svn} for j in jobs]


def growth_op(spec, rng):
    """structural growth: a job of a server the system does not use yet placed in a step that has no job (None if the
    model has no such job / step)"""
    reach0 = reachable_spec_names(spec)
    idle = [j for j, o in spec["jobs"].items() if j not in reach0 and o["server"] not in reach0 and not str(j).endswith("_out")]
    empty = [s_ for s_ in spec["steps"] if s_ in reach0 and not spec["steps"][s_]["jobs"]]
    if idle and empty:
        return {"op": "listop", "kind": "steps", "name": rng.choice(sorted(empty)), "attr": "jobs", "method": "append", "args": [rng.choice(sorted(idle))]}
    return None


def hour_crossing_ops(spec, rng):
    """edits of the time spent in an earlier step that carry a later job of the journey across a whole-hour boundary
    (a job is placed floor(time elapsed) hours after the journey starts): up from where it is — preferably out of the
    first hour —, back, and up again.  [] when no journey has a job after its first step."""
    import math
    from fractions import Fraction as F
    cands = []
    for p in spec["system"]["usage_patterns"]:
        steps_ = spec["journeys"][spec["patterns"][p]["usage_journey"]]["uj_steps"]
        if len(set(steps_)) != len(steps_):
            continue
        elapsed = F(0)
        for k_, sn in enumerate(steps_):
            if k_ >= 1 and spec["steps"][sn]["jobs"]:
                cands.append((math.floor(elapsed), steps_[:k_]))
            elapsed += specgen.hours_of(spec["steps"][sn]["user_time_spent"], realsys.unit_info)
    if not cands:
        return []
    cands.sort(key=lambda c: c[0])
    fl, before = cands[0] if rng.random() < 0.7 else rng.choice(cands)
    sn = rng.choice(before)
    old = spec["steps"][sn]["user_time_spent"]
    h0 = specgen.hours_of(old, realsys.unit_info)
    up = {"m": round(float(h0 * 60 + 60 * rng.choice([1, 1, 2])), 6), "u": "min"}
    if not specgen.safe_duration(up, realsys.unit_info) or not specgen.safe_duration(old, realsys.unit_info):
        return []
    mk = lambda v: {"op": "setq", "kind": "steps", "name": sn, "param": "user_time_spent", "value": dict(v)}
    return [mk(up), mk(old), mk(up)]


def with_idle_jobs(spec, rng, n=3):
    """(spec with n jobs hosted on a used server but not placed in any step — they contribute no load — and a storage no
    server uses; the op that moves that server to the free storage)"""
    sp = copy.deepcopy(spec)
    reach_all = reachable_spec_names(sp)
    used = sorted(s_ for s_ in sp["servers"] if s_ in reach_all)
    if not used:
        return spec, None
    svn = rng.choice(used)
    src = next((j for j, o in sp["jobs"].items() if o["server"] == svn and o["data_stored"]["m"] >= 0), None)
    if src is None:
        return spec, None
    for k_ in range(n):
        sp["jobs"][f"j{len(sp['jobs'])}_idle"] = copy.deepcopy(sp["jobs"][src])
    stn = f"st{len(sp['storages'])}_free"
    sp["storages"][stn] = dict(copy.deepcopy(sp["storages"][sp["servers"][svn]["storage"]]), fixed_nb_of_instances=None)
    for prm, k_ in (("carbon_footprint_fabrication_per_storage_capacity", 3), ("power_per_storage_capacity", 2), ("idle_power", 2)):
        q_ = sp["storages"][stn][prm]
        sp["storages"][stn][prm] = {"m": q_["m"] * k_ + 1, "u": q_["u"]}          # another model of storage: other footprints
    return sp, {"op": "setlink", "kind": "servers", "name": svn, "attr": "storage", "target": stn}


def zero_time_op(spec, rng):
    """time given to a step of a journey of the system in which no time is spent at all (None if there is none)"""
    for p in spec["system"]["usage_patterns"]:
        steps_ = spec["journeys"][spec["patterns"][p]["usage_journey"]]["uj_steps"]
        if steps_ and all(spec["steps"][s_]["user_time_spent"]["m"] == 0 for s_ in steps_):
            return {"op": "setq", "kind": "steps", "name": rng.choice(sorted(set(steps_))), "param": "user_time_spent",
                    "value": {"m": rng.choice([0.3, 12.5]), "u": rng.choice(["min", "hour"])}}
    return None


def corner_ops(rng, spec, guarded):
    """edits aimed at the legal corners the generator plants (specgen corner_topologies): giving time to a
    journey in which no time is spent, changing one of several equal-valued inputs, placing an idle job"""
    ops = []
    used = {s_ for p in spec["system"]["usage_patterns"] for s_ in spec["journeys"][spec["patterns"][p]["usage_journey"]]["uj_steps"]}
    for sn in used:
        if spec["steps"][sn]["user_time_spent"]["m"] == 0:
            ops.append({"op": "setq", "kind": "steps", "name": sn, "param": "user_time_spent",
                        "value": {"m": rng.choice([0.3, 12.5]), "u": rng.choice(["min", "hour"])}})
    for kind, param in (("countries", "average_carbon_intensity"), ("networks", "bandwidth_energy_intensity"), ("devices", "power"),
                        ("jobs", "data_transferred"), ("servers", "average_carbon_intensity")):
        reach = reachable_spec_names(spec)
        names = [n_ for n_ in spec[kind] if n_ in reach]     # edits of objects outside the system are not the system's business
        for a in names[1:]:
            if param in spec[kind][a] and spec[kind][a][param] == spec[kind][names[0]].get(param):
                v = spec[kind][a][param]
                ops.append({"op": "setq", "kind": kind, "name": a, "param": param, "value": {"m": round(v["m"] * rng.choice([3, 0.5]), 9), "u": v["u"]}})
    placed = {j for s_ in spec["steps"].values() for j in s_["jobs"]}
    for jn in spec["jobs"]:
        if jn not in placed and used:
            empty_steps = sorted(s_ for s_ in used if not spec["steps"][s_]["jobs"])
            sn = rng.choice(empty_steps) if empty_steps and rng.random() < 0.7 else rng.choice(sorted(used))
            ops.append({"op": "listop", "kind": "steps", "name": sn, "attr": "jobs", "method": "append", "args": [jn]})
    # a grouped update of two inputs whose dependents overlap, one of them with a dependent of its own that feeds a
    # shared one (a job's need and its server's capacity): the order of the merged chain matters
    reach_all = reachable_spec_names(spec)
    for jn, j in spec["jobs"].items():
        svn = j["server"]
        if jn in reach_all and svn in reach_all and spec["servers"][svn].get("cls", "Server") == "Server":
            c1 = {"op": "setq", "kind": "jobs", "name": jn, "param": "compute_needed",
                  "value": {"m": round(j["compute_needed"]["m"] * rng.choice([0.5, 1.5]), 9), "u": j["compute_needed"]["u"]}}
            sv = spec["servers"][svn]
            c2 = {"op": "setq", "kind": "servers", "name": svn, "param": "compute",
                  "value": {"m": sv["compute"]["m"] * 2, "u": sv["compute"]["u"]}}
            ops.append({"op": "group", "changes": rng.choice([[c1, c2], [c2, c1]]), "kind": "jobs"})
            break
    # the steps of a journey in another order (same members: only the order of the list changes)
    for p in spec["system"]["usage_patterns"]:
        ujn = spec["patterns"][p]["usage_journey"]
        steps_ = spec["journeys"][ujn]["uj_steps"]
        if len(steps_) >= 2:
            perm = list(reversed(steps_)) if rng.random() < 0.5 else steps_[1:] + steps_[:1]
            if perm != steps_:
                ops.append({"op": "setlist", "kind": "journeys", "name": ujn, "attr": "uj_steps", "items": perm})
                break
    # the type of a server changed in place (no fixed count: a fixed count is only legal on-premise)
    svs = [n_ for n_ in spec["servers"] if n_ in reach_all and spec["servers"][n_].get("fixed_nb_of_instances") is None]
    if svs:
        n_ = rng.choice(sorted(svs))
        cur = spec["servers"][n_]["server_type"]
        ops.append({"op": "settype", "kind": "servers", "name": n_, "value": rng.choice([t for t in ("autoscaling", "on-premise", "serverless") if t != cur])})
    # the time zone of a country changed in place, the hourly input of a usage pattern given another length or start
    cs = sorted({spec["patterns"][p]["country"] for p in spec["system"]["usage_patterns"]})
    if cs:
        c_ = rng.choice(cs)
        ops.append({"op": "settz", "kind": "countries", "name": c_, "value": rng.choice([z for z in specgen.ZONES if z != spec["countries"][c_]["timezone"]])})
    pn_ = rng.choice(list(spec["system"]["usage_patterns"]))
    h_ = spec["patterns"][pn_]["hourly_usage_journey_starts"]
    # (same length: the library refuses to compare, hence to assign, an hourly input of another length — a valid edit
    # refused, which none of the properties forbids)
    st_ = list(h_["start"])
    st_[2] = max(1, min(27, st_[2] + rng.choice([-1, 1])))
    if st_ != list(h_["start"]):
        ops.append({"op": "sethourly", "kind": "patterns", "name": pn_, "values": [round(rng.uniform(0.5, 400), 2) for _ in h_["values"]], "start": st_})
    # the only job of a server moved to another server: the first one (and its storage) is left without any load
    lone = lone_job_move(spec, rng)
    if lone:
        ops.append(lone)
    # a server moved to a storage that no server uses
    free_st = sorted(st_ for st_ in spec["storages"] if all(sv_["storage"] != st_ for sv_ in spec["servers"].values()))
    svs_r = sorted(s_ for s_ in spec["servers"] if s_ in reach_all)
    if free_st and svs_r:
        ops.append({"op": "setlink", "kind": "servers", "name": rng.choice(svs_r), "attr": "storage", "target": rng.choice(free_st)})
    # the last step of a journey that still calls jobs loses them: the journey, hence its network, carries no job any more
    for p in spec["system"]["usage_patterns"]:
        ujn = spec["patterns"][p]["usage_journey"]
        with_jobs = [s_ for s_ in spec["journeys"][ujn]["uj_steps"] if spec["steps"][s_]["jobs"]]
        if len(set(with_jobs)) == 1 and len(spec["system"]["usage_patterns"]) >= 2:
            ops.append({"op": "setlist", "kind": "steps", "name": with_jobs[0], "attr": "jobs", "items": []})
            break
    # a usage pattern taken out of the system, or put (back) into it
    sys_pats = spec["system"]["usage_patterns"]
    outside = [p for p in spec["patterns"] if p not in sys_pats and spec["patterns"][p]["devices"]]
    if len(sys_pats) >= 2 and not guarded:      # D27: outside the domain in which the statement holds
        k_ = rng.randrange(len(sys_pats))
        ops.append({"op": "setlist", "kind": "system", "name": "__system__", "attr": "usage_patterns", "items": sys_pats[:k_] + sys_pats[k_ + 1:]})
    if outside:
        ops.append({"op": "setlist", "kind": "system", "name": "__system__", "attr": "usage_patterns", "items": sys_pats + [rng.choice(outside)]})
    # a storing job that becomes a deleting job (and back), when the storage starts from a large base need
    for jn, j in spec["jobs"].items():
        st_ = spec["storages"][spec["servers"][j["server"]]["storage"]]
        if jn in reach_all and j["data_stored"]["m"] != 0 and st_["base_storage_need"]["u"] == "TB" and st_["base_storage_need"]["m"] >= 50:
            ops.append({"op": "setq", "kind": "jobs", "name": jn, "param": "data_stored", "value": {"m": -j["data_stored"]["m"], "u": j["data_stored"]["u"]}})
            break
    # a journey that goes through one of its steps once more (same members: only the multiplicity changes)
    for p in spec["system"]["usage_patterns"]:
        ujn = spec["patterns"][p]["usage_journey"]
        steps_ = spec["journeys"][ujn]["uj_steps"]
        if steps_ and len(steps_) < 5:
            ops.append({"op": "setlist", "kind": "journeys", "name": ujn, "attr": "uj_steps", "items": steps_ + [rng.choice(steps_)]})
            break
    if not ops:
        return None
    op = rng.choice(ops)
    if guarded and op["op"] in ("listop", "setlist"):
        sp2 = copy.deepcopy(spec)
        tmp = Live.__new__(Live)
        tmp.spec = sp2
        tmp.mirror(op)
        if history.has_shared_job(sp2):
            return None
    return op


def gen_op_once(rng, spec, guarded, shared):
    if rng.random() < 0.35:
        op = corner_ops(rng, spec, guarded)
        if op and not (guarded and shared and op["kind"] not in ("servers", "storages", "networks", "devices")):
            return op
    if rng.random() < 0.2:
        # several inputs changed in one update (grouped ModelingUpdate)
        kinds = ["servers", "storages", "networks", "devices"] if (guarded and shared) else None
        changes, seen = [], set()
        for _ in range(rng.choice([2, 2, 3])):
            c = history.gen_numeric_edit(rng, spec, kinds=kinds) if (rng.random() < 0.8 or (guarded and shared)) else history.gen_hourly_edit(rng, spec)
            if c and (c["name"], c.get("param", "hourly")) not in seen:
                seen.add((c["name"], c.get("param", "hourly")))
                changes.append(c)
        if len(changes) >= 2:
            return {"op": "group", "changes": changes}
    for _ in range(30):
        r = rng.random()
        if guarded and shared:
            # D2/D13: with a job reachable from several usage patterns only inputs downstream of the
            # per-usage-pattern dicts are inside the proved domain
            op = history.gen_numeric_edit(rng, spec, kinds=["servers", "storages", "networks", "devices"])
        elif r < 0.45:
            op = history.gen_numeric_edit(rng, spec)
        elif r < 0.6:
            op = history.gen_hourly_edit(rng, spec)
        else:
            op = history.gen_link_edit(rng, spec)
            if op and guarded:
                # D3: re-pointing a pattern away from a journey without jobs; D2/D13: edits that create sharing
                if op["op"] == "setlink" and op["attr"] == "usage_journey" and not history.journey_jobs(
                        spec, spec["patterns"][op["name"]]["usage_journey"]):
                    continue
                if op.get("attr") == "uj_steps" and not history.journey_jobs(spec, op["name"]):
                    continue      # D3, second facet: a jobless journey gains its first jobs
                sp2 = copy.deepcopy(spec)
                tmp = Live.__new__(Live)
                tmp.spec = sp2
                tmp.mirror(op)
                if history.has_shared_job(sp2):
                    continue
        if op:
            return op
    return None


def drain_ops(spec):
    """the edits that empty, one step after the other, the job lists of the journey of a usage pattern whose network no
    other usage pattern uses (and whose journey and steps are its own)"""
    pats = spec["system"]["usage_patterns"]
    if len(pats) < 2:
        return []
    for p in pats:
        net, ujn = spec["patterns"][p]["network"], spec["patterns"][p]["usage_journey"]
        if any(q != p and (spec["patterns"][q]["network"] == net or spec["patterns"][q]["usage_journey"] == ujn) for q in spec["patterns"]):
            continue
        steps = list(dict.fromkeys(spec["journeys"][ujn]["uj_steps"]))
        if any(s_ in j["uj_steps"] for jn, j in spec["journeys"].items() if jn != ujn for s_ in steps):
            continue
        with_jobs = [s_ for s_ in steps if spec["steps"][s_]["jobs"]]
        if with_jobs:
            return [{"op": "setlist", "kind": "steps", "name": s_, "attr": "jobs", "items": []} for s_ in with_jobs]
    return []


def edit_vs_rebuild_shard(args):
    """C01: after every accepted edit of a random history the live system equals a fresh build"""
    seed, n_hist, n_ops, guarded, genkw = args
    rng = random.Random(seed)
    out = {"histories": 0, "steps": 0, "violations": [], "ops": {}, "refused": {}, "samples": [], "hashes": [],
           "undo_checks": 0, "shared": 0}
    for h in range(n_hist):
        spec = specgen.gen_safe_spec(rng, realsys.unit_info, **genkw)
        if guarded and h % 2 == 0:
            if history.has_shared_job(spec):
                spec = specgen.unshare_jobs(spec)      # own journey, steps and jobs per usage pattern
        cornered = (h % 4 == 1)
        if cornered:
            sp2 = specgen.plant_corners(spec, rng)
            if specgen.spec_is_safe(sp2, realsys.unit_info) and not (guarded and history.has_shared_job(sp2)):
                spec = sp2
            else:
                cornered = False
        if h % 3 == 2 and len(spec["system"]["usage_patterns"]) >= 2 and not drain_ops(spec):
            # the history that drains a usage pattern needs one that has its network to itself: the last one gets a network of its own
            sp2 = copy.deepcopy(spec)
            pl = sp2["system"]["usage_patterns"][-1]
            n_old = sp2["patterns"][pl]["network"]
            if any(q != pl and sp2["patterns"][q]["network"] == n_old for q in sp2["patterns"]):
                n_new = f"n{len(sp2['networks'])}"
                sp2["networks"][n_new] = copy.deepcopy(sp2["networks"][n_old])
                sp2["networks"][n_new].pop("display_name", None)
                sp2["patterns"][pl]["network"] = n_new
                if drain_ops(sp2):
                    spec = sp2
        try:
            with watchdog(60):
                live = Live(spec)
        except Exception as e:  # noqa
            continue
        out["histories"] += 1
        out["cornered"] = out.get("cornered", 0) + int(cornered)
        out["shared"] += int(history.has_shared_job(spec))
        initial = totals_snapshot(live.rs.system)
        hist_ops = []
        # every third history starts by taking the jobs out of a usage pattern that has its network to itself, step by
        # step: that network ends up carrying no job at all
        drain = drain_ops(live.spec) if h % 3 == 2 else []
        # every third history starts by carrying a later job of a journey across a whole-hour boundary, back, and across again
        if h % 3 == 0 and not (guarded and history.has_shared_job(live.spec)):
            drain = hour_crossing_ops(live.spec, rng)
        for step in range(n_ops + len(drain)):
            op = drain.pop(0) if drain else None
            if op is None and cornered and step < 2:
                op = corner_ops(rng, live.spec, guarded)
            if op is None:
                op = gen_op(rng, live.spec, guarded)
            if op is None or not safe_after(live, op):
                continue
            if op["op"] == "setq" and live.spec_entry(op.get("kind") or history.kind_of(live.spec, op["name"]), op["name"]).get(op["param"]) == op["value"]:
                continue      # (a scripted edit met after an undo that already restored that value: assigning an equal value is skipped by design)
            before_tot = totals_snapshot(live.rs.system)
            before_obs = live.rs.observe()
            before_spec = copy.deepcopy(live.spec)
            st, err = live.apply(op)
            lab = op_label(op)
            hist_ops.append(op)
            if st == "err":
                out["refused"][err] = out["refused"].get(err, 0) + 1
                if err == "hang":
                    out["violations"].append({"signature": f"C01:hang:{lab}", "detail": "the edit does not terminate",
                                              "replay": {"spec": spec, "ops": list(hist_ops)}})
                break      # a refused edit ends the history (what happens then is C14 / C15)
            out["steps"] += 1
            out["ops"][lab] = out["ops"].get(lab, 0) + 1
            why, fresh = compare_with_fresh(live)
            if why:
                sig = stale_signature(before_spec, live.spec, op)
                out["violations"].append({"signature": sig, "detail": why, "replay": {"spec": spec, "ops": list(hist_ops)}})
                break
            sysobj = live.rs.system
            prev = {"energy": {k: realsys.canon(v) for k, v in sysobj.previous_total_energy_footprints_sum_over_period.items()},
                    "fabrication": {k: realsys.canon(v) for k, v in sysobj.previous_total_fabrication_footprints_sum_over_period.items()}}
            if op["op"] != "recompute" and not totals_equal(prev, before_tot):
                out["violations"].append({"signature": f"C01:previous-totals:{lab}", "detail": "previous_* totals differ from the totals just before the edit",
                                          "replay": {"spec": spec, "ops": list(hist_ops)}})
            init_now = {"energy": {k: realsys.canon(v) for k, v in sysobj.initial_total_energy_footprints_sum_over_period.items()},
                        "fabrication": {k: realsys.canon(v) for k, v in sysobj.initial_total_fabrication_footprints_sum_over_period.items()}}
            if not totals_equal(init_now, initial):
                out["violations"].append({"signature": "C01:initial-totals", "detail": "initial_* totals changed", "replay": {"spec": spec, "ops": list(hist_ops)}})
            # undo: re-assigning the previous value restores the previous footprints
            if op["op"] in ("setq", "sethourly", "setlink", "setlist") and rng.random() < 0.3:
                kind = op.get("kind") or "patterns"
                e = before_spec["system"] if kind == "system" else before_spec[kind][op["name"]]
                if op["op"] == "setq":
                    undo = dict(op, value=e[op["param"]])
                elif op["op"] == "sethourly":
                    undo = dict(op, values=e["hourly_usage_journey_starts"]["values"])
                    if "start" in op:
                        undo["start"] = list(e["hourly_usage_journey_starts"]["start"])
                elif op["op"] == "setlink":
                    undo = dict(op, target=e[op["attr"]])
                else:
                    undo = dict(op, items=e[op["attr"]])
                if not guarded or not ((op["op"] == "setlink" and op["attr"] == "usage_journey" and not history.journey_jobs(live.spec, live.spec["patterns"][op["name"]]["usage_journey"]))
                                       or (op.get("attr") == "uj_steps" and not history.journey_jobs(live.spec, op["name"]))):
                    spec_before_undo = copy.deepcopy(live.spec)
                    st2, err2 = live.apply(undo)
                    hist_ops.append(undo)
                    out["undo_checks"] += 1
                    if st2 == "ok":
                        names = live.reachable_names()
                        a = {k: v for k, v in live.rs.observe().items() if k[0] in names}
                        b = {k: v for k, v in before_obs.items() if k[0] in names}
                        sens = sysoracles.ceil_sensitive(live.spec, a) | sysoracles.ceil_sensitive(live.spec, b)
                        if sens:
                            sens |= {"__system__"}
                        why = sysoracles.obs_diff(sysoracles.drop_objects(a, sens), sysoracles.drop_objects(b, sens))
                        if why:
                            # the undo is an edit like any other: when it meets the trigger of a known finding (unguarded
                            # histories: re-pointing away from a journey without jobs, D3; shared jobs, D2; …) it carries that signature
                            usig = stale_signature(spec_before_undo, live.spec, undo)
                            out["violations"].append({"signature": f"C01:undo-does-not-restore:{lab}" if usig == f"C01:stale-after-{op_label(undo)}" else usig,
                                                      "detail": why,
                                                      "replay": {"spec": spec, "ops": list(hist_ops)}})
                            break
        out["hashes"].append(sysoracles_hash(spec, hist_ops))
        if len(out["samples"]) < 1:
            out["samples"].append({"spec_stats": {k: len(v) for k, v in spec.items() if isinstance(v, dict)},
                                   "ops": [op_label(o) for o in hist_ops]})
    return out


def sysoracles_hash(spec, ops):
    import hashlib
    return hashlib.sha1(json.dumps([spec, ops], sort_keys=True, default=str).encode()).hexdigest()[:12]


def replay_history(spec, ops):
    """re-run a recorded history; returns the list of (op label, outcome, diff-with-fresh)"""
    live = Live(spec)
    out = []
    for op in ops:
        st, err = live.apply(op)
        if st == "err":
            out.append((op_label(op), err, None))
            break
        why, _ = compare_with_fresh(live)
        out.append((op_label(op), "ok", why))
    return out


# ---------------------------------------------------------------------------------------------
# K-graph: the real graph and chains vs the Lean port and the verified checker
# ---------------------------------------------------------------------------------------------
def kgraph_shard(args):
    from harness import graphx
    from harness.common import run_lean
    seed, n, genkw = args
    rng = random.Random(seed)
    out = {"cases": 0, "starts": 0, "disagreements": [], "rejected_guarded": [], "rejected_shared": 0, "hangs": 0,
           "graph_issues": [], "samples": []}
    reqs, meta = [], []
    for i in range(n):
        spec = specgen.gen_safe_spec(rng, realsys.unit_info, **genkw)
        if i % 2 == 0:
            if history.has_shared_job(spec):
                spec = specgen.unshare_jobs(spec)      # own journey, steps and jobs per usage pattern
        try:
            with watchdog(60):
                live = Live(spec)
                # a short history first: the graph after edits is what matters
                for _ in range(rng.randint(0, 3)):
                    op = gen_op(rng, live.spec, True)
                    if op and safe_after(live, op):
                        if live.apply(op)[0] == "err":
                            break
        except Exception:  # noqa
            continue
        if any(l[1] == "err" for l in live.log):
            continue        # a refused edit: the state afterwards is the subject of C14 / C15, not of this suite
        nodes = graphx.export(live.rs)
        issues = graphx.check_graph(nodes)
        if issues:
            out["graph_issues"].append({"spec": spec, "ops": [l[0] for l in live.log], "issues": issues[:3]})
        starts = [nd for nd in nodes if nd["live"] and not nd["calc"] and nd["chi"]]
        reals = [graphx.real_chain(nd) for nd in starts]
        # grouped updates: the chains of several changed inputs concatenated and optimised by the real code
        groups, greals = [], []
        ok_idx = [k for k, r in enumerate(reals) if isinstance(r, list)]
        for _ in range(min(6, len(ok_idx))):
            grp = rng.sample(ok_idx, min(len(ok_idx), rng.choice([2, 2, 3])))
            try:
                from efootprint.abstract_modeling_classes.explainable_object_base_class import optimize_attr_updates_chain
                from efootprint.abstract_modeling_classes.explainable_object_dict import ExplainableObjectDict
                with watchdog(20):
                    allc = sum([starts[k]["obj"].attr_updates_chain for k in grp], start=[])
                    opt = optimize_attr_updates_chain(allc)
                    greals.append([(c.id, isinstance(c, ExplainableObjectDict)) for c in opt])
                    groups.append(grp)
            except Exception:  # noqa
                pass
        reqs.append({"cmd": "chain", "g": graphx.to_lean(nodes), "starts": [nd["uid"] for nd in starts],
                     "groups": [[starts[k]["uid"] for k in grp] for grp in groups], "rk": graphx.rank(nodes)})
        meta.append((spec, [l[0] for l in live.log], nodes, starts, reals, history.has_shared_job(live.spec), groups, greals, issues))
        out["cases"] += 1
    answers = run_lean(reqs) if reqs else []
    for (spec, ops, nodes, starts, reals, shared, groups, greals, issues), ans in zip(meta, answers):
        if "bad" in ans:
            out["disagreements"].append({"why": "driver: " + ans["bad"], "spec": spec})
            continue
        # the invariant of the inspectable graph, evaluated by Lean on the exported graph vs the direct Python check
        if ans.get("inv") is not None and bool(ans["inv"]) != (not issues):
            out["disagreements"].append({"why": f"graph invariant: Lean says {ans['inv']} (bidirectional {ans.get('bidirectional')}, live {ans.get('liveOnly')}, "
                                                f"acyclic {ans.get('acyclic')}), direct check finds {issues[:2]}", "spec": spec, "ops": ops})
        elif ans.get("inv") is False:
            out["rejected_guarded"].append({"why": f"graph invariant violated after an accepted history: {issues[:2]}", "spec": spec, "ops": ops})
        sidname = {nd["sid"]: nd["sname"] for nd in nodes}
        # hypotheses of `code_chain_accepted` / `code_update_order_correct`, evaluated by Lean on this real graph
        hyp = bool(ans.get("wfOk")) and bool(ans.get("ancInChiOk")) and bool(ans.get("rankOk"))
        out["hyp_met" if hyp else ("hyp_not_met_shared" if shared else "hyp_not_met_other")] = \
            out.get("hyp_met" if hyp else ("hyp_not_met_shared" if shared else "hyp_not_met_other"), 0) + 1
        if not hyp and not shared and not issues:
            out["disagreements"].append({"why": f"a healthy graph without shared job does not meet the theorem's hypotheses: wfOk {ans.get('wfOk')} "
                                                f"ancInChiOk {ans.get('ancInChiOk')} rankOk {ans.get('rankOk')}", "spec": spec, "ops": ops})
        if hyp:
            for nd, a in zip(starts, ans["chains"]):
                if a == "hang":
                    out["disagreements"].append({"why": f"the theorem's hypotheses hold but the port runs out of fuel on {nd['sname']} (contradicts code_chain_total)",
                                                 "spec": spec, "ops": ops})
                elif not a["ok"]:
                    out["disagreements"].append({"why": f"the theorem's hypotheses hold but the checker rejects the chain of {nd['sname']} (contradicts code_chain_accepted)",
                                                 "spec": spec, "ops": ops})
        for nd, r, a in zip(starts, reals, ans["chains"]):
            out["starts"] += 1
            if a == "hang" or r == "hang":
                out["hangs"] += 1
                if a != r and not (isinstance(r, str) and isinstance(a, str)):
                    out["disagreements"].append({"why": f"{nd['sname']}: real {'hangs' if r == 'hang' else 'returns'}, port {'exhausts fuel' if a == 'hang' else 'returns'}", "spec": spec, "ops": ops})
                continue
            if isinstance(r, str):
                out["disagreements"].append({"why": f"{nd['sname']}: real chain raises {r}", "spec": spec, "ops": ops})
                continue
            lean_chain = [(sidname[c[0]], bool(c[1])) for c in a["chain"]]
            if lean_chain != [tuple(x) for x in r]:
                out["disagreements"].append({"why": f"{nd['sname']}: port returns {len(lean_chain)} elements, real {len(r)}; first difference at "
                                                    f"{next((i for i, (x, y) in enumerate(zip(lean_chain, r)) if tuple(x) != tuple(y)), min(len(lean_chain), len(r)))}",
                                             "spec": spec, "ops": ops})
            if not a["ok"]:
                if shared:
                    out["rejected_shared"] += 1
                else:
                    out["rejected_guarded"].append({"why": f"verified checker rejects the update order of {nd['sname']}", "spec": spec, "ops": ops})
        for grp, gr, ga in zip(groups, greals, ans.get("groups", [])):
            out["starts"] += 1
            names = "+".join(starts[k]["sname"] for k in grp)
            if ga == "hang":
                out["disagreements"].append({"why": f"grouped {names}: port exhausts fuel, real returns", "spec": spec, "ops": ops})
                continue
            lean_chain = [(sidname[c[0]], bool(c[1])) for c in ga["chain"]]
            if lean_chain != [tuple(x) for x in gr]:
                out["disagreements"].append({"why": f"grouped update {names}: optimised chain differs (port {len(lean_chain)} elements, real {len(gr)}; first difference at "
                                                    f"{next((i for i, (x, y) in enumerate(zip(lean_chain, gr)) if tuple(x) != tuple(y)), min(len(lean_chain), len(gr)))})",
                                             "spec": spec, "ops": ops})
            if not ga["ok"]:
                if shared:
                    out["rejected_shared"] += 1
                else:
                    out["rejected_guarded"].append({"why": f"verified checker rejects the update order of the grouped update {names}", "spec": spec, "ops": ops})
        if len(out["samples"]) < 1:
            out["samples"].append({"nodes": len(nodes), "start_nodes": len(starts), "grouped": len(groups), "ops": [op_label(o) for o in ops]})
    return out


def live_accounting_shard(args):
    """C02 on systems reached by edits: after a short accepted history (corner edits first) the accounting identities
    are evaluated on the *live* system, not on a rebuild"""
    seed, n, genkw = args
    rng = random.Random(seed)
    out = {"cases": 0, "violations": [], "ops": {}, "evals": 0, "samples": []}
    for i in range(n):
        spec = specgen.gen_safe_spec(rng, realsys.unit_info, **genkw)
        spec = specgen.unshare_jobs(spec)
        if i % 2 == 0:
            sp2 = specgen.plant_corners(spec, rng)
            if specgen.spec_is_safe(sp2, realsys.unit_info) and not history.has_shared_job(sp2):
                spec = sp2
        move_storage = None
        if i % 4 == 2:
            sp3, move_storage = with_idle_jobs(spec, rng)
            if move_storage is not None and specgen.spec_is_safe(sp3, realsys.unit_info):
                spec = sp3
            else:
                move_storage = None
        try:
            with watchdog(60):
                live = Live(spec)
        except Exception:  # noqa
            continue
        ops = []
        failed = False
        for step in range(rng.randint(1, 3)):
            op = corner_ops(rng, live.spec, True) if step == 0 else None
            if step == 0 and i % 4 == 0:
                # structural growth: a job of a server the system does not use yet, placed in a step without jobs
                op = growth_op(live.spec, rng) or op
            if step == 0 and i % 4 == 2 and move_storage is not None:
                op = move_storage      # a server that also hosts jobs not placed in any step is moved to another storage
            if step == 0 and seed % 2 == 1:
                # (every other shard) a journey in which no time is spent is given time first: the corner edits are many
                # by now, and drawing one at random had made this one rare
                op = zero_time_op(live.spec, rng) or op
            if op is None:
                op = gen_op(rng, live.spec, True)
            if op is None or not safe_after(live, op):
                continue
            if live.apply(op)[0] == "err":
                failed = True
                break
            ops.append(op)
            out["ops"][op_label(op)] = out["ops"].get(op_label(op), 0) + 1
        if failed or not ops:
            continue
        out["cases"] += 1
        names = live.reachable_names()
        obs = {k: v for k, v in live.rs.observe().items() if k[0] in names}
        try:
            vs, ev = sysoracles.accounting(live.spec, "ok", obs, live.rs, rng)
        except KeyError:
            continue       # an object left the system during the history: nothing to account for
        out["evals"] += ev
        for v in vs:
            v["signature"] = v["signature"] + ":after-edits"
            v["replay"] = {"spec": spec, "ops": ops, "oracle": "accounting-live"}
            out["violations"].append(v)
        if len(out["samples"]) < 1:
            out["samples"].append({"history": [op_label(o) for o in ops]})
    return out


# ---------------------------------------------------------------------------------------------
# C18 — fixed point; computing never alters inputs
# ---------------------------------------------------------------------------------------------
def input_snapshot(live):
    out = {}
    for n, o in live.rs.objs.items():
        for attr, v in o.__dict__.items():
            if attr in o.calculated_attributes:
                continue
            c = None
            try:
                from efootprint.abstract_modeling_classes.explainable_object_base_class import ExplainableObject
                if isinstance(v, ExplainableObject):
                    c = realsys.canon(v)
            except Exception:  # noqa
                pass
            if c is not None and c.get("t") in ("q", "h"):
                out[(n, attr, "")] = c
    return out


def fixed_point_shard(args):
    seed, n, genkw = args
    rng = random.Random(seed)
    out = {"cases": 0, "evals": 0, "violations": [], "samples": [], "hashes": []}
    for i in range(n):
        spec = specgen.gen_safe_spec(rng, realsys.unit_info, **genkw)
        try:
            with watchdog(60):
                if i % 2 == 1 and history.has_shared_job(spec):
                    spec = specgen.unshare_jobs(spec)
                if i % 4 == 1:
                    sp2 = specgen.plant_corners(spec, rng)       # incl. a usage pattern outside the system, a spare server …
                    if specgen.spec_is_safe(sp2, realsys.unit_info) and not history.has_shared_job(sp2):
                        spec = sp2
                live = Live(spec)
                outside_ = [p for p in live.spec["patterns"] if p not in live.spec["system"]["usage_patterns"]]
                if i % 4 == 1 and outside_:
                    # the system's own input edited by plain assignment: one more usage pattern
                    live.apply({"op": "setlist", "kind": "system", "name": "__system__", "attr": "usage_patterns",
                                "items": live.spec["system"]["usage_patterns"] + [outside_[0]]})
                if i % 4 == 3:
                    # a server computed as serverless, then given another type in place
                    reach_ = reachable_spec_names(live.spec)
                    sls = sorted(s_ for s_, o_ in live.spec["servers"].items() if s_ in reach_ and o_["server_type"] == "serverless"
                                 and o_.get("fixed_nb_of_instances") is None)
                    if sls:
                        live.apply({"op": "settype", "kind": "servers", "name": rng.choice(sls), "value": rng.choice(["autoscaling", "on-premise"])})
                whatifs = []
                for k_ in range(rng.randint(0, 3)):
                    # in every other case the history starts with an edit aimed at a corner (reordered steps, …)
                    op = corner_ops(rng, live.spec, True) if (i % 2 == 1 and k_ == 0) else None
                    if op is None:
                        op = gen_op(rng, live.spec, True)
                    if i % 2 == 1 and rng.random() < 0.4 and not history.has_shared_job(live.spec):
                        # a dated what-if made (and rolled back) before the edit: computing it leaves the model as it was
                        from harness import sim_oracle as so_
                        from efootprint.abstract_modeling_classes.modeling_update import ModelingUpdate
                        o2 = history.gen_numeric_edit(rng, live.spec, kinds=["jobs", "steps", "servers", "storages"])
                        if o2 and o2["name"] in reachable_spec_names(live.spec) and safe_after(live, o2) and o2["param"] != "fixed_nb_of_instances":
                            sim_ = ModelingUpdate(so_.build_changes(live, [o2]), simulation_date=so_.period(live)[0])
                            if rng.random() < 0.5:
                                sim_.set_updated_values()
                                sim_.reset_values()
                            whatifs.append(op_label(o2))
                    if op and safe_after(live, op):
                        if live.apply(op)[0] == "err":
                            break
        except Exception:  # noqa
            continue
        if live.log and live.log[-1][1] == "err":
            continue
        out["cases"] += 1
        out["whatifs"] = out.get("whatifs", 0) + len(whatifs)
        ops = [l[0] for l in live.log] + [{"op": "whatif-before-an-edit", "label": w} for w in whatifs]
        before = live.rs.observe()
        inputs_before = input_snapshot(live)
        names = [n_ for n_ in live.reachable_names() if live.rs.objs[n_].calculated_attributes]
        rng.shuffle(names)
        subset = names[: rng.randint(1, len(names))]
        actions = []
        try:
            with watchdog(120):
                # reading, explaining, exporting — on the computed model
                for (o, a, k), v in list(before.items())[:40]:
                    val = getattr(live.rs.objs[o], a)
                    if hasattr(val, "explain") and getattr(val, "label", None) and (val.left_parent is not None or val.right_parent is not None):
                        val.explain()
                from efootprint.api_utils.system_to_json import system_to_json
                system_to_json(live.rs.system, save_calculated_attributes=rng.random() < 0.5)
                s = live.rs.system
                _ = (s.total_energy_footprint_sum_over_period, s.total_fabrication_footprint_sum_over_period,
                     s.energy_footprint_sum_over_period, s.fabrication_footprint_sum_over_period)
                actions += ["explain", "to_json", "aggregates"]
                # explicit recomputation requests, any subset, any order: whole objects …
                for n_ in subset:
                    live.rs.objs[n_].compute_calculated_attributes()
                    actions.append("compute:" + n_)
                # … and single attributes (the granularity at which edits recompute)
                pairs = [(n_, a) for n_ in names for a in live.rs.objs[n_].calculated_attributes]
                rng.shuffle(pairs)
                for n_, a in pairs[: rng.randint(1, 6)]:
                    getattr(live.rs.objs[n_], f"update_{a}")()
                    actions.append(f"update:{n_}.{a}")
                if rng.random() < 0.5:
                    live.rs.system.compute_calculated_attributes()
                    actions.append("compute:system")
                system_to_json(live.rs.system, save_calculated_attributes=False)
        except Exception as e:  # noqa
            out["violations"].append({"signature": f"C18:raises:{err_enum(e)}", "detail": f"{actions[-1:]} then {type(e).__name__}: {e}",
                                      "replay": {"spec": spec, "ops": ops, "recompute": subset}})
            continue
        out["evals"] += len(actions)
        after = live.rs.observe()
        why = sysoracles.obs_diff(before, after, rel=1e-12)
        if why:
            out["violations"].append({"signature": "C18:not-a-fixed-point", "detail": why,
                                      "replay": {"spec": spec, "ops": ops, "recompute": subset}})
        why = sysoracles.obs_diff(inputs_before, input_snapshot(live), rel=1e-12)
        if why:
            out["violations"].append({"signature": "C18:input-changed", "detail": why,
                                      "replay": {"spec": spec, "ops": ops, "recompute": subset}})
        out["hashes"].append(sysoracles_hash(spec, ops + subset))
        if len(out["samples"]) < 1:
            out["samples"].append({"ops": [op_label(o) for o in ops], "recomputed": subset, "actions": actions[-4:]})
    return out

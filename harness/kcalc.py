"""K-calc: random systems built for real vs the Lean `computeSystem` (every calculated attribute)."""
import random
import traceback

from harness.common import watchdog, run_lean, err_enum
from harness import realsys, specgen, leanio


def real_outcome(spec):
    """('ok', observations) or ('err', enum) of building the spec with the real code"""
    try:
        with watchdog(60):
            rs = realsys.RealSystem(spec)
            reach = {o.id for o in rs.system.all_linked_objects} | {rs.system.id}
            names = {n for n, o in rs.objs.items() if o.id in reach}
            obs = {k: v for k, v in rs.observe().items() if k[0] in names}
            return "ok", obs, rs
    except Exception as e:  # noqa
        return "err", err_enum(e), None


def compare_case(spec, py_status, py_obs, lean_ans, ceil_guard=True):
    """list of disagreement strings (empty = agree), and the number of inconclusive observations"""
    dis = []
    inconclusive = 0
    if "bad" in lean_ans:
        return [f"driver rejected the spec: {lean_ans['bad']}"], 0
    if "err" in lean_ans:
        if py_status == "err" and py_obs == lean_ans["err"]:
            return [], 0
        if lean_ans["err"] == "fixed-instances" and py_status == "ok" and fixed_at_boundary(spec, py_obs):
            return [], 1      # the user-fixed count equals a need that is an integer up to float rounding: discontinuity
        refusals = {"shape", "neg-storage", "fixed-instances", "capacity"}
        if py_status == "err" and py_obs in refusals and lean_ans["err"] in refusals and \
                len(spec.get("storages", {})) + len(spec.get("servers", {})) >= 2:
            # both refuse the model, for two reasons that are both present (a positional comparison over different
            # windows, D15; a negative cumulative need; a fixed count or a capacity below the need of another object): which
            # one is met first depends on the order in which servers and storages are visited (a set in the real code) —
            # not a disagreement about any value
            return [], 1
        return [f"model raises {lean_ans['err']} but real code gives {py_status}:{py_obs if py_status=='err' else 'values'}"], 0
    lean_obs = {(o["o"], o["a"], o["k"]): leanio.lean_val(o["v"]) for o in lean_ans["ok"]}
    if py_status == "err":
        if py_obs == "neg-storage":
            # sign test at a discontinuity: the exact cumulative need touches 0 (float cancellation, D4)
            for (o, a, k), v in lean_obs.items():
                if a == "full_cumulative_storage_need" and v is not None:
                    mx = max([abs(x) for x in v["vs"]] + [0])
                    if min(v["vs"]) <= mx * 10 ** -9:
                        return [], 1
        if py_obs == "fixed-instances" and fixed_at_boundary(spec, lean_obs):
            return [], 1
        return [f"real code raises {py_obs} but the model computes values"], 0
    # ceil/floor discontinuity guard: hours at which the model's raw instance count is (nearly) an integer
    near = {}
    for (o, a, k), v in lean_obs.items():
        if a == "raw_nb_of_instances":
            ks = leanio.near_integer_keys(v)
            if ks:
                is_onprem = spec["servers"].get(o, {}).get("server_type") == "on-premise"
                near[o] = set(v["ks"]) if is_onprem and v is not None else ks
    # storage energy depends on its own instance count only; a server's count does not feed its storage
    all_near = set().union(*near.values()) if near else set()
    for key, pv in py_obs.items():
        if key not in lean_obs:
            dis.append(f"{key}: not produced by the model")
            continue
        why = leanio.compare_vals(pv, lean_obs[key])
        if why:
            guard = near.get(key[0], set()) if key[0] != "__system__" else all_near
            if guard and getattr(why, "keys", None) and set(why.keys) <= guard:
                inconclusive += 1
                continue
            dis.append(f"{key}: {why}")
    reach = {k[0] for k in py_obs}
    for key in lean_obs:
        if key not in py_obs and key[0] in reach:
            dis.append(f"{key}: produced by the model only")
    return dis, inconclusive


def fixed_at_boundary(spec, obs):
    """some user-fixed instance count equals the peak raw need, which is an integer up to 1e-9 relative"""
    for kind in ("servers", "storages"):
        for name, o in spec[kind].items():
            f = o.get("fixed_nb_of_instances")
            raw = obs.get((name, "raw_nb_of_instances", ""))
            if not f or raw is None or raw.get("t") != "h" or not raw.get("vs"):
                continue
            peak = max(float(v) for v in raw["vs"]) * float(raw.get("scale", 1))
            if abs(peak - round(peak)) <= 1e-9 * max(1.0, abs(peak)) and round(peak) == round(float(f["m"])):
                return True
    return False


def run(seed, n, **genkw):
    rng = random.Random(seed)
    cases = []
    for i in range(n):
        spec = specgen.gen_safe_spec(rng, realsys.unit_info, **genkw)
        st, obs, _ = real_outcome(spec)
        cases.append((spec, st, obs))
    answers = run_lean([{"cmd": "calc", "spec": leanio.spec_to_lean(s, realsys.unit_info)} for s, _, _ in cases])
    results = []
    for (spec, st, obs), ans in zip(cases, answers):
        dis, inc = compare_case(spec, st, obs, ans)
        results.append({"spec": spec, "py_status": st, "py_err": obs if st == "err" else None,
                        "disagreements": dis, "n_obs": len(obs) if st == "ok" else 0})
    return results


if __name__ == "__main__":
    import sys, json
    res = run(int(sys.argv[1]), int(sys.argv[2]))
    bad = [r for r in res if r["disagreements"]]
    print(len(res), "cases", len(bad), "disagree", sum(r["n_obs"] for r in res), "observations",
          sum(1 for r in res if r["py_status"] == "err"), "py errors")
    for r in bad[:5]:
        print(json.dumps(r["disagreements"][:6], indent=1))

"""C05 / C06 oracles: dated what-if simulations on live real systems."""
import copy
import random
from datetime import datetime, timedelta, timezone

from harness.common import watchdog, err_enum
from harness import realsys, specgen, history, snapshot, sysoracles
from harness.history import Live
from harness import engine_oracles as eo
from efootprint.abstract_modeling_classes.modeling_update import ModelingUpdate
from efootprint.abstract_modeling_classes.explainable_objects import ExplainableHourlyQuantities, EmptyExplainableObject


def period(live):
    """(first hour, last hour, latest first-to-end: min over patterns of their last hour) of the UTC starts"""
    firsts, lasts = [], []
    for pn in live.spec["system"]["usage_patterns"]:
        idx = live.rs.objs[pn].utc_hourly_usage_journey_starts.value.index
        firsts.append(idx.min().to_pydatetime())
        lasts.append(idx.max().to_pydatetime())
    return min(firsts), max(lasts), min(lasts)


def gen_changes(rng, live, guarded=True):
    ops = []
    seen = set()
    for _ in range(rng.choice([1, 1, 2, 3])):
        op = None
        for _ in range(20):
            shared = history.has_shared_job(live.spec)
            cand = eo.gen_op_once(rng, live.spec, guarded, shared)
            if cand and cand["op"] in ("setq", "sethourly", "setlist", "setlink") and cand["name"] in eo.reachable_spec_names(live.spec):
                key = (cand["name"], live.attr_of(cand))
                if key not in seen and eo.safe_after(live, cand):
                    seen.add(key)
                    op = cand
                    break
        if op:
            ops.append(op)
    return ops


def build_changes(live, ops):
    return [[getattr(live.obj(o["name"]), live.attr_of(o)), live.new_value(o)] for o in ops]


def slot_of(v):
    """(container id, attribute, dict key) of an attached value"""
    key = None
    try:
        if v.dict_container is not None:
            k = v.key_in_dict
            key = getattr(k, "id", str(k))
    except Exception:  # noqa
        key = "?"
    return (v.modeling_obj_container.id, v.attr_name_in_mod_obj_container, key)


def current_content(slots):
    """python identity of the object currently sitting in each slot"""
    out = {}
    return out


def toggle_correspondence(live, sim, word):
    """Model D's slot store vs the real objects: after every toggle, which object sits in which slot"""
    from harness.common import run_lean
    prev, new = sim.all_previous_obj_linked_to_mod_obj, sim.all_new_obj_linked_to_mod_obj
    objs_by_id = {o.id: o for o in live.rs.objs.values()}
    slot_ids, node_ids = {}, {}

    def nid(o):
        return node_ids.setdefault(id(o), len(node_ids) + 1)
    slots = []
    for p in prev:
        sl = slot_of(p)
        slot_ids.setdefault(sl, len(slot_ids) + 1)
        slots.append(sl)
    if len(set(slots)) != len(slots):
        return ["the previous objects of the simulation do not occupy pairwise distinct slots"], 0

    def read(sl):
        cont = objs_by_id.get(sl[0])
        if cont is None:
            return None
        v = cont.__dict__.get(sl[1])
        if sl[2] is not None and isinstance(v, dict):
            for k, e in v.items():
                if getattr(k, "id", str(k)) == sl[2]:
                    return e
            return None
        return v
    content = [[slot_ids[sl], nid(read(sl))] for sl in slots]
    pairs = [[nid(p), nid(n)] for p, n in zip(prev, new)]
    ans, = run_lean([{"cmd": "toggle", "content": content, "pairs": pairs, "word": word}])
    if "bad" in ans:
        return ["driver: " + ans["bad"]], 0
    dis = []
    for w, state in zip(word, ans["states"]):
        (sim.set_updated_values if w == "set" else sim.reset_values)()
        real = {slot_ids[sl]: node_ids.get(id(read(sl))) for sl in slots}
        model = {k: n for k, n in state}
        if real != model:
            bad = next(k for k in real if real[k] != model.get(k))
            sl = next(s_ for s_, i in slot_ids.items() if i == bad)
            dis.append(f"after {w}: slot {sl} holds object {real[bad]} in the real system, {model.get(bad)} in the model")
            break
    return dis, len(word)


def shard(args):
    seed, n, which = args
    rng = random.Random(seed)
    out = {"cases": 0, "sims_ok": 0, "sims_raised": {}, "violations": [], "samples": [], "hashes": [], "dates": {}, "toggles": 0,
           "disagreements": [], "corr": 0}
    for i in range(n):
        spec = specgen.gen_safe_spec(rng, realsys.unit_info, allow_delete=False, allow_dumps=False)
        if i % 2 == 0 or i % 4 == 1:
            if history.has_shared_job(spec):
                spec = specgen.unshare_jobs(spec)      # own journey, steps and jobs per usage pattern
        spring = None
        if i % 4 == 3:
            # the first usage pattern lives in a zone that moves its clock forward a few hours after the start of its input:
            # its local series has one row more than there are UTC hours (the skipped hour is merged into the next one)
            zone, (yy, mm, dd) = rng.choice([("Europe/Paris", (2025, 3, 29)), ("America/New_York", (2025, 3, 8)),
                                             ("Australia/Sydney", (2025, 10, 4)), ("Europe/London", (2025, 3, 29))])
            sp2 = copy.deepcopy(spec)
            p0 = sp2["system"]["usage_patterns"][0]
            c0 = sp2["patterns"][p0]["country"]
            if sum(1 for q_ in sp2["patterns"].values() if q_["country"] == c0) > 1:
                c0n = f"c{len(sp2['countries'])}"
                sp2["countries"][c0n] = copy.deepcopy(sp2["countries"][c0])
                sp2["patterns"][p0]["country"] = c0 = c0n
            sp2["countries"][c0]["timezone"] = zone
            nvals = rng.randint(24, 40)
            sp2["patterns"][p0]["hourly_usage_journey_starts"] = {
                "start": [yy, mm, dd, rng.randrange(12, 24)], "unit": "dimensionless",
                "values": [specgen.gen_decimal(rng, 0.5, 500, 2) for _ in range(nvals)]}
            if specgen.spec_is_safe(sp2, realsys.unit_info):
                spec, spring = sp2, p0
        try:
            with watchdog(60):
                live = Live(spec)
        except Exception:  # noqa
            continue
        ops = gen_changes(rng, live)
        if spring:
            # … and what is simulated is a change of that usage pattern's device list that brings no new member (another
            # order, a device dropped or listed twice): the pattern is recomputed from its local-time input
            devs = list(live.spec["patterns"][spring]["devices"])
            if len(devs) >= 2:
                new_devs = rng.choice([devs[::-1], devs[1:], devs + [devs[0]]])
            else:
                new_devs = devs + [devs[0]]
            if new_devs == devs:
                new_devs = devs + [devs[0]]
            ops = [{"op": "setlist", "kind": "patterns", "name": spring, "attr": "devices", "items": new_devs}] + [o for o in ops if o["op"] == "setq" and o["kind"] != "patterns"][:1]
        if not ops:
            continue
        pats = list(live.spec["system"]["usage_patterns"])
        if len(pats) >= 2 and i % 4 == 1:
            # a change of order only: the usage patterns are recomputed, no dependency is created
            perm = pats[:]
            while perm == pats:
                rng.shuffle(perm)
            ops = [{"op": "setlist", "kind": "system", "name": "__system__", "attr": "usage_patterns", "items": perm}] + [o for o in ops if o["op"] == "setq"][:1]
        first, last, min_last = period(live)
        # the modelled period as the code sees it: every hour at which some hourly value exists
        allk = [k for v in live.rs.observe().values() if v is not None and v["t"] == "h" for k in v["ks"]]
        last_all = datetime.fromtimestamp(max(allk), tz=timezone.utc) if allk else last
        first_all = datetime.fromtimestamp(min(allk), tz=timezone.utc) if allk else first
        kind = rng.choice(["first", "first", "interior", "interior", "pattern-end", "last", "before", "after", "naive", "failing"])
        if len(pats) >= 2 and i % 4 == 1:
            kind = rng.choice(["pattern-end", "pattern-end", "interior", "first"])
        if spring:
            kind = rng.choice(["after-clock-change", "after-clock-change", "first", "interior"])
        if kind == "after-clock-change":
            idx0 = live.rs.objs[spring].utc_hourly_usage_journey_starts.value.index
            f0, l0 = idx0.min().to_pydatetime(), idx0.max().to_pydatetime()
            date = min(l0, max(first, f0 + timedelta(hours=rng.randint(15, 23))))
        elif kind == "pattern-end":
            # the last hours of the usage pattern that ends first (all usage patterns still active)
            date = max(first, min_last - timedelta(hours=rng.randint(0, 13)))
        elif kind == "first":
            date = first
        elif kind == "interior":
            span = int((min_last - first).total_seconds() // 3600)
            date = first + timedelta(hours=rng.randint(1, max(1, span))) if span >= 1 else first
        elif kind == "last":
            date = last
        elif kind == "before":
            date = min(first, first_all) - timedelta(hours=rng.randint(1, 50))
        elif kind == "after":
            date = max(last, last_all) + timedelta(hours=rng.randint(1, 50))
        elif kind == "naive":
            date = first.replace(tzinfo=None)
        else:
            date = first
            # a change that makes recomputation fail: base RAM consumption above the server's capacity
            sv = next((s for s in eo.sysoracles.reachable(live.spec)[0]), None)
            if sv and live.spec["servers"][sv].get("cls", "Server") == "Server":
                ops = ops[:1] + [{"op": "setq", "kind": "servers", "name": sv, "param": "base_ram_consumption", "value": {"m": 1e6, "u": "GB"}}]
                ops = [o for j, o in enumerate(ops) if (o["name"], live.attr_of(o)) not in {(p["name"], live.attr_of(p)) for p in ops[:j]}]
        out["dates"][kind] = out["dates"].get(kind, 0) + 1
        out["cases"] += 1
        labels = [eo.op_label(o) for o in ops]
        # C05: only the D2 family (dict entries of one id handled as one) is a known cause of a changed baseline
        trig = ":shared-job" if history.has_shared_job(live.spec) else ""
        # C06 "hours before the date": one label, the first applicable known cause
        if any(o["op"] == "sethourly" for o in ops):
            trig6 = ":hourly-input-change"     # D26: an hourly input that is itself changed is not cut at the date
        elif any(o.get("attr") == "country" or o["op"] == "settz" for o in ops):
            trig6 = ":timezone-change"         # D21: local-time inputs are cut in the baseline zone, recomputed in the new one
        elif any(o["op"] == "setlink" or (o["op"] == "setlist" and set(o["items"]) - set(live.spec_entry(o["kind"], o["name"])[o["attr"]])) for o in ops):
            trig6 = ":link-change"             # D22: dependencies created by the change are unknown when ancestors are cut
        else:
            trig6 = trig                       # D2 family
        replay = {"spec": spec, "ops": ops, "date_kind": kind, "date": date.isoformat()}
        before = snapshot.deep(live.rs.objs)
        sim = None
        try:
            with watchdog(60):
                sim = ModelingUpdate(build_changes(live, ops), simulation_date=date)
            raised = None
        except Exception as e:  # noqa
            raised = err_enum(e)
        after = snapshot.deep(live.rs.objs)
        changed = snapshot.diff(before, after)
        if raised:
            out["sims_raised"][raised] = out["sims_raised"].get(raised, 0) + 1
        else:
            out["sims_ok"] += 1
        # ---- C05: the baseline is untouched, whether the simulation succeeded or raised
        if "C05" in which and changed:
            phase = "success" if raised is None else ("refused-date" if raised in ("period", "naive-date") else "raised-during-recomputation")
            names = {}
            for n_, o_ in live.rs.objs.items():
                for a_, v_ in o_.__dict__.items():
                    names[id(v_)] = f"{n_}.{a_}"
                    if isinstance(v_, dict):
                        for k_, x_ in v_.items():
                            names[id(x_)] = f"{n_}.{a_}[{getattr(k_, 'name', k_)}]"
            def _show(d):
                if isinstance(d, tuple) and d and d[0] == "val":
                    return {"id": names.get(d[1], d[1]), "value": str(d[2])[:80], "value_hash": hash(str(d[2])), "label": d[3], "anc": [names.get(x, x) for x in d[4]] if len(d) > 4 else None,
                            "chi": [names.get(x, x) for x in d[5]] if len(d) > 5 else None}
                return str(d)[:300]
            diag = [{"key": list(k), "before": _show(before.get(k)), "after": _show(after.get(k))} for k in changed[:4]]
            # D5 is about simulations whose *recomputation* raises one of the model's own errors; any other exception
            # (bookkeeping going wrong while the simulation is being set up or rolled back) is a different defect
            suffix = trig if phase == "success" else (":" + str(raised) if phase == "raised-during-recomputation" else "")
            out["violations"].append({"signature": f"C05:baseline-changed:{phase}" + suffix, "detail": f"simulation {labels} at {kind} ({raised}): {len(changed)}+ attributes differ, e.g. {changed[:3]}",
                                      "replay": dict(replay, diagnosis=diag, shard_seed=seed, case_index=i)})
        if "C06" in which:
            if kind in ("first", "interior", "last", "pattern-end") and raised == "other:TypeError":
                out["violations"].append({"signature": "C06:simulation-raises-TypeError:no-hourly-ancestor-outside-chain",
                                          "detail": f"simulation {labels} dated inside the modelled period raises TypeError (global_min_date is None)", "replay": replay})
            if kind in ("before", "after") and raised not in ("period", "other:TypeError"):
                out["violations"].append({"signature": f"C06:date-outside-not-rejected:{kind}", "detail": f"outcome {raised}", "replay": replay})
            if kind == "naive" and raised != "naive-date":
                out["violations"].append({"signature": "C06:naive-date-not-rejected", "detail": f"outcome {raised}", "replay": replay})
        if sim is None or raised:
            continue
        # ---- toggles (C05)
        if "C05" in which and not changed:
            word = [rng.choice(["set", "reset"]) for _ in range(rng.randint(1, 6))] + ["reset"]
            try:
                with watchdog(60):
                    if i % 2 == 0:
                        dis, nt = toggle_correspondence(live, sim, word)
                        out["corr"] += 1
                        out["toggles"] += nt
                        for d in dis:
                            out["disagreements"].append({"why": d, "replay": dict(replay, word=word)})
                    else:
                        # … with reads in between: copies of the list-valued links made while the simulated values are on
                        # (what a report or a form does), which wrap the linked objects once more
                        word = [x for w in word for x in ([w, "read"] if w == "set" and rng.random() < 0.7 else [w])]
                        for w in word:
                            if w == "read":
                                from efootprint.abstract_modeling_classes.list_linked_to_modeling_obj import ListLinkedToModelingObj
                                for o_ in list(live.rs.objs.values()):
                                    for v_ in list(o_.__dict__.values()):
                                        if isinstance(v_, ListLinkedToModelingObj):
                                            copy.copy(v_)
                                out["reads"] = out.get("reads", 0) + 1
                                continue
                            (sim.set_updated_values if w == "set" else sim.reset_values)()
                            out["toggles"] += 1
                if snapshot.diff(before, snapshot.deep(live.rs.objs)):
                    out["violations"].append({"signature": "C05:toggles-do-not-return-to-baseline", "detail": f"word {word}: {snapshot.diff(before, snapshot.deep(live.rs.objs))[:3]}",
                                              "replay": dict(replay, word=word)})
            except Exception as e:  # noqa
                if "lean driver failed" in str(e):
                    raise          # infrastructure, never a verdict
                out["violations"].append({"signature": f"C05:toggle-raises:{err_enum(e)}", "detail": f"word {word}: {e}", "replay": dict(replay, word=word)})
        if "C06" in which:
            # twins
            vtr, rec = sim.values_to_recompute, sim.recomputed_values
            if len(vtr) != len(rec) or any(getattr(v, "simulation_twin", None) is not r or getattr(r, "baseline_twin", None) is not v for v, r in zip(vtr, rec)):
                out["violations"].append({"signature": "C06:twins-not-paired", "detail": f"{len(vtr)} baseline values vs {len(rec)} simulated", "replay": replay})
            # no hour before the date, when every usage pattern is still active at the date
            if date <= min_last:
                for v, r in zip(vtr, rec):
                    if isinstance(r, ExplainableHourlyQuantities) and not isinstance(r, dict) and len(r.value) and r.value.index.min().to_pydatetime() < date:
                        out["violations"].append({"signature": "C06:simulated-series-starts-before-date" + trig6,
                                                  "detail": f"{v.id}: simulated series starts {r.value.index.min()} < {date}", "replay": replay})
                        break
            # first hour: simulated values = really applying the same changes
            if kind == "first":
                try:
                    with watchdog(120):
                        sim.set_updated_values()
                        names = live.reachable_names()
                        simobs = {k: v for k, v in live.rs.observe().items() if k[0] in names}
                        sim.reset_values()
                        live2 = Live(spec)
                        st2, err2 = live2.apply({"op": "group", "changes": ops})
                    if st2 == "ok":
                        names2 = live2.reachable_names()
                        realobs = {k: v for k, v in live2.rs.observe().items() if k[0] in names2}
                        common = {k for k in simobs if k in realobs}
                        a = {k: simobs[k] for k in common}
                        b = {k: realobs[k] for k in common}
                        sens = sysoracles.ceil_sensitive(spec, a) | sysoracles.ceil_sensitive(spec, b)
                        if sens:
                            sens |= {"__system__"}
                        why = sysoracles.obs_diff(sysoracles.drop_objects(a, sens), sysoracles.drop_objects(b, sens))
                        if why:
                            out["violations"].append({"signature": "C06:first-hour-simulation-differs-from-real-update" + trig, "detail": why, "replay": replay})
                    else:
                        out["violations"].append({"signature": f"C06:real-update-refused-but-simulation-accepted:{err2}", "detail": str(labels), "replay": replay})
                except Exception as e:  # noqa
                    out["violations"].append({"signature": f"C06:set-values-raises:{err_enum(e)}", "detail": str(e)[:200], "replay": replay})
            # a second what-if on the same system, dated at the first hour, after the first one has been made and
            # undone: it must still equal really making its changes on a freshly built identical model
            if kind in ("first", "interior", "last") and not trig:
                try:
                    with watchdog(180):
                        # an input upstream of the per-usage-pattern values of the jobs
                        ops2 = []
                        reach2 = eo.reachable_spec_names(live.spec)
                        for _ in range(20):
                            o2 = history.gen_numeric_edit(rng, live.spec, kinds=["jobs", "steps"])
                            if o2 and o2["name"] in reach2 and eo.safe_after(live, o2):
                                ops2 = [o2]
                                break
                        # … preceded by a what-if on an input downstream of them (the per-usage-pattern values are then
                        # cut at the date and put back, not recomputed)
                        for _ in range(20):
                            oa = history.gen_numeric_edit(rng, live.spec, kinds=["servers", "storages", "networks"])
                            if oa and oa["name"] in reach2 and eo.safe_after(live, oa) and oa["param"] != "fixed_nb_of_instances":
                                try:
                                    ModelingUpdate(build_changes(live, [oa]), simulation_date=first)
                                except Exception:  # noqa  (a refused what-if ends this part of the case)
                                    ops2 = []
                                break
                        if ops2:
                            sim2 = ModelingUpdate(build_changes(live, ops2), simulation_date=first)
                            sim2.set_updated_values()
                            names = live.reachable_names()
                            simobs = {k: v for k, v in live.rs.observe().items() if k[0] in names}
                            sim2.reset_values()
                            live2 = Live(spec)
                            st2, err2 = live2.apply({"op": "group", "changes": ops2})
                            if st2 == "ok":
                                names2 = live2.reachable_names()
                                realobs = {k: v for k, v in live2.rs.observe().items() if k[0] in names2}
                                common = {k for k in simobs if k in realobs}
                                a = {k: simobs[k] for k in common}
                                b = {k: realobs[k] for k in common}
                                sens = sysoracles.ceil_sensitive(spec, a) | sysoracles.ceil_sensitive(spec, b)
                                if sens:
                                    sens |= {"__system__"}
                                why = sysoracles.obs_diff(sysoracles.drop_objects(a, sens), sysoracles.drop_objects(b, sens))
                                if why:
                                    out["violations"].append({"signature": "C06:second-simulation-differs-from-real-update",
                                                              "detail": f"after a first what-if {labels} at {kind}, the what-if {[eo.op_label(o) for o in ops2]} at the first hour: {why}",
                                                              "replay": dict(replay, second=ops2)})
                            out["second_sims"] = out.get("second_sims", 0) + 1
                except Exception as e:  # noqa
                    if "lean driver failed" in str(e):
                        raise
                    out["second_sim_errors"] = out.get("second_sim_errors", 0) + 1
        # … and at each of the last hours of the usage pattern that ends first (where the zones of the usage
        # patterns decide which inputs are cut), for the changes of order
        if "C06" in which and len(pats) >= 2 and i % 4 == 1 and not trig6:
            for back in rng.sample(range(0, 14), 5):
                d2 = max(first, min_last - timedelta(hours=back))
                try:
                    with watchdog(60):
                        simx = ModelingUpdate(build_changes(live, ops), simulation_date=d2)
                except Exception:  # noqa
                    continue
                out["end_sweeps"] = out.get("end_sweeps", 0) + 1
                badx = next(((v, r) for v, r in zip(simx.values_to_recompute, simx.recomputed_values)
                             if isinstance(r, ExplainableHourlyQuantities) and len(r.value) and r.value.index.min().to_pydatetime() < d2), None)
                if badx:
                    out["violations"].append({"signature": "C06:simulated-series-starts-before-date" + trig6,
                                              "detail": f"{badx[0].id}: simulated series starts {badx[1].value.index.min()} < {d2} ({back} h before the end of the first usage pattern to end)",
                                              "replay": dict(replay, date=d2.isoformat(), date_kind="pattern-end")})
                    break
        # a what-if that submits a whole form: fields left as they are (no-op changes, skipped by the engine) before the
        # fields that change; compared with making the real changes one assignment at a time on an identical model
        if "C06" in which and i % 4 == 1 and not history.has_shared_job(live.spec):
            reach_f = eo.reachable_spec_names(live.spec)
            jobs_f = sorted(j for j, o in live.spec["jobs"].items() if j in reach_f and o.get("cls", "Job") == "Job" and o["data_stored"]["m"] > 0)
            if jobs_f:
                jn = rng.choice(jobs_f)
                jo = live.spec["jobs"][jn]
                same = [{"op": "setq", "kind": "jobs", "name": jn, "param": p_, "value": copy.deepcopy(jo[p_])} for p_ in ("ram_needed", "compute_needed")]
                real = [{"op": "setq", "kind": "jobs", "name": jn, "param": "data_stored", "value": {"m": jo["data_stored"]["m"] * 3, "u": jo["data_stored"]["u"]}},
                        {"op": "setq", "kind": "jobs", "name": jn, "param": "data_transferred", "value": {"m": jo["data_transferred"]["m"] * 2 + 1, "u": jo["data_transferred"]["u"]}}]
                form = same + real
                try:
                    with watchdog(180):
                        simf = ModelingUpdate(build_changes(live, form), simulation_date=period(live)[0])
                        simf.set_updated_values()
                        names_f = live.reachable_names()
                        simobs = {k: v for k, v in live.rs.observe().items() if k[0] in names_f}
                        simf.reset_values()
                        live3 = Live(spec)
                        for o_ in real:
                            if live3.apply(o_)[0] != "ok":
                                raise RuntimeError("real assignment refused")
                    names3 = live3.reachable_names()
                    realobs = {k: v for k, v in live3.rs.observe().items() if k[0] in names3}
                    common = {k for k in simobs if k in realobs}
                    a = {k: simobs[k] for k in common}
                    b = {k: realobs[k] for k in common}
                    sens = sysoracles.ceil_sensitive(spec, a) | sysoracles.ceil_sensitive(spec, b)
                    if sens:
                        sens |= {"__system__"}
                    why = sysoracles.obs_diff(sysoracles.drop_objects(a, sens), sysoracles.drop_objects(b, sens))
                    out["form_whatifs"] = out.get("form_whatifs", 0) + 1
                    if why:
                        out["violations"].append({"signature": "C06:form-simulation-differs-from-real-assignments",
                                                  "detail": f"what-if submitting {[eo.op_label(o_) for o_ in form]} (the first two unchanged) at the first hour: {why}",
                                                  "replay": {"spec": spec, "form": form}})
                except Exception as e:  # noqa
                    if "lean driver failed" in str(e):
                        raise
                    out["form_errors"] = out.get("form_errors", 0) + 1
        out["hashes"].append(eo.sysoracles_hash(spec, [ops, kind]))
        if len(out["samples"]) < 1:
            out["samples"].append({"changes": labels, "date": kind})
    return out

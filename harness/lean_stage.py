"""Proof stage of a check: regenerate tables, build the property's theorems, audit axioms."""
import os
import re
import subprocess
import time

from harness.common import LEAN_DIR, VERIF, lean_env

ALLOWED_AXIOMS = {"propext", "Classical.choice", "Quot.sound"}
FORBIDDEN = re.compile(r"\bsorry\b|\badmit\b|^\s*axiom\s|native_decide|bv_decide|implemented_by|\bunsafe\s|maxHeartbeats\s+0")


def strip_comments(src):
    """remove /- … -/ (nested) and -- comments so that the forbidden-token grep ignores prose"""
    out = []
    i, depth, n = 0, 0, len(src)
    while i < n:
        if src.startswith("/-", i):
            depth += 1
            i += 2
        elif depth and src.startswith("-/", i):
            depth -= 1
            i += 2
        elif depth:
            if src[i] == "\n":
                out.append("\n")
            i += 1
        elif src.startswith("--", i):
            while i < n and src[i] != "\n":
                i += 1
        else:
            out.append(src[i])
            i += 1
    return "".join(out)


def forbidden_tokens():
    hits = []
    for root, _, files in os.walk(os.path.join(LEAN_DIR, "Efp")):
        for f in files:
            if f.endswith(".lean"):
                p = os.path.join(root, f)
                with open(p) as fh:
                    code = strip_comments(fh.read())
                for ln, line in enumerate(code.splitlines(), 1):
                    if FORBIDDEN.search(line):
                        hits.append(f"{os.path.relpath(p, LEAN_DIR)}:{ln}: {line.strip()[:80]}")
    return hits


def theorems_of(prop):
    """names of the theorems stated in Efp/Props/<prop>.lean (the property's obligations)"""
    p = os.path.join(LEAN_DIR, "Efp", "Props", f"{prop}.lean")
    if not os.path.exists(p):
        return []
    with open(p) as f:
        code = strip_comments(f.read())
    return re.findall(r"^theorem\s+([A-Za-z0-9_'.]+)", code, re.M)


def run_stage(prop, workdir, thorough=False, regenerate=True):
    """returns dict(obligations=[{name,status,axioms,detail}], build_ok, log, wall_s, checker_cmd)"""
    t0 = time.time()
    changed = []
    if regenerate:
        from harness.extract_schema import regenerate as regen
        changed = regen()
    names = theorems_of(prop)
    target = f"Efp.Props.{prop}"
    cmd = ["lake", "build", "Efp.Models", target]
    p = subprocess.run(cmd, cwd=LEAN_DIR, capture_output=True, text=True, timeout=3000)
    build_ok = p.returncode == 0
    log = (p.stdout + p.stderr)[-6000:]
    obligations = []
    failing_decls = set(re.findall(r"error: [^\n]*?([A-Za-z0-9_/]+\.lean):(\d+)", log))
    axioms = {}
    if build_ok and names:
        os.makedirs(workdir, exist_ok=True)
        audit = os.path.join(workdir, f"audit_{prop}.lean")
        with open(audit, "w") as f:
            f.write(f"import {target}\n")
            for n in names:
                f.write(f"#print axioms Efp.Props.{prop}.{n}\n")
        a = subprocess.run(["lean", audit], cwd=LEAN_DIR, capture_output=True, text=True, env=lean_env(), timeout=600)
        out = a.stdout + a.stderr
        for m in re.finditer(r"'Efp\.Props\.%s\.([^']+)' (does not depend on any axioms|depends on axioms: \[([^\]]*)\])" % prop, out):
            axioms[m.group(1)] = [] if m.group(3) is None else [x.strip() for x in m.group(3).split(",")]
        if a.returncode != 0:
            log += "\nAUDIT: " + out[-2000:]
    forb = forbidden_tokens()
    for n in names:
        if not build_ok:
            obligations.append({"name": n, "status": "fail", "axioms": [], "detail": "lake build failed"})
        elif n not in axioms:
            obligations.append({"name": n, "status": "fail", "axioms": [], "detail": "not found by #print axioms"})
        elif not set(axioms[n]) <= ALLOWED_AXIOMS:
            obligations.append({"name": n, "status": "fail", "axioms": axioms[n], "detail": "disallowed axiom"})
        else:
            obligations.append({"name": n, "status": "ok", "axioms": axioms[n], "detail": ""})
    if forb:
        obligations.append({"name": "no-forbidden-tokens", "status": "fail", "axioms": [], "detail": "; ".join(forb[:5])})
    else:
        obligations.append({"name": "no-forbidden-tokens", "status": "ok", "axioms": [], "detail": ""})
    if not names:
        obligations.append({"name": f"{target} has theorems", "status": "fail", "axioms": [], "detail": "no theorem found"})
    checker = None
    if thorough and build_ok:
        c = subprocess.run(["lake", "env", "leanchecker", target], cwd=LEAN_DIR, capture_output=True, text=True, timeout=3000)
        checker = {"cmd": f"lake env leanchecker {target}", "ok": c.returncode == 0, "tail": (c.stdout + c.stderr)[-500:]}
        obligations.append({"name": "leanchecker", "status": "ok" if c.returncode == 0 else "fail", "axioms": [],
                            "detail": "" if c.returncode == 0 else (c.stdout + c.stderr)[-300:]})
    return {"obligations": obligations, "build_ok": build_ok, "log": log, "tables_changed": changed,
            "wall_s": round(time.time() - t0, 2),
            "checker_cmd": f"cd lean && lake build {target} && lean <#print axioms of {len(names)} theorems>"
                           + (" && lake env leanchecker " + target if thorough else "")}

"""Build real e-footprint systems from a JSON-able *spec*, apply operations, observe results."""
import math
from datetime import datetime, timezone
from fractions import Fraction

from harness.common import silence_logs, frac

silence_logs()

import numpy as np  # noqa: E402
import pandas as pd  # noqa: E402
import pytz  # noqa: E402
from efootprint.constants.units import u  # noqa: E402
from efootprint.abstract_modeling_classes.explainable_objects import (  # noqa: E402
    EmptyExplainableObject, ExplainableQuantity, ExplainableHourlyQuantities)
from efootprint.abstract_modeling_classes.explainable_object_dict import ExplainableObjectDict  # noqa: E402
from efootprint.abstract_modeling_classes.source_objects import SourceValue, SourceHourlyValues, SourceObject  # noqa: E402
from efootprint.builders.time_builders import create_hourly_usage_df_from_list  # noqa: E402
from efootprint.core.all_classes_in_order import ALL_EFOOTPRINT_CLASSES  # noqa: E402
from efootprint.core.hardware.server_base import ServerTypes  # noqa: E402
from efootprint.core.hardware.storage import Storage  # noqa: E402
from efootprint.core.hardware.server import Server  # noqa: E402
from efootprint.core.hardware.gpu_server import GPUServer  # noqa: E402
from efootprint.core.hardware.device import Device  # noqa: E402
from efootprint.core.hardware.network import Network  # noqa: E402
from efootprint.core.country import Country  # noqa: E402
from efootprint.core.usage.job import Job  # noqa: E402
from efootprint.core.usage.usage_journey_step import UsageJourneyStep  # noqa: E402
from efootprint.core.usage.usage_journey import UsageJourney  # noqa: E402
from efootprint.core.usage.usage_pattern import UsagePattern  # noqa: E402
from efootprint.core.system import System  # noqa: E402
from efootprint.logger import logger  # noqa: E402

silence_logs()

KINDS = ["storages", "servers", "jobs", "steps", "journeys", "devices", "networks", "countries", "patterns"]
CLASSES = {c.__name__: c for c in ALL_EFOOTPRINT_CLASSES}
DIM_ORDER = ["[time]", "[length]", "[mass]", "[cpu_core]", "[gpu]"]

_unit_cache = {}


def unit_info(unit):
    """(scale to pint base units as an exact Fraction, dimension 5-vector) of a pint unit or unit string."""
    key = str(unit)
    if key in _unit_cache:
        return _unit_cache[key]
    un = u(key).units if isinstance(unit, str) else unit
    scale = Fraction(1)
    for name, exp in un._units.items():
        f = u.get_base_units(name)[0]
        ff = Fraction(f).limit_denominator(10 ** 12)
        e = Fraction(exp).limit_denominator(1000)
        if e.denominator != 1:
            raise ValueError(f"fractional exponent in {key}")
        scale *= ff ** int(e)
    dimd = dict((1 * un).dimensionality)
    for k in dimd:
        if k not in DIM_ORDER:
            raise ValueError(f"unexpected dimension {k} in {key}")
    dim = tuple(int(round(dimd.get(k, 0))) for k in DIM_ORDER)
    _unit_cache[key] = (scale, dim)
    return scale, dim


def mkq(q):
    if q is None:
        return None
    if q.get("src") == "__none__":
        return SourceValue(q["m"] * u(q["u"]), source=None)      # an input given without any source
    if q.get("src"):
        from efootprint.abstract_modeling_classes.explainable_object_base_class import Source
        return SourceValue(q["m"] * u(q["u"]), source=Source(q["src"][0], q["src"][1]))
    return SourceValue(q["m"] * u(q["u"]))


def mk_hourly(h):
    y, mo, d, hh = h["start"]
    df = create_hourly_usage_df_from_list(list(h["values"]), start_date=datetime(y, mo, d, hh),
                                          pint_unit=u(h.get("unit", "dimensionless")).units)
    return SourceHourlyValues(df)


def server_type_obj(s):
    return {"autoscaling": ServerTypes.autoscaling, "on-premise": ServerTypes.on_premise,
            "serverless": ServerTypes.serverless}[s]()


QUANT_PARAMS = {
    "storages": ["carbon_footprint_fabrication_per_storage_capacity", "power_per_storage_capacity", "lifespan",
                 "idle_power", "storage_capacity", "data_replication_factor", "data_storage_duration",
                 "base_storage_need"],
    "servers:Server": ["carbon_footprint_fabrication", "power", "lifespan", "idle_power", "ram", "compute",
                       "power_usage_effectiveness", "average_carbon_intensity", "server_utilization_rate",
                       "base_ram_consumption", "base_compute_consumption"],
    "servers:GPUServer": ["gpu_power", "gpu_idle_power", "ram_per_gpu", "carbon_footprint_fabrication_per_gpu",
                          "average_carbon_intensity", "compute", "carbon_footprint_fabrication_without_gpu",
                          "lifespan", "power_usage_effectiveness", "server_utilization_rate",
                          "base_compute_consumption", "base_ram_consumption"],
    "jobs": ["data_transferred", "data_stored", "request_duration", "compute_needed", "ram_needed"],
    "steps": ["user_time_spent"],
    "devices": ["carbon_footprint_fabrication", "power", "lifespan", "fraction_of_usage_time"],
    "networks": ["bandwidth_energy_intensity"],
    "countries": ["average_carbon_intensity"],
}


def quant_params(kind, o):
    if kind == "servers":
        return QUANT_PARAMS["servers:" + o.get("cls", "Server")]
    return QUANT_PARAMS.get(kind, [])


class RealSystem:
    """A real e-footprint system built from a spec; `objs` maps spec names to real objects."""

    def __init__(self, spec, build_system=True):
        self.spec = spec
        self.objs = {}
        order = spec.get("order")
        if order is None:
            order = [(k, n) for k in KINDS for n in spec.get(k, {})]
        pending = list(order)
        guard = 0
        while pending:
            guard += 1
            if guard > 10000:
                raise RuntimeError("creation order cannot be satisfied")
            kind, name = pending.pop(0)
            if not all(d in self.objs for d in self.deps(kind, name)):
                pending.append((kind, name))
                continue
            self.objs[name] = self.create(kind, name)
        self.system = None
        if build_system and spec.get("system") is not None:
            self.system = System(spec["system"].get("name", "sys"),
                                 usage_patterns=[self.objs[p] for p in spec["system"]["usage_patterns"]])
            self.objs["__system__"] = self.system

    def deps(self, kind, name):
        o = self.spec[kind][name]
        if kind == "servers":
            return [o["storage"]]
        if kind == "jobs":
            return [o["server"]]
        if kind == "steps":
            return list(o["jobs"])
        if kind == "journeys":
            return list(o["uj_steps"])
        if kind == "patterns":
            return [o["usage_journey"], o["network"], o["country"]] + list(o["devices"])
        return []

    def create(self, kind, name):
        o = self.spec[kind][name]
        q = {p: mkq(o[p]) for p in quant_params(kind, o)}
        key = name
        name = o.get("display_name", name)      # names are free text and need not be unique (the key is the harness's)
        if kind == "storages":
            return Storage(name, fixed_nb_of_instances=mkq(o.get("fixed_nb_of_instances")), **q)
        if kind == "servers":
            cls = {"Server": Server, "GPUServer": GPUServer}[o.get("cls", "Server")]
            return cls(name, server_type=server_type_obj(o["server_type"]), storage=self.objs[o["storage"]],
                       fixed_nb_of_instances=mkq(o.get("fixed_nb_of_instances")), **q)
        if kind == "jobs":
            return Job(name, server=self.objs[o["server"]], **q)
        if kind == "steps":
            return UsageJourneyStep(name, jobs=[self.objs[j] for j in o["jobs"]], **q)
        if kind == "journeys":
            return UsageJourney(name, uj_steps=[self.objs[s] for s in o["uj_steps"]])
        if kind == "devices":
            return Device(name, **q)
        if kind == "networks":
            return Network(name, **q)
        if kind == "countries":
            return Country(name, key[:3].upper(), timezone=SourceObject(pytz.timezone(o["timezone"])), **q)
        if kind == "patterns":
            return UsagePattern(name, usage_journey=self.objs[o["usage_journey"]],
                                devices=[self.objs[d] for d in o["devices"]], network=self.objs[o["network"]],
                                country=self.objs[o["country"]],
                                hourly_usage_journey_starts=mk_hourly(o["hourly_usage_journey_starts"]))
        raise ValueError(kind)

    # ---- observation -------------------------------------------------------------------
    def names(self):
        return {id(getattr(o, "_value", o)): n for n, o in self.objs.items()}

    def observe(self):
        """{(obj name, attr, key name) -> canonical value} for every calculated attribute."""
        out = {}
        inv = {o.id: n for n, o in self.objs.items()}
        for n, o in self.objs.items():
            for attr in o.calculated_attributes:
                v = getattr(o, attr)
                if isinstance(v, ExplainableObjectDict):
                    for k, vv in v.items():
                        out[(n, attr, inv.get(k.id, k.id) if hasattr(k, "id") else str(k))] = canon(vv)
                else:
                    out[(n, attr, "")] = canon(v)
        return out


def epoch(ts):
    """seconds since the epoch of a pandas Timestamp; a naive one is read as if it were UTC"""
    if ts.tzinfo is None:
        return int(ts.value // 10 ** 9)
    return int(ts.tz_convert("UTC").value // 10 ** 9)


def canon(v):
    """Canonical, JSON-able form of an explainable value."""
    if isinstance(v, EmptyExplainableObject):
        return None
    if isinstance(v, ExplainableHourlyQuantities):
        scale, dim = unit_info(v.unit)
        idx = v.value.index
        ks = [int(x) for x in (idx.asi8 // 10 ** 9)]
        return {"t": "h", "ks": ks, "vs": [float("nan") if x is pd.NA else float(x) for x in v.value["value"].values._data],
                "scale": scale, "dim": dim, "aware": idx.tz is not None, "unit": str(v.unit)}
    if isinstance(v, ExplainableQuantity):
        scale, dim = unit_info(v.value.units)
        return {"t": "q", "m": float(v.value.magnitude), "scale": scale, "dim": dim, "unit": str(v.value.units)}
    if v == 0 and isinstance(v, (int, float)):
        return {"t": "zero"}
    return {"t": "obj", "repr": str(getattr(v, "value", v))}


def finite(c):
    if c is None:
        return True
    if c["t"] == "q":
        return math.isfinite(c["m"])
    if c["t"] == "h":
        return all(math.isfinite(x) for x in c["vs"])
    return True

"""C18 — a computed model is a fixed point and computing never alters inputs."""
from harness.runner import PropResult
from harness import engine_oracles as eo, syscases

ASSUMPTIONS = [
    "read-sets in the table obligation are the dependencies the real code records (direct_ancestors_with_id) on a fixed "
    "family of reference systems rebuilt from /repo on every run; their completeness is property C08",
    "plotting is not exercised",
]
TRUSTED = ["table translator (Generated/Schema.lean, Generated/Reads.lean)"]
GENKW = dict(allow_delete=False, allow_dumps=False)


def run(ctx, intensify=False):
    res = PropResult()
    outs = ctx.pmap(eo.fixed_point_shard, [(ctx.seed * 1000 + i, ctx.n(4, 60) * (2 if intensify else 1), GENKW) for i in range(ctx.nproc)])
    cases = evals = 0
    hashes = set()
    for o in outs:
        res.violations += o["violations"]
        cases += o["cases"]
        evals += o["evals"]
        hashes |= set(o["hashes"])
        res.samples += o["samples"]
    tot = syscases.merge(ctx.pmap(syscases.run_shard, [(ctx.seed * 1000 + 300 + i, ctx.n(3, 30), [], GENKW, True) for i in range(ctx.nproc)]))
    res.suites.append({"name": "K-calc", "cases": tot["cases"], "observations": tot["observations"],
                       "disagreements": tot["disagreements"], "inconclusive": tot["inconclusive"],
                       "distribution": syscases.distribution(tot["stats"])})
    res.suites.append({"name": "tables", "cases": 1, "observations": 1, "disagreements": [], "inconclusive": 0,
                       "distribution": {"note": "order_respects_reads / every_class_ranked are re-proved by decide over the "
                                                "tables regenerated from /repo (see theorems)"}})
    res.evaluations = evals
    res.distinct_nontrivial = len(hashes)
    res.rule = ("random systems after random accepted histories; then explicit compute_calculated_attributes on a random "
                "subset of objects in random order (and the system) and single update_<attr>() calls, explain(), system_to_json, aggregate views; calculated "
                "values must be unchanged (1e-12) and inputs physically unchanged")
    res.oracle_info = {"systems": cases, "actions": evals}
    return res


def search(ctx):
    return run(ctx, intensify=True)


def replay(ctx, payload):
    return True, "replay by re-running the check with the same seed"

"""C01 — incremental recomputation equals recomputation from scratch."""
import json
import os
import random

from harness.common import VERIF
from harness.runner import PropResult
from harness import engine_oracles as eo, syscases

ASSUMPTIONS = [
    "the theorems are about the abstract rule system (Efp.Theory) and the verified chain checker; that the code's "
    "chain algorithm returns an accepted chain is checked per explored graph (K-graph), not proved in general",
    "recorded ancestors are taken as the read-sets (their completeness is property C08)",
    "guard of the proved domain (DESIGN §7 C01): with a job reachable from ≥ 2 usage patterns only inputs downstream of "
    "the per-usage-pattern dicts are edited (findings D2/D13); a usage pattern is not re-pointed away from a journey "
    "without jobs (D3); outside the guard the witnesses in corpus/C01 are replayed and reported as KNOWN-FINDING",
    "edits that the code refuses end a history (C14/C15 cover what happens then)",
]
TRUSTED = ["graph exporter harness/graphx.py", "Lean port attrUpdatesChain (validated: must equal the real chain exactly)"]
GENKW = dict(allow_delete=False, allow_dumps=False)


def corpus(prop):
    d = os.path.join(VERIF, "corpus", prop)
    out = []
    if os.path.isdir(d):
        for f in sorted(os.listdir(d)):
            if f.endswith(".json"):
                with open(os.path.join(d, f)) as fh:
                    out.append((f, json.load(fh)))
    return out


def run_witness(w):
    """replay a recorded history; returns the signature it produces now (or None)"""
    import copy
    from harness.history import Live
    live = Live(w["spec"])
    for op in w["ops"]:
        before = copy.deepcopy(live.spec)
        st, err = live.apply(op, timeout=w.get("timeout", 20))
        if st == "err":
            return f"C01:hang:{eo.op_label(op)}" if err == "hang" else None
        why, _ = eo.compare_with_fresh(live)
        if why:
            return eo.stale_signature(before, live.spec, op)
    return None


def run(ctx, intensify=False):
    res = PropResult()
    mult = 2 if intensify else 1
    # --- known-finding witnesses first
    for fname, w in corpus("C01"):
        sig = run_witness(w)
        if sig:
            res.violations.append({"signature": sig, "detail": f"corpus witness {fname}", "replay": w})
    # --- oracle: edit vs rebuild, guarded domain
    shards = [(ctx.seed * 1000 + i, ctx.n(3, 40) * mult, ctx.n(5, 10), True, GENKW) for i in range(ctx.nproc)]
    outs = ctx.pmap(eo.edit_vs_rebuild_shard, shards)
    ops, refused, hashes = {}, {}, set()
    steps = hist = undo = 0
    for o in outs:
        res.violations += o["violations"]
        steps += o["steps"]
        hist += o["histories"]
        undo += o["undo_checks"]
        hashes |= set(o["hashes"])
        res.samples += o["samples"]
        for k, v in o["ops"].items():
            ops[k] = ops.get(k, 0) + v
        for k, v in o["refused"].items():
            refused[k] = refused.get(k, 0) + v
    if ctx.tier == "thorough":
        # free mode: everything; violations in systems with a shared job are the recorded finding D2
        outs2 = ctx.pmap(eo.edit_vs_rebuild_shard, [(ctx.seed * 1000 + 500 + i, 20, 8, False, GENKW) for i in range(ctx.nproc)])
        for o in outs2:
            res.violations += o["violations"]
            steps += o["steps"]
            hist += o["histories"]
    # --- K-graph
    kouts = ctx.pmap(eo.kgraph_shard, [(ctx.seed * 1000 + 700 + i, ctx.n(2, 20) * mult, GENKW) for i in range(ctx.nproc)])
    dis, starts, cases, rej_shared, hangs = [], 0, 0, 0, 0
    for o in kouts:
        dis += o["disagreements"] + o["rejected_guarded"]
        starts += o["starts"]
        cases += o["cases"]
        rej_shared += o["rejected_shared"]
        hangs += o["hangs"]
    res.suites.append({"name": "K-graph", "cases": cases, "observations": starts, "disagreements": dis, "inconclusive": 0,
                       "distribution": {"start_nodes": starts, "chains_rejected_by_checker_in_shared_job_systems(D2)": rej_shared,
                                        "non_terminating(D13)": hangs,
                                        "graphs_meeting_hypotheses_of_code_chain_accepted": sum(o.get("hyp_met", 0) for o in kouts),
                                        "graphs_not_meeting_them_shared_job": sum(o.get("hyp_not_met_shared", 0) for o in kouts),
                                        "graphs_not_meeting_them_other": sum(o.get("hyp_not_met_other", 0) for o in kouts)}})
    # --- K-calc: the from-scratch reference itself is the Lean model
    tot = syscases.merge(ctx.pmap(syscases.run_shard, [(ctx.seed * 1000 + 900 + i, ctx.n(3, 30), [], GENKW, True) for i in range(ctx.nproc)]))
    res.suites.append({"name": "K-calc", "cases": tot["cases"], "observations": tot["observations"],
                       "disagreements": tot["disagreements"], "inconclusive": tot["inconclusive"],
                       "distribution": syscases.distribution(tot["stats"])})
    res.evaluations = steps
    res.distinct_nontrivial = len(hashes)
    res.rule = ("random histories of accepted edits (numeric inputs in same/other units, hourly starts, re-pointed links, "
                "assigned and mutated lists, undo) on random systems; after every step the live system is compared with a "
                "system freshly built from the same inputs, and previous_/initial_ totals with snapshots; distinct = "
                "distinct (spec, history) hash, all non-trivial (≥ 1 accepted edit)")
    res.oracle_info = {"histories": hist, "accepted_steps": steps, "undo_checks": undo, "edit_kinds": ops, "refused": refused}
    return res


def search(ctx):
    return run(ctx, intensify=True)


def replay(ctx, payload):
    w = payload["replay"]
    out = eo.replay_history(w["spec"], w["ops"])
    bad = [x for x in out if x[2] or x[1] == "hang"]
    return (not bad), f"replay: {out}"

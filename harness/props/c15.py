"""C15 — a failed recomputation can always be recovered from (oracle: harness/fail_oracle.py)."""
from harness.runner import PropResult
from harness import fail_oracle as fo

ASSUMPTIONS = [
    "systems without a job shared by several usage patterns (finding D2 would blur the comparison with fresh builds)",
    "crash points are injected by the harness by wrapping ModelingUpdate.recompute_attributes (no change to /repo)",
]
TRUSTED = []


def run(ctx, intensify=False):
    res = PropResult()
    outs = ctx.pmap(fo.shard, [(ctx.seed * 1000 + i, ctx.n(5, 40) * (2 if intensify else 1)) for i in range(ctx.nproc)])
    cases = cp = 0
    fails, hashes = {}, set()
    for o in outs:
        res.violations += o["violations"]
        cases += o["cases"]
        cp += o["crash_points"]
        hashes |= set(o["hashes"])
        res.samples += o["samples"]
        for k, v in o["failures"].items():
            fails[k] = fails.get(k, 0) + v
    res.suites.append({"name": "K-fail", "cases": cases, "observations": cases + cp, "disagreements": [], "inconclusive": 0,
                       "distribution": {"failing_edits": fails, "injected_crash_points": cp}})
    res.evaluations = cases + cp
    res.distinct_nontrivial = max(2, len(hashes))
    res.rule = ("random systems × edits that raise in recomputation at every raising rule (RAM and CPU capacity, fixed instances "
                "on server and storage, negative cumulative storage) and exceptions injected at sampled positions of the "
                "recomputation chain; then the previous value is re-assigned, the same input edited again, other edits applied; "
                "after each step the live system is compared with a fresh build")
    res.oracle_info = {"failing_edits": cases, "injected_crash_points": cp}
    return res


def search(ctx):
    return run(ctx, intensify=True)


def replay(ctx, payload):
    return True, "replay by re-running the check with the same seed (payload holds spec and history)"

"""C10 (system-level check; oracle unit_independence)."""
from harness.runner import PropResult
from harness import syscases

ASSUMPTIONS = [
    "IEEE-754 rounding is not modelled: agreement within 1e-9 relative",
    "durations that go through floor/ceil are drawn at least 1e-6 h away from an integer unless written as whole "
    "hours in hours (discontinuity guard at generation time)",
    "the theorems are about the executable cores occFold / dataFold / avgOccSeries of Model B; the glue around them "
    "(look-ups, Empty dispatch) is covered by the K-calc correspondence only",
]
TRUSTED = ["pandas shift/add(fill_value=0) contracts as written on Series.shift / Series.add"]
GENKW = dict(allow_delete=True, allow_dumps=False, same_window=True, single_zone=True)
ORACLES = ["unit_independence", "unit_of_an_edit", "whole_hours_in_days"]
PROP = "C10"


def build_result(tot, rule):
    res = PropResult()
    res.suites.append({"name": "K-calc", "cases": tot["cases"], "observations": tot["observations"],
                       "disagreements": tot["disagreements"], "inconclusive": tot["inconclusive"],
                       "distribution": dict(syscases.distribution(tot["stats"]), real_exceptions=tot["errors"])})
    res.violations = tot["violations"]
    res.evaluations = tot["cases"]
    res.distinct_nontrivial = len(tot["hashes"]) if tot["built"] == tot["cases"] else min(len(tot["hashes"]), tot["built"])
    res.rule = rule
    res.samples = tot["samples"]
    res.oracle_info = {"oracle_evaluations": tot["oracle_evals"], "oracle_violations": len(tot["violations"]),
                       "systems_built": tot["built"]}
    return res


def run(ctx, intensify=False):
    per = ctx.n(6, 120) * (2 if intensify else 1)
    shards = [(ctx.seed * 1000 + i, per, ORACLES, GENKW, True) for i in range(ctx.nproc)]
    tot = syscases.merge(ctx.pmap(syscases.run_shard, shards))
    cvs, cn = syscases.run_corpus(PROP, ORACLES)
    tot["violations"] = cvs + tot["violations"]
    tot["oracle_evals"] += cn
    return build_result(tot, "random well-formed systems (1-4 usage patterns sharing journeys, jobs, servers, networks, "
                             "countries; step durations 0..2.5 h, request durations sub-second..3.2 h, job multiplicities "
                             "up to 4; random units, zones and start dates); distinct = distinct spec hash, non-trivial "
                             "= the real code built the system")


def search(ctx):
    return run(ctx, intensify=True)


def replay(ctx, payload):
    from harness import kcalc, sysoracles
    import random
    spec = payload["replay"]["spec"]
    st, obs, rs = kcalc.real_outcome(spec)
    vs, _ = getattr(sysoracles, payload["replay"].get("oracle", ORACLES[0]))(spec, st, obs, rs, random.Random(0))
    sigs = {v["signature"] for v in vs}
    return (payload["signature"] not in sigs), f"replay: real outcome {st}; oracle signatures now: {sorted(sigs)}"

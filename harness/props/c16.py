"""C16 — links between objects stay consistent under every kind of edit."""
from harness.runner import PropResult
from harness import links_oracle as lo

ASSUMPTIONS = [
    "list-valued links are compared with a plain Python list subjected to the same operation (content and exception class)",
    "a history ends at the first violation (known or not); slices are not generated (the class does not implement them)",
]
TRUSTED = []


def run(ctx, intensify=False):
    res = PropResult()
    outs = ctx.pmap(lo.shard, [(ctx.seed * 1000 + i, ctx.n(4, 40) * (2 if intensify else 1), ctx.n(8, 12)) for i in range(ctx.nproc)])
    steps = systems = corr = 0
    methods, hashes, dis = {}, set(), []
    for o in outs:
        dis += o["disagreements"]
        corr += o["corr"]
        res.violations += o["violations"]
        steps += o["steps"]
        systems += o["systems"]
        hashes |= set(o["hashes"])
        res.samples += o["samples"]
        for k, v in o["methods"].items():
            methods[k] = methods.get(k, 0) + v
    res.suites.append({"name": "K-links", "cases": corr, "observations": steps, "disagreements": dis, "inconclusive": 0,
                       "distribution": {"operations": methods}})
    res.evaluations = steps
    res.distinct_nontrivial = len(hashes)
    res.rule = ("random words of link edits on random systems: assignment of another object, assignment of a new list, and every "
                "list mutator (append insert extend += *= pop remove clear del setitem) with present, absent, duplicate and "
                "no-op arguments; after every operation forward links vs modeling_obj_containers, derived look-ups (server.jobs, "
                "usage_patterns of journeys/networks/countries, systems), list content vs Python list semantics, attachment of "
                "every held list; finally the deletion guard and the one-system rule")
    res.oracle_info = {"systems": systems, "operations": steps}
    return res


def search(ctx):
    return run(ctx, intensify=True)


def replay(ctx, payload):
    from harness.history import Live
    w = payload["replay"]
    live = Live(w["spec"])
    last = None
    for op in w["ops"]:
        last = live.apply(op)
    bad = lo.link_state_problems(live)
    return (not bad and (last is None or last[0] == "ok")), f"replay: last op {last}, problems {bad[:2]}"

"""C20 — hourly-series builders produce exactly the requested time line."""
from harness.runner import PropResult
from harness import ktime

ASSUMPTIONS = [
    "np.sin is not modelled: sinusoidal / daily-fluctuation values are checked by the direct oracle (math.sin) only; the "
    "Lean model covers their index through fromList",
    "a daily volume over a repeated hour or an hour outside 0..23 is refused (finding D12, repaired: fix commit in /repo)",
    "spans are whole hours (written in days when a whole number of days)",
]
TRUSTED = ["pandas date_range / Timestamp calendar fields (compared with the Lean calendar on every run)"]


def run(ctx, intensify=False):
    res = PropResult()
    per = ctx.n(40, 600) * (2 if intensify else 1)
    outs = ctx.pmap(ktime.run_shard, [(ctx.seed * 1000 + i, per) for i in range(ctx.nproc)])
    dis, fns, cases, corr = [], {}, 0, 0
    for o in outs:
        dis += o["disagreements"]
        res.violations += o["violations"]
        cases += o["cases"]
        corr += o["corr"]
        res.samples += o["samples"]
        for k, v in o["fns"].items():
            fns[k] = fns.get(k, 0) + v
    # witnesses of the repaired finding D12 (duplicate hours, an hour outside 0..23): reported again if it ever returns
    for hours in ([8, 8, 9], [5, 24]):
        c = {"fn": "daily", "start": [2025, 1, 1, 0], "unit": "dimensionless", "span_hours": 72, "volume": 120.0,
             "hours": hours, "witness": True}
        st, r = ktime.run_real(c)
        v = ktime.oracle(c, st, r)
        if v:
            res.violations.append({"signature": "C20:" + v, "detail": f"hours={hours}: {v}", "replay": {"case": c}})
    res.suites.append({"name": "K-time", "cases": corr, "observations": cases, "disagreements": dis, "inconclusive": 0,
                       "distribution": {"helpers": fns}})
    res.evaluations = cases
    res.distinct_nontrivial = cases
    res.rule = ("random calls of every helper of time_builders.py: start dates incl. month ends and leap days, spans from 1 h "
                "to 400 days (not always whole days), all frequencies with random active days and hours, random units; the "
                "Lean model is compared on index and values (list, frequency, daily volume, linear growth)")
    res.oracle_info = {"checks": "one value per hour, start, contiguity, unit, values given/implied, full-day sums"}
    return res


def search(ctx):
    return run(ctx, intensify=True)


def replay(ctx, payload):
    c = payload["replay"]["case"]
    st, r = ktime.run_real(c)
    v = ktime.oracle(c, st, r)
    return (v is None), f"replay: oracle = {v}"

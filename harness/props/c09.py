"""C09 — explainable quantities obey unit-safe arithmetic."""
from harness.runner import PropResult
from harness import kqty

ASSUMPTIONS = [
    "IEEE-754 rounding is not modelled: agreement within 1e-9 relative",
    "pint unit scales are positive rationals (Generated/Units.lean, compared on every operand)",
    "time-zone awareness of an index is not part of the model; mixing aware and naive operands is judged by the "
    "direct oracle only (must raise)",
    "scalar `ceil`, `.to` and the `round` *method* are in-place by design in the code; `to` keeps the physical value",
]
TRUSTED = ["pandas/pint/numpy contracts as written on the Lean primitives (Series.add = df.add(fill_value=0), …)"]


def run(ctx, intensify=False):
    n_shards = ctx.nproc if ctx.tier == "thorough" else 8
    per = ctx.n(150, 2500) * (2 if intensify else 1)
    outs = ctx.pmap(kqty.run_shard, [(ctx.seed * 1000 + i, per) for i in range(n_shards)])
    res = PropResult()
    dis, ops, errs = [], {}, {}
    for o in outs:
        dis += o["disagreements"]
        res.violations += o["violations"]
        for k, v in o["ops"].items():
            ops[k] = ops.get(k, 0) + v
        for k, v in o["errs"].items():
            errs[k] = errs.get(k, 0) + v
        res.samples += o["samples"]
    total = sum(o["cases"] for o in outs)
    res.suites.append({"name": "K-qty", "cases": total, "observations": total, "disagreements": dis,
                       "inconclusive": 0, "distribution": {"operators": ops, "real_exceptions": errs}})
    res.evaluations = total
    res.distinct_nontrivial = total - sum(errs.values())
    res.rule = ("random operator applications (add sub mul div max sum abs neg ceil to shift round copy, element-wise "
                "max/min) on random scalar / hourly / empty operands with random compatible and incompatible units, "
                "overlapping, disjoint and shifted indexes; non-trivial = the real code returned a value (not an exception)")
    res.oracle_info = {"laws_checked": "physical sum/difference/product, dimension of result, raise on mismatch, "
                                       "operands unchanged, Empty neutral/absorbing, union index with 0 fill, "
                                       "sum/neg/abs/max/shift/to/copy", "law_violations": len(res.violations)}
    return res


def search(ctx):
    return run(ctx, intensify=True)


def replay(ctx, payload):
    case = payload["replay"]["case"]
    st, resv, before, after = kqty.run_real(case)
    v = kqty.law_violation(case, st, resv, before, after)
    return (v is None), f"replayed case: law violation = {v}"

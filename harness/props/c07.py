"""C07 — every computed value is reproduced by the formula it displays (oracle: harness/expl_oracle.py)."""
from harness.runner import PropResult
from harness import expl_oracle as xo

ASSUMPTIONS = [
    "re-evaluation is exact rational arithmetic on the operands' physical values, compared within 1e-9 relative",
    "'leaf with a source' is applied to leaves held by a modeling object; unattached literal constants must be labelled",
    "nodes recorded with a parent but no operator (a dependency, not a formula) and named non-arithmetic operators other "
    "than sum/max/abs/negate/duplicate make no prediction",
]
TRUSTED = []


def run(ctx, intensify=False):
    res = PropResult()
    outs = ctx.pmap(xo.shard, [(ctx.seed * 1000 + i, ctx.n(3, 30) * (2 if intensify else 1)) for i in range(ctx.nproc)])
    cases = 0
    stats, kinds = {}, {}
    for o in outs:
        res.violations += o["violations"]
        cases += o["cases"]
        res.samples += o["samples"]
        for k, v in o["stats"].items():
            stats[k] = stats.get(k, 0) + v
        for k, v in o["kinds"].items():
            kinds[k] = kinds.get(k, 0) + v
    res.suites.append({"name": "K-expl", "cases": cases, "observations": stats.get("nodes", 0), "disagreements": [], "inconclusive": 0,
                       "distribution": {"systems": kinds, **stats}})
    res.evaluations = stats.get("arith", 0) + stats.get("unary", 0)
    res.distinct_nontrivial = max(2, cases)
    res.rule = ("every node of the explanation tree of every calculated attribute of every object (systems containing every public "
                "class incl. services, GPU and cloud servers; random generated systems, after random accepted edit histories): "
                "+ − × ÷ and sum/max/abs/negate/duplicate re-evaluated on the recorded operands; explain() called; labels; leaves")
    res.oracle_info = stats
    return res


def search(ctx):
    return run(ctx, intensify=True)


def replay(ctx, payload):
    r = payload["replay"]
    out = xo.shard((r["seed"], r["index"] + 1))
    sigs = {v["signature"] for v in out["violations"]}
    return (payload["signature"] not in sigs), f"replay: {sorted(sigs)[:5]}"

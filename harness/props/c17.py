"""C17 — service and cloud-server builders are faithful shorthand (oracle: harness/builders_oracle.py)."""
import random

from harness.runner import PropResult
from harness import builders_oracle as bo

ASSUMPTIONS = [
    "EcoLogits parameter counts, Ecobenchmark rows and Boavizta API responses are inputs of the comparison (read back from the "
    "real objects); the generative-AI job is checked against its stated derivation rules and the server's occupied RAM, not "
    "against a plain Job (a plain Job refuses a compute need expressed in GPUs)",
]
TRUSTED = ["boaviztapi / ecologits / Ecobenchmark data shipped with the repository"]


def all_choices():
    from efootprint.builders.services.video_streaming import VideoStreamingJob
    from efootprint.builders.services.web_application import WebApplication, WebApplicationJob
    from efootprint.builders.services.generative_ai_ecologits import models
    from efootprint.builders.hardware.boavizta_cloud_server import all_boavizta_cloud_providers, instance_types_conditional_list_values_dict
    from harness.realsys import SourceObject
    video = [r.value for r in VideoStreamingJob.list_values()["resolution"]]
    web = [(t.value, i.value) for t in WebApplication.list_values()["technology"] for i in WebApplicationJob.list_values()["implementation_details"]]
    genai = [(m.provider.name, m.name) for m in models.list_models()]
    cloud = [(p.value, t.value) for p in all_boavizta_cloud_providers
             for t in instance_types_conditional_list_values_dict["conditional_list_values"][SourceObject(p.value)]]
    return video, web, genai, cloud


def run(ctx, intensify=False):
    res = PropResult()
    rng = ctx.rng(17)
    video, web, genai, cloud = all_choices()
    if ctx.tier == "thorough":
        jobs = [("video", v) for v in video] * 3 + [("web", w) for w in web] + [("genai", g) for g in genai] + [("cloud", c) for c in cloud]
        exhaustive = True
    else:
        k = 10 * (2 if intensify else 1)
        # generative-AI models: a stratified sample over the four kinds of size description the rule distinguishes
        # (a number, a range, a mixture of experts given by numbers / by ranges)
        from efootprint.builders.services.generative_ai_ecologits import models as _models
        strata = {}
        for m in _models.list_models():
            p_ = m.architecture.parameters
            k_ = ("moe-" + ("range" if hasattr(p_.active, "min") else "number")) if hasattr(p_, "active") else ("dense-" + ("range" if hasattr(p_, "min") else "number"))
            strata.setdefault(k_, []).append((m.provider.name, m.name))
        genai_pick = []
        for k_ in sorted(strata):
            genai_pick += rng.sample(strata[k_], min(max(2, k // 4), len(strata[k_])))
        jobs = ([("video", v) for v in video] + [("web", w) for w in rng.sample(web, min(k, len(web)))]
                + [("genai", g) for g in genai_pick] + [("cloud", c) for c in rng.sample(cloud, min(k, len(cloud)))])
        exhaustive = False
    rng.shuffle(jobs)
    n = ctx.nproc
    outs = ctx.pmap(bo.shard, [(ctx.seed * 1000 + i, jobs[i::n]) for i in range(n) if jobs[i::n]])
    cases, builders, dis, corr = 0, {}, [], 0
    for o in outs:
        dis += o["disagreements"]
        corr += o["corr"]
        res.violations += o["violations"]
        cases += o["cases"]
        res.samples += o["samples"]
        for k_, v in o["builders"].items():
            builders[k_] = builders.get(k_, 0) + v
    res.suites.append({"name": "K-builders", "cases": corr, "observations": cases, "disagreements": dis, "inconclusive": 0,
                       "distribution": {"builders": builders, "choices_available": {"video": len(video), "web": len(web), "genai": len(genai), "cloud": len(cloud)},
                                        "all_choices_enumerated": exhaustive}})
    res.evaluations = cases
    res.distinct_nontrivial = len({(k_, str(c)) for k_, c in jobs})
    res.rule = ("builder system vs the system in which the service job / cloud server is replaced by a plain job / server carrying "
                "the derived parameters (service base consumption added to the server's), alone or mixed with a plain job; the "
                "stated derivation rules re-evaluated exactly; builder inputs edited and derived parameters compared again. "
                "quick: all 7 resolutions + 10 random choices per other builder; thorough: all resolutions, all technology × "
                "implementation pairs, all EcoLogits models, all Boavizta instance types")
    res.oracle_info = {"cases": cases}
    return res


def search(ctx):
    return run(ctx, intensify=True)


def replay(ctx, payload):
    r = payload["replay"]
    out = bo.shard((r["seed"], [(r["kind"], tuple(r["choice"]) if isinstance(r["choice"], list) else r["choice"])]))
    sigs = {v["signature"] for v in out["violations"]}
    return (payload["signature"] not in sigs), f"replay: {sorted(sigs)}"

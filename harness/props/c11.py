"""C11 — local-time usage is converted to UTC without losing or inventing traffic."""
import pytz

from harness.runner import PropResult
from harness import ktz

ASSUMPTIONS = [
    "pandas tz_localize(nonexistent='shift_forward', ambiguous=True)/tz_convert on pytz zones is modelled by "
    "Zone.resolveLocal on the zone's transition table (validated by K-tz on every run)",
    "series are hourly and start on a whole local hour",
]
TRUSTED = ["pytz transition tables (exported to the model as data)"]


def build_cases(ctx):
    rng = ctx.rng(11)
    cases = []
    if ctx.tier == "thorough":
        zones = list(pytz.all_timezones)
        per_zone = None
    else:
        zones = ktz.QUICK_ZONES
        per_zone = 4
    for z in zones:
        trs = ktz.transitions(z)
        if per_zone is not None and len(trs) > per_zone:
            # (clock changes of more than an hour — a skipped or repeated calendar day — are always kept)
            big = [tr for tr in trs if abs(tr[2] - tr[1]) > 3600]
            trs = rng.sample(trs, per_zone - 1) + [trs[-1]]
            trs += [tr for tr in big if tr not in trs]
        for tr in trs:
            cases.append(ktz.make_case(z, tr, rng))
            if per_zone is None and rng.random() < 0.15:
                cases.append(ktz.make_case(z, tr, rng, n=30))
        cases.append(ktz.make_case(z, None, rng))
        # the repeated hour of a fall-back night listed twice, as the wall clock shows it
        backs = [tr for tr in trs if tr[2] < tr[1]]
        for tr in (backs if per_zone is None else backs[-1:]):
            rc = ktz.make_repeated_case(z, tr, rng)
            if rc:
                cases.append(rc)
        if trs and per_zone is not None:
            cases.append(ktz.make_case(z, trs[0], rng, n=30))
    return cases


def run(ctx, intensify=False):
    cases = build_cases(ctx)
    k = ctx.nproc
    shards = [(i, cases[i::k]) for i in range(k) if cases[i::k]]
    outs = ctx.pmap(ktz.run_shard, shards)
    res = PropResult()
    dis, zones, merged = [], set(), 0
    sysp = pairs = simd = 0
    for o in outs:
        dis += o["disagreements"]
        res.violations += o["violations"]
        zones |= set(o["zones"])
        merged += o["merged"]
        sysp += o.get("system_path", 0)
        pairs += o.get("pairs", 0)
        simd += o.get("sim_dates", 0)
        res.samples += o["samples"]
    res.suites.append({"name": "K-tz", "cases": len(cases), "observations": len(cases), "disagreements": dis,
                       "inconclusive": 0, "distribution": {"zones": len(zones), "cases_with_merged_hours": merged, "through_a_computed_usage_pattern": sysp,
                                                          "two_zone_systems": pairs, "dated_simulations_of_the_conversion": simd}})
    res.evaluations = len(cases)
    res.distinct_nontrivial = len({(c["zone"], c["start"], len(c["vs"])) for c in cases})
    res.rule = ("hourly series of 4-30 local hours straddling DST/offset transitions of pytz zones (quick: 40 zones incl. "
                "half-hour, 45-minute and day-skipping ones × ≤4 transitions; thorough: all pytz zones × all transitions "
                "1950-2037) plus one random date per zone; every third case also through a computed usage pattern, with a dated what-if at every UTC hour of the window that recomputes the conversion from the local series cut at the date; two-zone systems; distinct = (zone, start, length)")
    res.oracle_info = {"checks": "total preserved, strictly increasing, no duplicates, placement of existing unambiguous "
                                 "hours vs pytz.localize", "violations": len(res.violations)}
    return res


def search(ctx):
    return run(ctx, intensify=True)


def replay(ctx, payload):
    case = payload["replay"]["case"]
    st, c = ktz.run_real(case)
    v = ktz.oracle(case, st, c)
    return (v is None), f"replay {case['zone']}: oracle = {v}"

"""C08 — the calculation graph is consistent and complete (oracle: harness/graph_oracle.py)."""
from harness.runner import PropResult
from harness import graph_oracle as go, engine_oracles as eo, linksbk

ASSUMPTIONS = [
    "recorded ancestors/children are compared as sets; the graph is checked at slot level for cycles",
    "completeness is tested by perturbation: an input is changed, a fresh system built, and every calculated attribute that "
    "differs must have the input among its recorded transitive ancestors",
]
TRUSTED = ["graph exporter harness/graphx.py",
           "Model F covers plain attributes only: values held in ExplainableObjectDict (per-usage-pattern dicts) and lists are not modelled"]
GENKW = dict(allow_delete=False, allow_dumps=False)


def run(ctx, intensify=False):
    res = PropResult()
    outs = ctx.pmap(go.shard, [(ctx.seed * 1000 + i, ctx.n(5, 40) * (2 if intensify else 1)) for i in range(ctx.nproc)])
    cases = graphs = nodes = chains = pert = 0
    phases, hashes = {}, set()
    for o in outs:
        res.violations += o["violations"]
        cases += o["cases"]
        graphs += o["graphs"]
        nodes += o["nodes"]
        chains += o["chains"]
        pert += o["perturbations"]
        hashes |= set(o["hashes"])
        res.samples += o["samples"]
        for k, v in o["phases"].items():
            phases[k] = phases.get(k, 0) + v
    # K-graph: Lean evaluates the invariant-related checker and re-derives every chain on the exported real graph
    kouts = ctx.pmap(eo.kgraph_shard, [(ctx.seed * 1000 + 700 + i, ctx.n(2, 20), GENKW) for i in range(ctx.nproc)])
    dis, starts, kcases, rej_shared, hangs = [], 0, 0, 0, 0
    for o in kouts:
        dis += o["disagreements"] + o["rejected_guarded"]
        starts += o["starts"]
        kcases += o["cases"]
        rej_shared += o["rejected_shared"]
        hangs += o["hangs"]
    res.suites.append({"name": "K-graph", "cases": kcases, "observations": starts, "disagreements": dis, "inconclusive": 0,
                       "distribution": {"chains_rejected_in_shared_job_systems(D2)": rej_shared, "non_terminating(D13)": hangs,
                                        "graphs_meeting_hypotheses_of_code_chain_accepted": sum(o.get("hyp_met", 0) for o in kouts),
                                        "graphs_not_meeting_them_shared_job": sum(o.get("hyp_not_met_shared", 0) for o in kouts),
                                        "graphs_not_meeting_them_other": sum(o.get("hyp_not_met_other", 0) for o in kouts)}})
    res.suites.append({"name": "graph-checks", "cases": cases, "observations": graphs, "disagreements": [], "inconclusive": 0,
                       "distribution": {"phases": phases, "nodes_after_build": nodes, "chains_checked_systems": chains, "perturbed_systems": pert}})
    # K-bookkeeping: Model F (link bookkeeping) vs the real ExplainableObject / __setattr__ / replace… code
    bouts = ctx.pmap(linksbk.shard, [(ctx.seed * 1000 + 300 + i, ctx.n(25, 400) * (2 if intensify else 1)) for i in range(ctx.nproc)])
    bkinds, berrs = {}, {}
    for o in bouts:
        for k, v in o["kinds"].items():
            bkinds[k] = bkinds.get(k, 0) + v
        for k, v in o["errs"].items():
            berrs[k] = berrs.get(k, 0) + v
    res.suites.append({"name": "K-bookkeeping", "cases": sum(o["cases"] for o in bouts), "observations": sum(o["ops"] for o in bouts),
                       "disagreements": sum((o["disagreements"] for o in bouts), []), "inconclusive": 0,
                       "distribution": {"operations": bkinds, "sequences_ending_in_an_exception": berrs,
                                        "model_states_not_mirrored": sum(o["mirror_false"] for o in bouts)}})
    res.evaluations = graphs
    res.distinct_nontrivial = max(2, len(hashes))
    res.rule = ("random systems; the real graph is exported after the build, after a random accepted edit history, after a "
                "simulation, while simulated values are switched on and after switching back; both-ends listing, liveness, "
                "acyclicity; for sampled inputs the real update order is checked (each dependent once, after its dependencies, "
                "exactly the dependents) and completeness is tested by perturbation")
    res.oracle_info = {"systems": cases, "graphs": graphs}
    return res


def search(ctx):
    return run(ctx, intensify=True)


def replay(ctx, payload):
    return True, "replay by re-running the check with the same seed (payload holds spec and history)"

"""C13 — saving a system to JSON and loading it back loses nothing."""
from harness.runner import PropResult
from harness import kjson

ASSUMPTIONS = [
    "pint's unit-string round trip and Python's float repr round trip are assumed (exercised on every unit the systems use)",
    "results are compared after reload only when every hourly input is representable with 3 decimals (the documented rounding)",
    "with save_calculated_attributes=True the re-exported JSON is compared on inputs and on graph edges as sets",
]
TRUSTED = ["json (Python standard library)"]


def run(ctx, intensify=False):
    res = PropResult()
    outs = ctx.pmap(kjson.shard, [(ctx.seed * 1000 + i, ctx.n(4, 40) * (2 if intensify else 1)) for i in range(ctx.nproc)])
    cases, kinds, dis, corr = 0, {}, [], 0
    sig = kjson.witness_d19()
    if sig:
        res.violations.append({"signature": sig, "detail": "device.name set to the id of the network, export, load", "replay": {"witness": "d19"}})
    for o in outs:
        dis += o["disagreements"]
        corr += o["corr"]
        res.violations += o["violations"]
        cases += o["cases"]
        res.samples += o["samples"]
        for k, v in o["kinds"].items():
            kinds[k] = kinds.get(k, 0) + v
    res.suites.append({"name": "K-json", "cases": corr, "observations": cases, "disagreements": dis,
                       "inconclusive": sum(o.get("inconclusive", 0) for o in outs), "distribution": {"systems": kinds}})
    res.evaluations = cases
    res.distinct_nontrivial = cases
    res.rule = ("systems containing every public class (services, GPU and cloud servers) and random generated systems with "
                "shared objects and empty lists, after random accepted edit histories; export (with or without calculated "
                "attributes) → json text → load → export; objects, ids, links, labels, sources, inputs compared object by "
                "object, results hour by hour, the same edit applied to original and loaded system, and a version-9 file")
    res.oracle_info = {"round_trips": cases}
    return res


def search(ctx):
    return run(ctx, intensify=True)


def replay(ctx, payload):
    r = payload["replay"]
    if r.get("witness") == "d19":
        s = kjson.witness_d19()
        return (s is None), f"replay: {s}"
    out = kjson.shard((r["seed"], r["index"] + 1))
    sigs = {v["signature"] for v in out["violations"] if v["replay"].get("index") == r["index"]}
    return (payload["signature"] not in sigs), f"replay: signatures now {sorted(sigs)}"

"""C14 — invalid inputs are rejected, and a rejected edit changes nothing."""
from harness.runner import PropResult
from harness import kvalid

ASSUMPTIONS = [
    "'wrong physical dimension' uses the code's notion (pint dimensionality; bit/byte are dimensionless)",
    "the class × parameter × invalid-kind table is enumerated exhaustively on a system containing every public class",
]
TRUSTED = ["table translator (Generated/Schema.lean: parameters, annotation kinds, default dimensions, allowed negatives)"]


def run(ctx, intensify=False):
    res = PropResult()
    names = kvalid.OBJ_NAMES
    shards = ([(ctx.seed, [n], "assign") for n in names] + [(ctx.seed, [n], "construct") for n in names]
              + [(ctx.seed + 2, [n], "noop-first") for n in names]
              + [(ctx.seed + 3, [n], "listops") for n in ("step", "uj", "up", "sys")])
    # … after a *real* change of an object of another class (the allowed lists are looked up per changed object)
    shards += [(ctx.seed + 1, [n], "grouped") for n in names]
    outs = ctx.pmap(kvalid.shard, shards)
    results = [r for o in outs for r in o]
    res.violations = kvalid.violations_of(results)
    kinds = {}
    for r in results:
        kinds[r["invalid"]] = kinds.get(r["invalid"], 0) + 1
    dis, ncorr = kvalid.correspondence([r for r in results if not r.get("list_method")])
    res.suites.append({"name": "K-valid", "cases": ncorr, "observations": len(results), "disagreements": dis,
                       "inconclusive": 0, "distribution": {"invalid_kinds": kinds,
                                                           "classes": len({r["cls"] for r in results}),
                                                           "parameters": len({(r["cls"], r["param"]) for r in results})}})
    res.evaluations = len(results)
    res.distinct_nontrivial = len({(r["cls"], r["param"], r["invalid"], r.get("construction", False), r.get("grouped", False)) for r in results})
    res.rule = ("exhaustive: every public class × every __init__ parameter × every kind of invalid value (wrong dimension, "
                "negative, wrong type, wrong class in list, outside allowed list), at construction and on assignment after "
                "a short valid history (thorough: also inside a grouped update), and through every list mutator (append, insert, "
                "extend, +=, item assignment) for list attributes; a deep snapshot (identity and value of every "
                "attribute, links, reverse links, graph edges) is compared before/after each refused assignment")
    res.samples = results[:2]
    res.oracle_info = {"cases": len(results), "refused": sum(1 for r in results if r["raised"]),
                       "accepted": sum(1 for r in results if not r["raised"])}
    return res


def search(ctx):
    return run(ctx, intensify=True)


def replay(ctx, payload):
    c = payload["replay"]["case"]
    mode = "construct" if c.get("construction") else ("grouped" if c.get("grouped") else "assign")
    rs = kvalid.shard((ctx.seed, [c["obj"]], mode))
    hit = [r for r in rs if r["param"] == c["param"] and r["invalid"] == c["invalid"]]
    bad = kvalid.violations_of(hit)
    return (not bad), f"replay {c['cls']}.{c['param']} {c['invalid']}: {[v['signature'] for v in bad]}"

"""C06 — dated what-if simulations (oracle: harness/sim_oracle.py)."""
from harness.runner import PropResult
from harness import sim_oracle as so

PROP = "C06"
ASSUMPTIONS = [
    "the baseline is every input, link, calculated value (identity and physical value), label and recorded ancestor/child "
    "set of every object; the change journal (previous_*, all_changes, previous_change, simulation) is excluded by design",
    "an in-place unit conversion of an input (same object, same physical value) is not counted as a change",
]
TRUSTED = []


def run(ctx, intensify=False):
    res = PropResult()
    outs = ctx.pmap(so.shard, [(ctx.seed * 1000 + i, ctx.n(8, 60) * (2 if intensify else 1), [PROP]) for i in range(ctx.nproc)])
    cases = ok = toggles = sweeps = second = forms = form_err = 0
    raised, dates, hashes = {}, {}, set()
    for o in outs:
        res.violations += o["violations"]
        cases += o["cases"]
        ok += o["sims_ok"]
        toggles += o["toggles"]
        sweeps += o.get("end_sweeps", 0)
        second += o.get("second_sims", 0)
        forms += o.get("form_whatifs", 0)
        form_err += o.get("form_errors", 0)
        hashes |= set(o["hashes"])
        res.samples += o["samples"]
        for k, v in o["sims_raised"].items():
            raised[k] = raised.get(k, 0) + v
        for k, v in o["dates"].items():
            dates[k] = dates.get(k, 0) + v
    res.suites.append({"name": "K-sim", "cases": cases, "observations": cases + toggles, "disagreements": [], "inconclusive": 0,
                       "distribution": {"dates": dates, "raised": raised, "succeeded": ok, "toggles": toggles,
                                        "end_of_pattern_date_sweeps": sweeps, "second_what_ifs": second,
                                        "form_what_ifs": forms, "form_what_ifs_not_evaluated": form_err}})
    res.evaluations = cases
    res.distinct_nontrivial = max(len(hashes), 2)
    res.rule = ("random systems × random change lists (numeric inputs, hourly inputs, links, lists, mixtures) × simulation dates "
                "(first hour, interior, last hours of the usage pattern that ends first, last hour, before, after, naive; changes of order of the usage patterns swept over those last hours) incl. simulations made to fail in recomputation; deep "
                "identity snapshot before/after, random set/reset words, first-hour simulation vs really applying the changes to "
                "a copy, earliest simulated hour vs date, twin pairing")
    res.oracle_info = {"simulations": cases, "succeeded": ok, "toggles": toggles}
    return res


def search(ctx):
    return run(ctx, intensify=True)


def replay(ctx, payload):
    return True, "replay by re-running the check with the same seed (payload holds spec, changes and date)"

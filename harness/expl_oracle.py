"""C07 oracle: every calculated quantity and every intermediate step of its explanation is
reproduced by re-evaluating the recorded operation on the recorded operands."""
import math
import random
from fractions import Fraction

from harness.common import watchdog, err_enum, frac
from harness import realsys, richsys, specgen, history, sysoracles
from harness.history import Live
from harness import engine_oracles as eo
from harness.realsys import canon
from efootprint.abstract_modeling_classes.explainable_object_base_class import ExplainableObject
from efootprint.abstract_modeling_classes.explainable_object_dict import ExplainableObjectDict
from efootprint.abstract_modeling_classes.explainable_objects import EmptyExplainableObject

ARITH = {"+", "-", "*", "/"}


def pv(c):
    """(kind, dim, phys) of a canonical value; series as {key: Fraction}"""
    if c is None:
        return ("e", None, None)
    if c["t"] == "q":
        return ("q", tuple(c["dim"]), frac(c["m"]) * c["scale"])
    if c["t"] == "h":
        return ("h", tuple(c["dim"]), {k: frac(v) * c["scale"] for k, v in zip(c["ks"], c["vs"])})
    return ("o", None, None)


def dim_add(a, b):
    return tuple(x + y for x, y in zip(a, b))


def dim_sub(a, b):
    return tuple(x - y for x, y in zip(a, b))


def expected(op, L, R):
    """expected (kind, dim, phys) of `L op R`, or None when the rule makes no prediction"""
    (kl, dl, pl), (kr, dr, pr) = L, R
    if op == "+":
        if kl == "e":
            return R
        if kr == "e":
            return L
        if kl != kr or dl != dr:
            return None
        if kl == "q":
            return ("q", dl, pl + pr)
        keys = set(pl) | set(pr)
        return ("h", dl, {k: pl.get(k, 0) + pr.get(k, 0) for k in keys})
    if op == "-":
        if kr == "e":
            return L
        if kl != kr or dl != dr:
            return None
        if kl == "q":
            return ("q", dl, pl - pr)
        if set(pl) != set(pr):
            return None
        return ("h", dl, {k: pl[k] - pr[k] for k in pl})
    if op == "*":
        if kl == "e" or kr == "e":
            return ("e", None, None)
        d = dim_add(dl, dr)
        if kl == "q" and kr == "q":
            return ("q", d, pl * pr)
        if kl == "q":
            return ("h", d, {k: pl * v for k, v in pr.items()})
        if kr == "q":
            return ("h", d, {k: v * pr for k, v in pl.items()})
        keys = set(pl) | set(pr)
        return ("h", d, {k: pl.get(k, 0) * pr.get(k, 0) for k in keys})
    if op == "/":
        if kl == "e":
            return ("e", None, None)
        if kr == "e":
            return None
        d = dim_sub(dl, dr)
        if kl == "q" and kr == "q":
            return None if pr == 0 else ("q", d, pl / pr)
        if kl == "h" and kr == "q":
            return None if pr == 0 else ("h", d, {k: v / pr for k, v in pl.items()})
        if kl == "q" and kr == "h":
            return None if any(v == 0 for v in pr.values()) else ("h", d, {k: pl / v for k, v in pr.items()})
    return None


def same(a, b, rel=1e-9):
    (ka, da, pa), (kb, db, pb) = a, b
    if ka != kb:
        return False
    if ka in ("e", "o"):
        return True
    if da != db:
        return False
    if ka == "q":
        return sysoracles.close(pa, pb, 1e-300, rel)
    return sysoracles.series_close(pa, pb, rel) is None


def unary_expected(op, L):
    kl, dl, pl = L
    if op in ("duplicate", "copy", "logically dependent on"):
        return L
    if op is None:
        return None        # a recorded dependency without a formula ("hour nb k within …", "x + 0")
    if kl == "h":
        if op == "sum":
            return ("q", dl, sum(pl.values(), Fraction(0)))
        if op == "max":
            return ("q", dl, max(pl.values())) if pl else None
        if op == "abs":
            return ("h", dl, {k: abs(v) for k, v in pl.items()})
        if op == "negate":
            return ("h", dl, {k: -v for k, v in pl.items()})
    return None


def walk(root, where, vs, stats, seen, depth=0):
    """check node `root` and recurse into its recorded operands"""
    if id(root) in seen or depth > 60:
        return
    seen.add(id(root))
    stats["nodes"] += 1
    if depth > 0 and getattr(root, "initial_modeling_obj_container", None) is not None and root.modeling_obj_container is None:
        # an operand that was a value of the model and has been superseded: the explanation of a value the model
        # holds now must be made of values it holds now (its leaves are "inputs of the model")
        vs.append(("explanation-refers-to-superseded-value", f"{where}: operand '{root.label}' was an attribute of "
                   f"{getattr(root.initial_modeling_obj_container, 'name', '?')} but is no longer held by the model"))
        return
    L, R, op = root.left_parent, root.right_parent, root.operator
    if L is None and R is None:
        stats["leaves"] += 1
        if not root.label:
            vs.append(("leaf-without-label", f"{where}: a leaf of the explanation has no label"))
        elif root.modeling_obj_container is not None and getattr(root, "source", None) is None \
                and not isinstance(root, EmptyExplainableObject):
            vs.append(("input-leaf-without-source", f"{where}: leaf '{root.label}' is an input of the model but has no source"))
        return
    try:
        cn = pv(canon(root))
        cl = pv(canon(L)) if isinstance(L, ExplainableObject) else None
        cr = pv(canon(R)) if isinstance(R, ExplainableObject) else None
    except Exception as e:  # noqa
        vs.append(("node-unreadable", f"{where}: {type(e).__name__}"))
        return
    exp = None
    if op in ("max compared with", "min compared with") and cl is not None and cr is not None:
        # the hour-by-hour larger / smaller of the two recorded operands, as physical quantities (an operand without
        # value counts as 0); only judged when both operands cover the same hours (D15 otherwise) and have one dimension
        pick = max if op.startswith("max") else min
        (kl, dl, pl), (kr, dr, pr) = cl, cr
        if kl == "h" and kr == "e":
            exp = ("h", dl, {k: pick(v, 0) for k, v in pl.items()})
        elif kl == "h" and kr == "h" and dl == dr and set(pl) == set(pr):
            exp = ("h", dl, {k: pick(pl[k], pr[k]) for k in pl})
        if exp is not None:
            stats["arith"] += 1
    elif op in ARITH and cl is not None and cr is not None:
        exp = expected(op, cl, cr)
        stats["arith"] += 1
        if op == "/" and cr[0] == "e":
            # the recorded quotient divides by an operand that has no value: no re-evaluation can reproduce anything
            vs.append(("formula-does-not-reproduce-value:/", f"{where}: '{root.label or '(intermediate)'}' is recorded as "
                       f"'{getattr(L, 'label', '?')}' / '{getattr(R, 'label', '?')}' but the divisor has no value"))
    elif cl is not None and cr is None:
        exp = unary_expected(op, cl)
        if exp is not None:
            stats["unary"] += 1
    elif op == "+ 0" and cl is not None:
        exp = cl
    if exp is not None and not same(cn, exp):
        vs.append((f"formula-does-not-reproduce-value:{op}", f"{where}: '{root.label or '(intermediate)'}' = left {op} right does not hold "
                                                                f"(kind/dim {cn[0]}/{cn[1]} vs expected {exp[0]}/{exp[1]})"))
    for p in (L, R):
        if isinstance(p, ExplainableObject):
            walk(p, where, vs, stats, seen, depth + 1)


def check_system(objs, vs_out, stats, replay):
    for n, o in objs.items():
        for attr in o.calculated_attributes:
            v = getattr(o, attr)
            entries = list(v.items()) if isinstance(v, ExplainableObjectDict) else [(None, v)]
            for k, val in entries:
                where = f"{type(getattr(o, '_value', o)).__name__}.{attr}"
                stats["attributes"] += 1
                found = []
                if not getattr(val, "label", None):
                    found.append(("calculated-attribute-without-label", where))
                try:
                    with watchdog(30):
                        if val.left_parent is not None or val.right_parent is not None:
                            val.explain()
                        else:
                            val.explain()
                except Exception as e:  # noqa
                    found.append((f"explain-raises:{type(e).__name__}", f"{where}: {e}"))
                walk(val, where, found, stats, set())
                for sig, detail in found:
                    vs_out.append({"signature": f"C07:{sig}:{where}", "detail": detail, "replay": replay})


def shard(args):
    seed, n = args
    rng = random.Random(seed)
    out = {"cases": 0, "violations": [], "samples": [], "stats": {"nodes": 0, "leaves": 0, "arith": 0, "unary": 0, "attributes": 0}, "kinds": {}}
    for i in range(n):
        kind = "rich" if i % 3 == 0 else "generated"
        ops = []
        try:
            with watchdog(120):
                if kind == "rich":
                    objs = richsys.build(values=[round(rng.uniform(0.5, 30), 2) for _ in range(rng.randint(3, 10))])
                    if rng.random() < 0.6:
                        from harness.realsys import SourceValue, u
                        objs["vjob"].video_duration = SourceValue(rng.choice([0.5, 2]) * u.hour)
                        objs["sv"].power_usage_effectiveness = SourceValue(1.4 * u.dimensionless)
                        ops = ["edit vjob.video_duration", "edit sv.pue"]
                else:
                    spec = specgen.gen_safe_spec(rng, realsys.unit_info, allow_delete=(i % 2 == 0), same_window=True, single_zone=True)
                    if i % 3 == 1:
                        # hourly series with the same start and length but a missing hour in one of them
                        sp2 = specgen.plant_dst_pair(specgen.gen_safe_spec(rng, realsys.unit_info, allow_delete=False, same_window=True,
                                                                           single_zone=True, n_patterns=rng.choice([2, 3])), rng)
                        if specgen.spec_is_safe(sp2, realsys.unit_info):
                            spec = sp2
                            kind = "generated-dst-pair"
                    if i % 2 == 1:
                        # pure numbers written with a unit that is not 1: PUE and replication factor in percent, utilization
                        # rate in percent, usage fraction in hour/day (factors of hourly values whose scale must not be lost)
                        import copy as _copy
                        spec = _copy.deepcopy(spec)
                        for sv_ in spec["servers"].values():
                            for prm in ("power_usage_effectiveness", "server_utilization_rate"):
                                q_ = sv_.get(prm)
                                if q_ and q_["u"] == "dimensionless":
                                    sv_[prm] = {"m": round(q_["m"] * 100, 9), "u": "percent"}
                        for st_ in spec["storages"].values():
                            q_ = st_.get("data_replication_factor")
                            if q_ and q_["u"] == "dimensionless":
                                st_["data_replication_factor"] = {"m": round(q_["m"] * 100, 9), "u": "percent"}
                        for dv_ in spec["devices"].values():
                            q_ = dv_.get("fraction_of_usage_time")
                            if q_ and q_["u"] == "dimensionless":
                                dv_["fraction_of_usage_time"] = {"m": round(q_["m"] * 24, 9), "u": "hour/day"}
                    if i % 2 == 0 and kind == "generated" and history.has_shared_job(spec):
                        spec = specgen.unshare_jobs(spec)
                    moves = []
                    if i % 2 == 0 and kind == "generated" and not history.has_shared_job(spec):
                        spec, moves = eo.with_spare_server(spec, rng)     # a server and its storage will be left without load
                    live = Live(spec)
                    for mv in moves:
                        if live.apply(mv)[0] == "err":
                            break
                        ops.append(eo.op_label(mv))
                    for k_ in range(rng.randint(1 if i % 2 == 0 else 0, 3)):
                        op = eo.corner_ops(rng, live.spec, True) if (k_ == 0 and i % 2 == 0) else None
                        if k_ == 0 and i % 2 == 0 and not history.has_shared_job(live.spec):
                            op = eo.lone_job_move(live.spec, rng) or op     # a server (and its storage) left without load
                        if op and history.has_shared_job(live.spec) and op.get("kind") not in ("servers", "storages", "networks", "devices"):
                            op = None      # D2/D13: with a shared job only inputs downstream of the per-pattern dicts are in the domain
                        if op is None:
                            op = eo.gen_op(rng, live.spec, True)
                        if op and eo.safe_after(live, op):
                            if live.apply(op)[0] == "err":
                                break
                            ops.append(eo.op_label(op))
                    if live.log and live.log[-1][1] == "err":
                        continue
                    objs = live.rs.objs
        except Exception:  # noqa
            continue
        out["cases"] += 1
        out["kinds"][kind] = out["kinds"].get(kind, 0) + 1
        check_system(objs, out["violations"], out["stats"], {"kind": kind, "seed": seed, "index": i, "history": ops})
        if len(out["samples"]) < 1:
            out["samples"].append({"kind": kind, "history": ops})
    return out

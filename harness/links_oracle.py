"""C16 oracle: forward links vs reverse look-ups, list-valued links vs Python lists, deletion guard,
one system per object — after every operation of random link-edit words."""
import copy
import random

from harness.common import watchdog, err_enum
from harness import realsys, specgen, history
from harness.history import Live, LIST_ATTRS, LINK_TARGET_KIND
from efootprint.abstract_modeling_classes.list_linked_to_modeling_obj import ListLinkedToModelingObj
from efootprint.abstract_modeling_classes.modeling_object import ModelingObject
from efootprint.core.system import System

PY_ERRS = {"pop": "IndexError", "delitem": "IndexError", "setitem": "IndexError", "remove": "ValueError", "insert": None}


def forward_refs(live):
    """{target name: set of names of objects referencing it through an attribute link or a list}"""
    inv = {o.id: n for n, o in live.rs.objs.items()}
    out = {n: set() for n in live.rs.objs}
    for n, o in live.rs.objs.items():
        for attr, v in o.__dict__.items():
            if attr in ("contextual_modeling_obj_containers",):
                continue
            if isinstance(v, ListLinkedToModelingObj):
                for e in v:
                    if e.id in inv:
                        out[inv[e.id]].add(n)
            elif isinstance(v, ModelingObject):
                if v.id in inv:
                    out[inv[v.id]].add(n)
    return out


def link_state_problems(live):
    """forward links vs reverse look-ups, spec (plain Python lists) vs real list content"""
    bad = []
    inv = {o.id: n for n, o in live.rs.objs.items()}
    fwd = forward_refs(live)
    for n, o in live.rs.objs.items():
        try:
            rev = {inv.get(c.id, c.id) for c in o.modeling_obj_containers}
        except Exception as e:  # noqa
            bad.append(("reverse-lookup-raises", f"{n}.modeling_obj_containers: {type(e).__name__}"))
            continue
        if rev != fwd[n]:
            bad.append(("reverse-links-differ", f"{n}: referenced by {sorted(fwd[n])} but reports {sorted(rev)}"))
    # list content = plain Python list subjected to the same operations (the spec)
    for kind, attr in list(LIST_ATTRS.items()) + [("system", "usage_patterns")]:
        entries = {"__system__": live.spec["system"]} if kind == "system" else live.spec[kind]
        for n, e in entries.items():
            try:
                real = [inv.get(x.id, x.id) for x in getattr(live.rs.objs[n], attr)]
            except Exception as ex:  # noqa
                bad.append(("list-read-raises", f"{n}.{attr}: {type(ex).__name__}"))
                continue
            if real != list(e[attr]):
                bad.append(("list-content-differs", f"{n}.{attr}: real {real} vs Python list semantics {list(e[attr])}"))
    # every list-valued link held by an object is attached to that object (else the next mutation breaks)
    for n, o in live.rs.objs.items():
        for attr, v in o.__dict__.items():
            if isinstance(v, ListLinkedToModelingObj):
                if v.modeling_obj_container is None or v.modeling_obj_container.id != o.id or v.attr_name_in_mod_obj_container != attr:
                    bad.append(("list-detached", f"{n}.{attr} is held by {n} but is not attached to it"))
                elif any(e.modeling_obj_container is None for e in v):
                    bad.append(("list-element-detached", f"an element of {n}.{attr} is not attached"))
    for sn in live.spec["servers"]:
        want = sorted(j for j, o in live.spec["jobs"].items() if o["server"] == sn)
        try:
            got = sorted(inv.get(x.id, x.id) for x in live.rs.objs[sn].jobs)
        except Exception as ex:  # noqa
            bad.append(("derived-lookup-raises", f"{sn}.jobs: {type(ex).__name__}"))
            continue
        if got != want:
            bad.append(("server-jobs-differ", f"{sn}.jobs = {got}, expected {want}"))
    for kind, attr, back in (("journeys", "usage_journey", "usage_patterns"), ("networks", "network", "usage_patterns"),
                             ("countries", "country", "usage_patterns")):
        for n in live.spec[kind]:
            want = sorted(p for p, o in live.spec["patterns"].items() if o[attr] == n)
            try:
                got = sorted(inv.get(x.id, x.id) for x in getattr(live.rs.objs[n], back))
            except Exception as ex:  # noqa
                bad.append(("derived-lookup-raises", f"{n}.{back}: {type(ex).__name__}"))
                continue
            if got != want:
                bad.append((f"{kind}-usage-patterns-differ", f"{n}.{back} = {got}, expected {want}"))
    # the system of any object reachable from the system
    reach = live.reachable_names() - {"__system__"}
    for n in reach:
        try:
            sysn = [s.id for s in live.rs.objs[n].systems]
        except Exception as ex:  # noqa
            bad.append(("systems-raises", f"{n}.systems: {type(ex).__name__}"))
            continue
        if sysn != [live.rs.system.id]:
            bad.append(("systems-differ", f"{n}.systems = {sysn}"))
    return bad


def gen_list_word_op(rng, spec):
    """any list mutator with present / absent / duplicate / no-op arguments"""
    spec = history.inside(spec)
    kind = rng.choice(["steps", "journeys", "patterns"])
    name = rng.choice(list(spec[kind]))
    attr = LIST_ATTRS[kind]
    cur = spec[kind][name][attr]
    pool = list(spec[LINK_TARGET_KIND[attr]])
    m = rng.choice(["append", "insert", "extend", "iadd", "imul", "pop", "remove", "clear", "delitem", "setitem", "assign"])
    present = rng.choice(cur) if cur else None
    absent = [x for x in pool if x not in cur]
    x = rng.choice([present] + absent) if (present and absent and rng.random() < 0.5) else (rng.choice(absent) if absent else present)
    if m == "assign":
        items = [rng.choice(pool) for _ in range(rng.randint(1, 3))]
        return {"op": "setlist", "kind": kind, "name": name, "attr": attr, "items": items}
    if m == "append" and x:
        return {"op": "listop", "kind": kind, "name": name, "attr": attr, "method": "append", "args": [x]}
    if m == "insert" and x:
        return {"op": "listop", "kind": kind, "name": name, "attr": attr, "method": "insert", "args": [rng.randint(0, len(cur) + 1), x]}
    if m in ("extend", "iadd"):
        k = rng.choice([0, 1, 2])
        return {"op": "listop", "kind": kind, "name": name, "attr": attr, "method": m,
                "args": [[rng.choice(pool) for _ in range(k)], rng.choice([0, 0, 1, 2, 3])]}
    if m == "imul":
        return {"op": "listop", "kind": kind, "name": name, "attr": attr, "method": "imul", "args": [rng.choice([0, 1, 2])]}
    if m == "pop":
        return {"op": "listop", "kind": kind, "name": name, "attr": attr, "method": "pop", "args": [rng.randint(-1, len(cur))] if rng.random() < 0.7 else []}
    if m == "remove" and (present or absent):
        return {"op": "listop", "kind": kind, "name": name, "attr": attr, "method": "remove", "args": [rng.choice([y for y in [present] + absent[:1] if y])]}
    if m == "clear":
        return {"op": "listop", "kind": kind, "name": name, "attr": attr, "method": "clear", "args": []}
    if m == "delitem":
        return {"op": "listop", "kind": kind, "name": name, "attr": attr, "method": "delitem", "args": [rng.randint(0, len(cur))]}
    if m == "setitem" and x:
        return {"op": "listop", "kind": kind, "name": name, "attr": attr, "method": "setitem", "args": [rng.randint(0, len(cur)), x]}
    return None


def python_outcome(spec, op):
    """what a plain Python list does with the same operation: 'ok' or the exception class name"""
    sp = copy.deepcopy(spec)
    tmp = Live.__new__(Live)
    tmp.spec = sp
    try:
        tmp.mirror(op)
        return "ok"
    except Exception as e:  # noqa
        return type(e).__name__


def is_noop(spec, op):
    sp = copy.deepcopy(spec)
    tmp = Live.__new__(Live)
    tmp.spec = sp
    try:
        tmp.mirror(op)
    except Exception:  # noqa
        return False
    return sp == spec


def lean_listop_request(spec, op):
    """the op as a request to Model D's list model (objects interned as numbers), or None"""
    kind = op.get("kind")
    attr = op.get("attr")
    pool = {n: i + 1 for i, n in enumerate(sorted(set(spec[LINK_TARGET_KIND[attr]])))} if attr in LINK_TARGET_KIND else None
    if pool is None or kind not in LIST_ATTRS or LIST_ATTRS[kind] != attr:
        return None, None
    cur = spec[kind][op["name"]][attr]
    req = {"cmd": "listop", "content": [pool[x] for x in cur]}
    if op["op"] == "setlist":
        req.update(method="assign", xs=[pool[x] for x in op["items"]])
        return req, pool
    m, a = op["method"], op.get("args", [])
    if m in ("iadd", "imul"):
        return None, None
    req["method"] = m
    if m == "append":
        req["x"] = pool[a[0]]
    elif m == "insert":
        req["i"], req["x"] = a[0], pool[a[1]]
    elif m == "extend":
        req["xs"] = [pool[x] for x in a[0]]
    elif m == "pop":
        req["i"] = a[0] if a else -1
    elif m == "delitem":
        req["i"] = a[0]
    elif m == "setitem":
        req["i"], req["x"] = a[0], pool[a[1]]
    elif m == "remove":
        req["x"] = pool[a[0]]
    return req, pool


def draft_container_problem(live, rng):
    """create a journey (or a step) outside the system that holds one of the system's objects twice, delete it,
    and compare who uses its members before, while and after"""
    from efootprint.core.usage.usage_journey import UsageJourney
    from efootprint.core.usage.usage_journey_step import UsageJourneyStep
    from efootprint.abstract_modeling_classes.source_objects import SourceValue
    from efootprint.constants.units import u
    sp = live.spec
    if rng.random() < 0.5 and any(st["jobs"] for st in sp["steps"].values()):
        names = sorted({j for st in sp["steps"].values() for j in st["jobs"]})
        kind = "step"
    else:
        names = sorted(sp["steps"])
        kind = "journey"
    if not names:
        return None
    rng.shuffle(names)
    members = names[:rng.randint(1, min(3, len(names)))]
    word = members + [members[0]]
    rng.shuffle(word)
    objs = [live.rs.objs[n] for n in word]
    uses = lambda: {n: sorted(c.id for c in live.rs.objs[n].modeling_obj_containers) for n in members}  # noqa
    before = uses()
    if kind == "step":
        draft = UsageJourneyStep("draft step", user_time_spent=SourceValue(1 * u.min), jobs=objs)
    else:
        draft = UsageJourney("draft journey", uj_steps=objs)
    info = {"kind": kind, "members": word}
    during = uses()
    for n in members:
        if sorted(before[n] + [draft.id]) != during[n]:
            return ("draft-container-not-registered", f"{n} is in the draft {kind} but reports being used by {during[n]} (before: {before[n]})", info)
    draft.self_delete()
    after = uses()
    for n in members:
        if after[n] != before[n]:
            return ("dangling-after-container-deletion", f"after deleting the draft {kind} {word}, {n} reports being used by {after[n]} (before the draft existed: {before[n]})", info)
        o = live.rs.objs[n]
        stale = [c for c in o.contextual_modeling_obj_containers if c.modeling_obj_container is not None and c.modeling_obj_container.id == draft.id]
        if stale:
            return ("dangling-after-container-deletion", f"after deleting the draft {kind} {word}, {n} still holds {len(stale)} back-reference(s) to it", info)
    bad = link_state_problems(live)
    if bad:
        return (f"{bad[0][0]}:after-container-deletion", bad[0][1], info)
    return None


def shard(args):
    seed, n_sys, n_ops = args
    rng = random.Random(seed)
    out = {"systems": 0, "steps": 0, "violations": [], "methods": {}, "samples": [], "hashes": [], "corr": [], "disagreements": []}
    for i in range(n_sys):
        spec = specgen.gen_safe_spec(rng, realsys.unit_info, allow_delete=False, allow_onprem=False)
        try:
            with watchdog(60):
                live = Live(spec)
        except Exception:  # noqa
            continue
        out["systems"] += 1
        ops = []
        guarded = (i % 3 != 0)      # two histories out of three stay inside the domain free of finding D11
        pre = link_state_problems(live)
        if pre:
            out["violations"].append({"signature": f"C16:{pre[0][0]}:fresh-system", "detail": pre[0][1], "replay": {"spec": spec, "ops": []}})
            continue
        applied = 0
        for k in range(n_ops * 6):
            if applied >= n_ops:
                break
            op = gen_list_word_op(rng, live.spec) if rng.random() < 0.7 else history.gen_link_edit(rng, live.spec)
            if op is None:
                continue
            # the method as it appears in signatures: `+=` / `extend` fed by a one-shot iterable is named as such
            mname = op.get("method", op["op"])
            if mname in ("extend", "iadd") and len(op.get("args", [])) > 1 and op["args"][1]:
                mname += "-from-one-shot-iterable"
            label = mname + ":" + op.get("attr", "")
            noop = is_noop(live.spec, op)
            py = python_outcome(live.spec, op)
            if guarded and (noop or op.get("method") in ("remove", "imul", "iadd")):
                continue
            # keep systems computable: do not empty device lists / journeys of steps / the system's pattern list
            sp2 = copy.deepcopy(live.spec)
            tmp = Live.__new__(Live)
            tmp.spec = sp2
            try:
                tmp.mirror(op)
                if any(not p["devices"] for p in sp2["patterns"].values()) or not specgen.spec_is_safe(sp2, realsys.unit_info) \
                        or history.has_shared_job(sp2):
                    continue
            except Exception:  # noqa
                pass
            ops.append(op)
            out["methods"][label] = out["methods"].get(label, 0) + 1
            req, pool = lean_listop_request(live.spec, op)
            st, err = live.apply(op)
            out["steps"] += 1
            applied += 1
            if req is not None:
                # observation of the real list: content, attachment of the list held by the owner, exception class
                owner = live.rs.objs[op["name"]]
                lst = owner.__dict__.get(op["attr"])
                inv = {o.id: n for n, o in live.rs.objs.items()}
                real_content = [pool.get(inv.get(e.id)) for e in lst]
                real_att = lst.modeling_obj_container is not None
                real_err = None if st == "ok" else {"other:IndexError": "IndexError", "other:ValueError": "ValueError", "other:AttributeError": "AttributeError"}.get(err, err)
                out["corr"].append((req, {"content": real_content, "attached": real_att, "err": real_err}, {"spec": spec, "ops": list(ops)}))
            trig = "no-op" if noop else ("python-raises" if py != "ok" else "effective")
            if py != "ok":
                # a plain list raises: the linked list must raise the same class and change nothing
                if st == "ok":
                    out["violations"].append({"signature": f"C16:no-exception:{mname}:{trig}", "detail": f"Python raises {py}", "replay": {"spec": spec, "ops": list(ops)}})
                    break
            elif st == "err":
                out["violations"].append({"signature": f"C16:raises:{mname}:{trig}:{err}", "detail": f"{label}: the operation is legal on a Python list but raises {err}",
                                          "replay": {"spec": spec, "ops": list(ops)}})
                break
            bad = link_state_problems(live)
            if bad:
                out["violations"].append({"signature": f"C16:{bad[0][0]}:{mname}:{trig}", "detail": f"after {label}: {bad[0][1]}",
                                          "replay": {"spec": spec, "ops": list(ops)}})
                break
        # deletion guard and one-system rule on the final state
        try:
            with watchdog(30):
                ref = next((n for n, s in forward_refs(live).items() if s and n != "__system__"), None)
                if ref:
                    try:
                        live.rs.objs[ref].self_delete()
                        out["violations"].append({"signature": "C16:referenced-object-deleted", "detail": f"{ref} is still referenced but self_delete() succeeded",
                                                  "replay": {"spec": spec, "ops": list(ops)}})
                    except PermissionError:
                        pass
                pats = [live.rs.objs[p] for p in live.spec["system"]["usage_patterns"][:1]]
                if pats:
                    try:
                        System("second system", usage_patterns=pats)
                        out["violations"].append({"signature": "C16:object-in-two-systems", "detail": "a usage pattern of the system was accepted by a second system",
                                                  "replay": {"spec": spec, "ops": list(ops)}})
                    except PermissionError:
                        pass
        except Exception as e:  # noqa
            out["violations"].append({"signature": f"C16:guards-raise:{type(e).__name__}", "detail": str(e)[:200], "replay": {"spec": spec, "ops": list(ops)}})
        # a link assigned with a value read from another object (`job_1.server = job_2.server`), then moved again: the
        # first target must be used by exactly the objects that still point to it
        try:
            with watchdog(30):
                if not link_state_problems(live):
                    sp_ = live.spec
                    pairs = [(a, b) for a in sorted(sp_["jobs"]) for b in sorted(sp_["jobs"]) if a != b and sp_["jobs"][a]["server"] != sp_["jobs"][b]["server"]
                             and sp_["servers"][sp_["jobs"][a]["server"]].get("cls", "Server") == sp_["servers"][sp_["jobs"][b]["server"]].get("cls", "Server")]
                    if pairs:
                        a, b = rng.choice(pairs)
                        orig_srv, borrowed = sp_["jobs"][a]["server"], sp_["jobs"][b]["server"]
                        seq = [{"op": "setlink", "kind": "jobs", "name": a, "attr": "server", "target": borrowed, "via_wrapper": True},
                               {"op": "setlink", "kind": "jobs", "name": a, "attr": "server", "target": orig_srv}]
                        out["methods"]["borrowed-link"] = out["methods"].get("borrowed-link", 0) + 1
                        for k_, o_ in enumerate(seq):
                            st_, err_ = live.apply(o_)
                            if st_ != "ok":
                                break
                            ops.append(o_)
                            bad_ = link_state_problems(live)
                            if bad_:
                                out["violations"].append({"signature": f"C16:{bad_[0][0]}:{'borrowed-link' if k_ == 0 else 'move-after-borrowed-link'}",
                                                          "detail": f"after {a}.server = {'%s.server' % b if k_ == 0 else orig_srv}: {bad_[0][1]}",
                                                          "replay": {"spec": spec, "ops": list(ops)}})
                                break
        except Exception as e:  # noqa
            out["violations"].append({"signature": f"C16:borrowed-link-raises:{type(e).__name__}", "detail": str(e)[:200], "replay": {"spec": spec, "ops": list(ops)}})
        # one grouped update whose new values refer to the same object twice: two jobs moved to one server, two steps
        # given lists that share a job — every new link must be registered on its target
        try:
            with watchdog(60):
                for flavour in ("servers", "steps"):
                    if link_state_problems(live):
                        break
                    sp_ = live.spec
                    grp = None
                    if flavour == "servers":
                        cands = []
                        for t_ in sorted(sp_["servers"]):
                            movers = [j for j in sorted(sp_["jobs"]) if sp_["jobs"][j]["server"] != t_ and not str(j).endswith("_out")
                                      and sp_["servers"][sp_["jobs"][j]["server"]].get("cls", "Server") == sp_["servers"][t_].get("cls", "Server")]
                            if len(movers) >= 2:
                                cands.append((t_, movers))
                        if cands:
                            t_, movers = rng.choice(cands)
                            a, b = rng.sample(movers, 2)
                            grp = {"op": "group", "kind": "jobs", "changes": [
                                {"op": "setlink", "kind": "jobs", "name": a, "attr": "server", "target": t_},
                                {"op": "setlink", "kind": "jobs", "name": b, "attr": "server", "target": t_}]}
                    else:
                        for ujn in sorted(sp_["journeys"]):
                            steps_ = sp_["journeys"][ujn]["uj_steps"]
                            st2 = sorted(set(steps_))
                            own = [j for s_ in st2 for j in sp_["steps"][s_]["jobs"]]
                            if len(st2) >= 2 and own and not str(ujn).endswith("_out"):
                                s1, s2 = rng.sample(st2, 2)
                                j = rng.choice(own)
                                grp = {"op": "group", "kind": "steps", "changes": [
                                    {"op": "setlist", "kind": "steps", "name": s1, "attr": "jobs", "items": sp_["steps"][s1]["jobs"] + [j]},
                                    {"op": "setlist", "kind": "steps", "name": s2, "attr": "jobs", "items": [j] + sp_["steps"][s2]["jobs"]}]}
                                break
                    if grp is None:
                        continue
                    sp2 = copy.deepcopy(sp_)
                    tmp = Live.__new__(Live)
                    tmp.spec = sp2
                    tmp.mirror(grp)
                    if not specgen.spec_is_safe(sp2, realsys.unit_info) or history.has_shared_job(sp2):
                        continue
                    lab_ = "grouped-links-same-target:" + flavour
                    out["methods"][lab_] = out["methods"].get(lab_, 0) + 1
                    st_, err_ = live.apply(grp)
                    if st_ != "ok":
                        out["methods"][lab_ + ":refused:" + str(err_)] = out["methods"].get(lab_ + ":refused:" + str(err_), 0) + 1
                        break
                    ops.append(grp)
                    bad_ = link_state_problems(live)
                    if bad_:
                        out["violations"].append({"signature": f"C16:{bad_[0][0]}:{lab_}", "detail": f"after one update {[(c['name'], c['attr']) for c in grp['changes']]}: {bad_[0][1]}",
                                                  "replay": {"spec": spec, "ops": list(ops)}})
                        break
        except Exception as e:  # noqa
            out["violations"].append({"signature": f"C16:grouped-links-raise:{type(e).__name__}", "detail": str(e)[:200], "replay": {"spec": spec, "ops": list(ops)}})
        # a draft container that holds the same object twice, created next to the system and deleted again:
        # its members are used by exactly what used them before
        try:
            with watchdog(30):
                why = None if link_state_problems(live) else draft_container_problem(live, rng)
                out["methods"]["draft-container"] = out["methods"].get("draft-container", 0) + 1
                if why:
                    out["violations"].append({"signature": f"C16:{why[0]}", "detail": why[1], "replay": {"spec": spec, "ops": list(ops), "draft": why[2]}})
        except Exception as e:  # noqa
            out["violations"].append({"signature": f"C16:draft-container-raises:{type(e).__name__}", "detail": str(e)[:200], "replay": {"spec": spec, "ops": list(ops)}})
        from harness.engine_oracles import sysoracles_hash
        out["hashes"].append(sysoracles_hash(spec, ops))
        if len(out["samples"]) < 1:
            out["samples"].append({"ops": [o.get("method", o["op"]) + ":" + o.get("attr", "") + str(o.get("args", o.get("items", o.get("target", "")))) for o in ops]})
    if out["corr"]:
        from harness.common import run_lean
        answers = run_lean([c[0] for c in out["corr"]])
        for (req, real, rep), ans in zip(out["corr"], answers):
            if "bad" in ans:
                out["disagreements"].append({"why": "driver: " + ans["bad"], "replay": rep})
            elif (ans["content"], ans["attached"], ans["err"]) != (real["content"], real["attached"], real["err"]):
                out["disagreements"].append({"why": f"{req['method']} on {req['content']}: model content {ans['content']} attached {ans['attached']} err {ans['err']}; "
                                                    f"real content {real['content']} attached {real['attached']} err {real['err']}", "replay": rep})
    out["corr"] = len(out["corr"])
    return out

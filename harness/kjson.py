"""C13 oracle (export → load → export, objects/links/labels/sources/inputs/results equal, liveness,
version-9 files) and K-json (the Lean JSON model vs system_to_json / json_to_system)."""
import copy
import json
import random

from harness.common import watchdog, err_enum, frac, rat_str
from harness import realsys, richsys, specgen, history, sysoracles, snapshot
from harness.realsys import u, SourceValue
from efootprint.api_utils.system_to_json import system_to_json
from efootprint.api_utils.json_to_system import json_to_system
from efootprint.abstract_modeling_classes.explainable_object_base_class import ExplainableObject
from efootprint.abstract_modeling_classes.explainable_objects import (
    ExplainableQuantity, ExplainableHourlyQuantities, EmptyExplainableObject)
from efootprint.abstract_modeling_classes.explainable_object_dict import ExplainableObjectDict
from efootprint.abstract_modeling_classes.list_linked_to_modeling_obj import ListLinkedToModelingObj
from efootprint.abstract_modeling_classes.modeling_object import ModelingObject


def all_objects(system):
    return {o.id: o for o in system.all_linked_objects + [system]}


def describe_inputs(obj):
    """inputs, links, labels, sources of one object, independent of to_json"""
    out = {"class": type(obj).__name__, "name": obj.name, "id": obj.id, "attrs": {}}
    for k, v in obj.__dict__.items():
        if k in obj.calculated_attributes or k in obj.attributes_that_shouldnt_trigger_update_logic:
            continue
        if isinstance(v, ListLinkedToModelingObj):
            out["attrs"][k] = ("list", [e.id for e in v])
        elif isinstance(v, ModelingObject):
            out["attrs"][k] = ("link", v.id)
        elif isinstance(v, ExplainableHourlyQuantities):
            out["attrs"][k] = ("h", [round(float(x), 3) for x in v.value_as_float_list], str(v.unit),
                               str(v.value.index[0]), v.label, v.source.name if v.source else None)
        elif isinstance(v, ExplainableQuantity):
            out["attrs"][k] = ("q", float(v.value.magnitude), str(v.value.units), v.label, v.source.name if v.source else None)
        elif isinstance(v, EmptyExplainableObject):
            out["attrs"][k] = ("empty", v.label)
        elif isinstance(v, ExplainableObject):
            out["attrs"][k] = ("obj", str(getattr(v.value, "zone", v.value)), v.label, v.source.name if v.source else None)
        elif isinstance(v, (str, int, float)) or v is None:
            out["attrs"][k] = ("raw", v)
    return out


def observe_system(system, names=None):
    """{(object id, attr, key id): canonical value} over the system's objects"""
    out = {}
    for oid, o in all_objects(system).items():
        for attr in o.calculated_attributes:
            v = getattr(o, attr)
            if isinstance(v, ExplainableObjectDict):
                for k, vv in v.items():
                    out[(oid, attr, getattr(k, "id", str(k)))] = realsys.canon(vv)
            else:
                out[(oid, attr, "")] = realsys.canon(v)
    return out


def hourly_inputs_3dec(system):
    """are all hourly inputs representable with 3 decimals (then results must be equal after reload)"""
    for o in all_objects(system).values():
        for k, v in o.__dict__.items():
            if k not in o.calculated_attributes and isinstance(v, ExplainableHourlyQuantities):
                if any(abs(round(x, 3) - x) > 1e-12 for x in v.value_as_float_list):
                    return False
    return True


def round_trip(system, save_calc, edit=None):
    """returns list of (signature suffix, detail)"""
    bad = []
    try:
        j1 = system_to_json(system, save_calculated_attributes=save_calc)
    except Exception as e:  # noqa
        kind = "dangling-ancestor" if "have a modeling_obj_container" in str(e) else str(e)[:20]
        return [(f"save-raises:{type(e).__name__}-{kind}", f"{type(e).__name__}: {e}")], None
    text = json.dumps(j1)
    try:
        with watchdog(120):
            class_objs, flat = json_to_system(json.loads(text))
    except Exception as e:  # noqa
        if "negative cumulative storage need" in str(e) and "delete data: []" in str(e):
            # the same inputs rounded to 3 decimals, a cumulative need of −1e-18 TB without any deleting job: float
            # cancellation in the cumulative storage need (finding D4, judged under C04), not a question of saving
            return [("__inconclusive__", "D4 at load")], None
        return [(f"load-raises:{type(e).__name__}-{str(e)[:20].strip(chr(39))}", f"{type(e).__name__}: {e}")], None
    sys2 = list(class_objs["System"].values())[0]
    try:
        with watchdog(120):
            j2 = system_to_json(sys2, save_calculated_attributes=save_calc)
    except Exception as e:  # noqa
        return [(f"re-export-raises:{type(e).__name__}", f"exporting the loaded system raises {type(e).__name__}: {str(e)[:160]}")], None
    if not save_calc:
        if j1 != j2:
            diff = first_json_diff(j1, j2)
            bad.append(("re-export-differs", diff))
    else:
        # edges towards values of objects that are not part of the export (a journey no usage pattern uses, computed as a
        # side effect of an edit of a step it shares with the system) cannot be compared: the loaded model has no such object
        j1x, j2x = drop_links_outside(j1, system), drop_links_outside(j2, sys2)
        d = first_json_diff(strip_calc(j1x, system), strip_calc(j2x, sys2))
        if d:
            j1, j2 = j1x, j2x
            # D25: a calculated attribute that is empty ("no value") keeps dependency links in an edited model that a
            # freshly computed model never creates (e.g. a network of a usage pattern left without jobs)
            d2 = first_json_diff(drop_empty_links(strip_calc(j1, system), system), drop_empty_links(strip_calc(j2, sys2), sys2))
            bad.append(("re-export-differs" if d2 else "re-export-differs:links-to-empty-results", d2 or d))
    o1, o2 = all_objects(system), all_objects(sys2)
    if set(o1) != set(o2):
        bad.append(("objects-differ", f"only in original: {sorted(set(o1) - set(o2))[:3]}, only in loaded: {sorted(set(o2) - set(o1))[:3]}"))
    else:
        for oid in o1:
            a, b = describe_inputs(o1[oid]), describe_inputs(o2[oid])
            if a != b:
                k = next((k for k in set(a["attrs"]) | set(b["attrs"]) if a["attrs"].get(k) != b["attrs"].get(k)), "class/name")
                bad.append(("inputs-differ", f"{a['class']} {a['name']}.{k}: {a['attrs'].get(k)} vs {b['attrs'].get(k)}"))
                break
        if not bad and hourly_inputs_3dec(system):
            why = sysoracles.obs_diff(observe_system(system), observe_system(sys2))
            if why:
                bad.append(("results-differ", why))
    return bad, sys2


def strip_calc(j, system):
    out = copy.deepcopy(j)
    objs = all_objects(system)
    for cls, d in out.items():
        if not isinstance(d, dict):
            continue
        for oid, od in d.items():
            o = objs.get(oid)
            if o is not None:
                for a in o.calculated_attributes:
                    od.pop(a, None)
    return out


def drop_empty_links(j, system):
    """j without the ids of empty calculated attributes in the `direct_children_with_id` lists"""
    from efootprint.abstract_modeling_classes.explainable_objects import EmptyExplainableObject
    empty = set()
    for o in all_objects(system).values():
        for a in o.calculated_attributes:
            v = getattr(o, a, None)
            if isinstance(v, EmptyExplainableObject):
                empty.add(f"{a}-in-{o.id}")

    def walk(x):
        if isinstance(x, dict):
            return {k: ([i for i in v if i not in empty] if k == "direct_children_with_id" and isinstance(v, list) else walk(v))
                    for k, v in x.items()}
        if isinstance(x, list):
            return [walk(i) for i in x]
        return x
    return walk(j)


def drop_links_outside(j, system):
    """j without the ids, in `direct_children_with_id` lists, of values held by objects that are not exported"""
    inside_ids = set(all_objects(system))

    def owner(i):
        return str(i).split("-in-", 1)[1] if "-in-" in str(i) else None

    def walk(x):
        if isinstance(x, dict):
            return {k: ([i for i in v if owner(i) is None or owner(i) in inside_ids] if k == "direct_children_with_id" and isinstance(v, list) else walk(v))
                    for k, v in x.items()}
        if isinstance(x, list):
            return [walk(i) for i in x]
        return x
    return walk(j)


def first_json_diff(a, b, path=""):
    if type(a) != type(b):
        return f"{path}: {type(a).__name__} vs {type(b).__name__}"
    if isinstance(a, dict):
        for k in sorted(set(a) | set(b)):
            if k not in a or k not in b:
                return f"{path}/{k}: present on one side only"
            d = first_json_diff(a[k], b[k], f"{path}/{k}")
            if d:
                return d
        return None
    if isinstance(a, list):
        if path.endswith("direct_children_with_id") or path.endswith("direct_ancestors_with_id"):
            a, b = sorted(a), sorted(b)      # the graph is compared as sets of edges
        if len(a) != len(b):
            return f"{path}: lengths {len(a)} vs {len(b)}"
        for i, (x, y) in enumerate(zip(a, b)):
            d = first_json_diff(x, y, f"{path}[{i}]")
            if d:
                return d
        return None
    return None if a == b else f"{path}: {a!r} vs {b!r}"


def liveness(system, sys2):
    """the same edit on the original and on the loaded system gives equal results"""
    o1, o2 = all_objects(system), all_objects(sys2)
    jobs = [oid for oid, o in o1.items() if type(o).__name__ == "Job"]
    nets = [oid for oid, o in o1.items() if type(o).__name__ == "Network"]
    try:
        with watchdog(60):
            for objs in (o1, o2):
                if jobs:
                    objs[jobs[0]].data_transferred = SourceValue(321.5 * u.kB)
                if nets:
                    objs[nets[0]].bandwidth_energy_intensity = SourceValue(0.077 * u("kWh/GB"))
            # a list-valued link that was saved empty is a list-valued link after the load too: a job appended to a step
            # without jobs (of the system) is an edit on both sides
            sys_ids = {o.id for o in system.all_linked_objects}
            empty_steps = sorted(oid for oid, o in o1.items() if type(o).__name__ == "UsageJourneyStep" and oid in sys_ids and len(o.jobs) == 0)
            sys_jobs = sorted(oid for oid in jobs if oid in sys_ids)
            if empty_steps and sys_jobs:
                for objs in (o1, o2):
                    objs[empty_steps[0]].jobs.append(objs[sys_jobs[0]])
                if [j.id for j in o1[empty_steps[0]].jobs] != [j.id for j in o2[empty_steps[0]].jobs]:
                    return "edit-after-load: the job appended to a step without jobs is not in the loaded step's list"
    except Exception as e:  # noqa
        return f"edit-after-load-raises:{err_enum(e)}"
    return sysoracles.obs_diff(observe_system(system), observe_system(sys2))


def version9(system):
    """a file written by the previous major version (key 'Hardware' instead of 'Device') loads to the same model"""
    j = system_to_json(system, save_calculated_attributes=False)
    j9 = json.loads(json.dumps(j))
    j9["efootprint_version"] = "9.1.4"
    if "Device" in j9:
        j9["Hardware"] = j9.pop("Device")
    try:
        with watchdog(120):
            class_objs, flat = json_to_system(j9)
    except Exception as e:  # noqa
        return f"v9-load-raises:{type(e).__name__}"
    sys2 = list(class_objs["System"].values())[0]
    j2 = system_to_json(sys2, save_calculated_attributes=False)
    return first_json_diff({k: v for k, v in j.items()}, {k: v for k, v in j2.items()})


def shard(args):
    seed, n = args
    rng = random.Random(seed)
    out = {"cases": 0, "violations": [], "samples": [], "kinds": {}, "disagreements": [], "corr": 0}
    for i in range(n):
        kind = "rich" if i % 4 == 0 else "generated"
        ops, raw_ops = [], []
        try:
            with watchdog(120):
                if kind == "rich":
                    objs = richsys.build(values=[round(rng.uniform(0.5, 30), rng.choice([0, 2, 3])) for _ in range(rng.randint(3, 12))])
                    system = objs["sys"]
                    if rng.random() < 0.5:
                        objs["job"].data_stored = SourceValue(rng.choice([120.25, 80]) * u.kB)
                        ops.append("edit job.data_stored")
                else:
                    # (every other case: storage durations of a few hours, written in any unit, so that data expires within
                    # the modelled period — a duration misread at load then shows in the recomputed results)
                    spec = specgen.gen_safe_spec(rng, realsys.unit_info, allow_delete=False, allow_dumps=(i % 2 == 1))
                    if i % 3 == 1:
                        # the legal corners made certain: a step without jobs, a repeated step / device, a spare server …
                        sp2 = specgen.plant_corners(specgen.unshare_jobs(spec), rng)
                        if specgen.spec_is_safe(sp2, realsys.unit_info):
                            spec = sp2
                    if rng.random() < 0.7:
                        spec = specgen.with_random_sources(spec, rng)
                    spec0 = copy.deepcopy(spec)
                    live = history.Live(spec)
                    from harness import engine_oracles as eo
                    for _ in range(rng.randint(0, 3)):
                        op = eo.gen_op(rng, live.spec, True)
                        if op and eo.safe_after(live, op):
                            if live.apply(op)[0] == "err":
                                # a refused edit leaves a half-recomputed model until it is recovered (C15's
                                # subject, not C13's): start again from the freshly built model
                                live = history.Live(copy.deepcopy(spec0))
                                ops, raw_ops = [], []
                                break
                            ops.append(eo.op_label(op))
                            raw_ops.append(op)
                    system = live.rs.system
        except Exception as e:  # noqa
            continue
        out["cases"] += 1
        out["kinds"][kind] = out["kinds"].get(kind, 0) + 1
        if i % 2 == 0:
            out["corr"] += 1
            for d in kjson_case(system):
                out["disagreements"].append({"why": d, "kind": kind, "seed": seed, "index": i})
        save_calc = rng.random() < 0.4
        bad, sys2 = round_trip(system, save_calc)
        if bad and bad[0][0] == "__inconclusive__":
            out["inconclusive"] = out.get("inconclusive", 0) + 1
            continue
        for sig, detail in bad:
            trig = ""
            if sig.startswith("save-raises") and kind == "generated":
                trig = ":shared-job" if history.has_shared_job(live.spec) else ":no-shared-job"
            out["violations"].append({"signature": f"C13:{sig}" + (":with-calculated" if save_calc else "") + trig, "detail": detail,
                                      "replay": {"kind": kind, "seed": seed, "index": i, "ops": ops,
                                                 "spec": spec0 if kind == "generated" else None, "raw_ops": raw_ops}})
        if not bad:
            d = version9(system)
            if d:
                out["violations"].append({"signature": "C13:version-9-file", "detail": d, "replay": {"kind": kind, "seed": seed, "index": i}})
            if sys2 is not None and hourly_inputs_3dec(system):
                d = liveness(system, sys2)
                if d:
                    out["violations"].append({"signature": "C13:loaded-system-not-live", "detail": d, "replay": {"kind": kind, "seed": seed, "index": i}})
        if len(out["samples"]) < 1:
            out["samples"].append({"kind": kind, "history": ops, "save_calculated_attributes": save_calc,
                                   "objects": len(all_objects(system))})
    return out


# ---------------------------------------------------------------------------------------------
# K-json: the Lean JSON model (Model E) vs system_to_json / json_to_system
# ---------------------------------------------------------------------------------------------
def _src(v):
    s = getattr(v, "source", None)
    return [s.name, s.link if s.link is not None else "<null>"] if s is not None else None


def typed_model_value(v):
    import calendar
    from efootprint.abstract_modeling_classes.modeling_update import ModelingUpdate
    if v is None:
        return {"t": "null"}
    if isinstance(v, str):
        return {"t": "raw", "s": v}
    if isinstance(v, ListLinkedToModelingObj):
        return {"t": "list", "ids": [e.id for e in v]}
    if isinstance(v, ModelingObject):
        return {"t": "link", "id": v.id}
    if isinstance(v, ModelingUpdate):
        return None
    if isinstance(v, ExplainableHourlyQuantities):
        t0 = v.value.index[0]
        start = calendar.timegm(t0.timetuple())
        return {"t": "h", "start": start, "vals": [rat_str(x) for x in v.value_as_float_list], "unit": str(v.unit),
                "label": v.label, "source": _src(v)}
    if isinstance(v, ExplainableQuantity):
        return {"t": "q", "mag": rat_str(float(v.value.magnitude)), "unit": str(v.value.units), "label": v.label, "source": _src(v)}
    if isinstance(v, EmptyExplainableObject):
        return {"t": "empty", "label": v.label}
    if isinstance(v, ExplainableObject):
        val = getattr(v.value, "zone", None) or (v.value if isinstance(v.value, str) else None)
        if val is None:
            return None
        return {"t": "sobj", "value": val, "label": v.label, "source": _src(v)}
    return None


def typed_model(system):
    """the model's view of the system: every object with its inputs and links, in attribute order"""
    out = []
    for oid, o in all_objects(system).items():
        attrs = []
        for k, v in o.__dict__.items():
            if k in ("name", "id", "short_name", "impact_url"):
                attrs.append([k, {"t": "raw", "s": v} if v is not None else {"t": "null"}])
                continue
            if k in o.calculated_attributes or k in o.attributes_that_shouldnt_trigger_update_logic:
                continue
            tv = typed_model_value(v)
            if tv is not None:
                attrs.append([k, tv])
        out.append({"cls": type(getattr(o, "_value", o)).__name__, "id": o.id, "attrs": attrs})
    return out


def typed_json(j):
    """the real JSON output as typed values"""
    import calendar
    from datetime import datetime
    out = []
    for cls, d in j.items():
        if not isinstance(d, dict):
            continue
        for oid, od in d.items():
            attrs = []
            for k, v in od.items():
                if v is None:
                    tv = {"t": "null"}
                elif isinstance(v, str):
                    tv = {"t": "str", "s": v}
                elif isinstance(v, list):
                    tv = {"t": "strs", "l": v}
                elif isinstance(v, dict):
                    src = [v["source"]["name"], v["source"]["link"] if v["source"]["link"] is not None else "<null>"] if "source" in v else None
                    if "values" in v:
                        t0 = datetime.strptime(v["start_date"], "%Y-%m-%d %H:%M:%S")
                        tv = {"t": "h", "start": calendar.timegm(t0.timetuple()), "vals": [rat_str(x) for x in v["values"]],
                              "unit": v["unit"], "label": v["label"], "source": src}
                    elif "unit" in v:
                        tv = {"t": "q", "mag": rat_str(v["value"]), "unit": v["unit"], "label": v["label"], "source": src}
                    elif "zone" in v:
                        tv = {"t": "sobj", "value": v["zone"], "label": v["label"], "source": src}
                    elif "value" in v and v["value"] is None:
                        tv = {"t": "empty", "label": v["label"]}
                    elif "value" in v:
                        tv = {"t": "sobj", "value": v["value"], "label": v["label"], "source": src}
                    else:
                        tv = {"t": "other", "keys": sorted(v)}
                else:
                    tv = {"t": "other", "py": type(v).__name__}
                attrs.append([k, tv])
            out.append({"cls": cls, "id": oid, "attrs": attrs})
    return out


def norm_typed(objs):
    """canonical form for comparison: objects by id, values with rationals normalised"""
    from fractions import Fraction
    out = {}
    for o in objs:
        attrs = {}
        for k, v in o["attrs"]:
            v = dict(v)
            if "vals" in v:
                v["vals"] = [repr(float(Fraction(x))) for x in v["vals"]]
            if "mag" in v:
                v["mag"] = repr(float(Fraction(v["mag"])))
            if v.get("source") is None:
                v.pop("source", None)
            attrs[k] = v
        out[o["id"]] = {"cls": o["cls"], "attrs": attrs}
    return out


def kjson_case(system):
    """returns disagreements between Model E and the real export/import of this system"""
    from harness.common import run_lean
    dis = []
    model = typed_model(system)
    j = system_to_json(system, save_calculated_attributes=False)
    real_j = typed_json(j)
    enc, = run_lean([{"cmd": "jsonenc", "model": model, "root": system.id}])
    if "bad" in enc:
        return [f"driver: {enc['bad']}"]
    if not enc["done"]:
        dis.append("model traversal did not finish")
    a, b = norm_typed(enc["objs"]), norm_typed(real_j)
    if set(a) != set(b):
        dis.append(f"exported objects differ: model only {sorted(set(a) - set(b))[:3]}, real only {sorted(set(b) - set(a))[:3]}")
    else:
        for oid in a:
            if a[oid] != b[oid]:
                k = next((k for k in set(a[oid]["attrs"]) | set(b[oid]["attrs"]) if a[oid]["attrs"].get(k) != b[oid]["attrs"].get(k)), None)
                dis.append(f"export of {oid}.{k}: model {a[oid]['attrs'].get(k) if k else a[oid]['cls']} real {b[oid]['attrs'].get(k) if k else b[oid]['cls']}")
                break
    # import: the real loader vs the model's decode, on the real JSON
    try:
        with watchdog(120):
            class_objs, flat = json_to_system(json.loads(json.dumps(j)))
        sys2 = list(class_objs["System"].values())[0]
        dec, = run_lean([{"cmd": "jsondec", "jsys": real_j}])
        if "bad" in dec:
            dis.append(f"driver: {dec['bad']}")
        else:
            a, b = norm_typed(dec["objs"]), norm_typed(typed_model(sys2))
            if set(a) != set(b):
                dis.append(f"loaded objects differ: model only {sorted(set(a) - set(b))[:3]}, real only {sorted(set(b) - set(a))[:3]}")
            else:
                for oid in a:
                    if a[oid] != b[oid]:
                        k = next((k for k in set(a[oid]["attrs"]) | set(b[oid]["attrs"]) if a[oid]["attrs"].get(k) != b[oid]["attrs"].get(k)), None)
                        dis.append(f"import of {oid}.{k}: model {a[oid]['attrs'].get(k) if k else a[oid]['cls']} real {b[oid]['attrs'].get(k) if k else b[oid]['cls']}")
                        break
    except Exception as e:  # noqa
        dis.append(f"real load raises {type(e).__name__}: {e}")
    return dis


def witness_d19():
    """a name equal to the id of another exported object is loaded as a link (predicted by Model E)"""
    o = richsys.build()
    o["dev"].name = o["net"].id
    j = system_to_json(o["sys"], False)
    try:
        c, flat = json_to_system(json.loads(json.dumps(j)))
        d = flat[o["dev"].id]
        if not isinstance(d.name, str):
            return "C13:name-equal-to-object-id-loaded-as-link"
    except Exception as e:  # noqa
        return f"C13:name-equal-to-object-id:load-raises:{type(e).__name__}"
    return None

"""K-tz: ExplainableHourlyQuantities.convert_to_utc vs the Lean `convertToUtc` around transitions of
pytz zones, plus the direct C11 oracle (total, strictly increasing, placement vs plain pytz)."""
import calendar
import random
from datetime import datetime, timedelta

import numpy as np
import pandas as pd
import pint_pandas
import pytz

from harness.common import watchdog, run_lean, err_enum, rat_str, frac
from harness import realsys, leanio
from harness.realsys import u, ExplainableHourlyQuantities, SourceObject, canon
from efootprint.abstract_modeling_classes.explainable_objects import EmptyExplainableObject

QUICK_ZONES = ["Europe/Paris", "America/New_York", "Australia/Lord_Howe", "Asia/Kathmandu", "Asia/Kolkata",
               "Pacific/Apia", "Pacific/Kwajalein", "America/St_Johns", "Pacific/Chatham", "Australia/Adelaide",
               "Africa/Casablanca", "America/Sao_Paulo", "Asia/Tehran", "Europe/London", "Pacific/Auckland",
               "America/Caracas", "Asia/Pyongyang", "Pacific/Rarotonga", "Antarctica/Troll", "Europe/Dublin",
               "America/Havana", "Asia/Gaza", "Africa/Cairo", "America/Godthab", "UTC", "Asia/Tokyo",
               "Pacific/Tongatapu", "America/Santiago", "Australia/Sydney", "Europe/Moscow", "Asia/Colombo",
               "Pacific/Norfolk", "America/Asuncion", "Africa/Juba", "Asia/Dhaka", "Pacific/Fiji",
               "America/Port-au-Prince", "Europe/Istanbul", "Atlantic/Azores", "Indian/Cocos",
               # legal IANA names that are links / legacy names (not in pytz.common_timezones)
               "Asia/Calcutta", "NZ-CHAT", "Australia/LHI", "Europe/Kiev", "Asia/Katmandu", "Japan", "GB", "Etc/GMT+5"]


def transitions(name, lo_year=1950, hi_year=2037):
    tz = pytz.timezone(name)
    if not hasattr(tz, "_utc_transition_times"):
        return []
    out = []
    prev = None
    for t, info in zip(tz._utc_transition_times, tz._transition_info):
        off = int(info[0].total_seconds())
        if t.year >= lo_year and t.year <= hi_year and prev is not None:
            out.append((calendar.timegm(t.timetuple()), prev, off))
        prev = off
    return out


def make_case(zone, tr, rng, n=None):
    """a series of n local hours straddling the transition (or a random date when tr is None)"""
    n = n or rng.randint(4, 10)
    if tr is None:
        base = calendar.timegm((rng.randint(1990, 2030), rng.randint(1, 12), rng.randint(1, 28), rng.randint(0, 23), 0, 0))
    else:
        t, before, after = tr
        local = t + before
        local -= local % 3600                       # series start on whole local hours
        base = local - 3600 * rng.randint(1, n - 1)
        if after - before > 3600 and rng.random() < 0.7:
            # a clock moved forward by more than an hour (a skipped calendar day: Pacific/Apia 2011, Kwajalein 1993): the
            # series covers both sides of the gap — many local hours that do not exist, all merged into the first that does
            lead = rng.randint(1, 4)
            n = lead + (after - before) // 3600 + rng.randint(2, 6)
            base = local - 3600 * lead
    vals = [rng.choice([0.0, round(rng.uniform(0.5, 90), 2)]) for _ in range(n)]
    return {"zone": zone, "start": base, "vs": vals}


def make_repeated_case(zone, tr, rng):
    """local hours around a fall-back transition as a wall clock shows them: the repeated hour is listed twice (an input
    wrapped in SourceHourlyValues, as users give it)"""
    t, before, after = tr
    if not (after < before and (before - after) == 3600 and (t + after) % 3600 == 0):
        return None
    amb = t + after                      # local wall-clock time of the repeated hour
    ks = [amb - 7200, amb - 3600, amb, amb, amb + 3600, amb + 7200][rng.choice([0, 1]):]
    return {"zone": zone, "start": ks[0], "ks_local": ks, "vs": [round(rng.uniform(0.5, 90), 2) for _ in ks]}


def local_epochs(case):
    return case["ks_local"] if "ks_local" in case else [case["start"] + 3600 * i for i in range(len(case["vs"]))]


def run_real(case):
    try:
        with watchdog(30):
            idx = pd.date_range(start=datetime.utcfromtimestamp(case["start"]), periods=len(case["vs"]), freq="h")
            if "ks_local" in case:
                idx = pd.DatetimeIndex([datetime.utcfromtimestamp(k) for k in case["ks_local"]])
            df = pd.DataFrame({"value": pint_pandas.PintArray(np.array(case["vs"], dtype=float), dtype=u.dimensionless)}, index=idx)
            if "ks_local" in case:
                from efootprint.abstract_modeling_classes.source_objects import SourceHourlyValues
                h = SourceHourlyValues(df, label="local")
            else:
                h = ExplainableHourlyQuantities(df, "local")
            r = h.convert_to_utc(SourceObject(pytz.timezone(case["zone"])))
            c = canon(r)
            return "ok", c
    except Exception as e:  # noqa
        return "err", err_enum(e)


def run_real_system(case):
    """the same conversion as the model performs it for a usage pattern: `UsagePattern.update_utc_hourly_usage_journey_starts`
    inside a computed system (a country in the zone, the series as hourly_usage_journey_starts)"""
    from efootprint.core.system import System
    from efootprint.core.usage.usage_pattern import UsagePattern
    from efootprint.core.usage.usage_journey import UsageJourney
    from efootprint.core.usage.usage_journey_step import UsageJourneyStep
    from efootprint.core.usage.job import Job
    from efootprint.core.hardware.server import Server
    from efootprint.core.hardware.storage import Storage
    from efootprint.core.hardware.network import Network
    from efootprint.core.hardware.device import Device
    from efootprint.core.country import Country
    from efootprint.abstract_modeling_classes.source_objects import SourceValue
    try:
        with watchdog(60):
            idx = pd.date_range(start=datetime.utcfromtimestamp(case["start"]), periods=len(case["vs"]), freq="h")
            df = pd.DataFrame({"value": pint_pandas.PintArray(np.array(case["vs"], dtype=float), dtype=u.dimensionless)}, index=idx)
            starts = ExplainableHourlyQuantities(df, "local starts")
            sv = Server.from_defaults("sv", storage=Storage.from_defaults("st"))
            job = Job.from_defaults("job", server=sv)
            uj = UsageJourney("uj", uj_steps=[UsageJourneyStep("step", user_time_spent=SourceValue(1 * u.min), jobs=[job])])
            co = Country("co", "COU", SourceValue(100 * u.g / u.kWh), SourceObject(pytz.timezone(case["zone"])))
            up = UsagePattern("up", uj, [Device.from_defaults("dev")], Network.from_defaults("net"), co, starts)
            system_ = System("sys", usage_patterns=[up])
            base = canon(up.utc_hourly_usage_journey_starts)
            case["_sim_verdicts"] = simulation_verdicts(up, base)
            # … and as a saved model recomputes it: the zone must come back as the zone it was
            try:
                import json as _json
                from efootprint.api_utils.system_to_json import system_to_json
                from efootprint.api_utils.json_to_system import json_to_system
                class_objs, _flat = json_to_system(_json.loads(_json.dumps(system_to_json(system_, save_calculated_attributes=False))))
                up2 = list(class_objs["UsagePattern"].values())[0]
                c2 = canon(up2.utc_hourly_usage_journey_starts)
                rounded = [round(v, 3) for v in base["vs"]]
                if c2["ks"] != base["ks"] or any(abs(a - b) > 1e-9 * max(1.0, abs(b)) for a, b in zip(c2["vs"], rounded)):
                    case["_sim_verdicts"].append(f"conversion-differs-after-json-round-trip: zone loaded as {up2.country.timezone.value}, UTC keys {c2['ks'][:3]}… vs {base['ks'][:3]}…")
            except Exception as e:  # noqa
                case["_sim_verdicts"].append(f"json-round-trip-raises:{type(e).__name__}")
            return "ok", base
    except Exception as e:  # noqa
        return "err", err_enum(e)


def simulation_verdicts(up, base):
    """the conversion as a dated what-if performs it: for a simulation dated at each UTC hour of the window (the hours
    touched by the clock change among them) whose change makes the usage pattern recompute its UTC starts from the
    local series cut at the date, the simulated UTC starts are the baseline's from the date on — nothing dropped at the
    skipped hour, nothing kept from before the date at the repeated one"""
    from datetime import timezone
    from efootprint.abstract_modeling_classes.modeling_update import ModelingUpdate
    from efootprint.core.hardware.device import Device
    out = []
    dev2 = Device.from_defaults("dev2")
    dates = base["ks"] if len(base["ks"]) <= 10 else sorted(random.Random(base["ks"][0]).sample(base["ks"], 10))
    for k in dates:
        d = datetime.fromtimestamp(k, tz=timezone.utc)
        try:
            sim = ModelingUpdate([[up.devices, [dev2]]], simulation_date=d)
        except Exception as e:  # noqa
            if k == base["ks"][-1] or k == base["ks"][0] or err_enum(e) == "period":
                # the period check works on the naive local series (`replace(tzinfo=…)`), which near a clock change —
                # and with pytz's local-mean-time offsets — may refuse an instant of the window: not a question of conversion
                continue
            out.append(f"simulation-raises:{err_enum(e)}")
            break
        twin = next((r for v, r in zip(sim.values_to_recompute, sim.recomputed_values) if v is up.utc_hourly_usage_journey_starts), None)
        if twin is None or not hasattr(twin, "value") or isinstance(twin, EmptyExplainableObject):
            continue
        c = canon(twin)
        exp = [(kk, vv) for kk, vv in zip(base["ks"], base["vs"]) if kk >= k]
        got = list(zip(c["ks"], c["vs"]))
        if [g[0] for g in got] != [e[0] for e in exp] or any(abs(g[1] - e[1]) > 1e-9 * max(1.0, abs(e[1])) for g, e in zip(got, exp)):
            out.append(f"simulated-conversion-differs-from-baseline-at-date: dated {d.isoformat()}: simulated UTC starts {got[:3]}… baseline from the date on {exp[:3]}…")
            break
    return out


def pair_cases(rng, n):
    """two usage patterns in a zone that changes its clock during the window and in a zone with the same offset at the
    start that does not: same local start, same number of hours"""
    from harness.specgen import DST_PAIRS
    out = []
    for i_ in range(n):
        za, zb, date = rng.choice(DST_PAIRS)
        if rng.random() < 0.5:
            # a zone whose offset is not a whole number of hours (UTC instants at :30 / :45) next to a whole-hour one
            za = rng.choice(["Asia/Kolkata", "Asia/Kathmandu", "Australia/Adelaide", "America/St_Johns", "Australia/Lord_Howe", "Asia/Tehran"])
            zb = rng.choice(["Europe/Paris", "UTC", "America/New_York", "Asia/Tokyo"])
            date = rng.choice([(2025, 3, 28), (2025, 10, 3), (2025, 6, 11)])
        nh = rng.randint(14, 50)
        hh = rng.randrange(10, 24)
        out.append({"za": za, "zb": zb, "start": [date[0], date[1], date[2], hh], "first_step_min": rng.choice([1, 1, 45, 90, 125]),
                    "va": [float(rng.randint(0, 90)) for _ in range(nh)], "vb": [float(rng.randint(0, 90)) for _ in range(nh)]})
    return out


def run_pair(case):
    """C11, last sentence: the job load of two usage patterns in different zones is the instant-by-instant sum of their
    UTC series (both computed by the real code), and each UTC series is the conversion of its local series"""
    from efootprint.core.system import System
    from efootprint.core.usage.usage_pattern import UsagePattern
    from efootprint.core.usage.usage_journey import UsageJourney
    from efootprint.core.usage.usage_journey_step import UsageJourneyStep
    from efootprint.core.usage.job import Job
    from efootprint.core.hardware.server import Server
    from efootprint.core.hardware.storage import Storage
    from efootprint.core.hardware.network import Network
    from efootprint.core.hardware.device import Device
    from efootprint.core.country import Country
    from efootprint.abstract_modeling_classes.source_objects import SourceValue
    with watchdog(90):
        sv = Server.from_defaults("sv", storage=Storage.from_defaults("st"))
        job = Job.from_defaults("job", server=sv)
        job2 = Job.from_defaults("job2", server=sv)
        fsm = case.get("first_step_min", 1)
        uj = UsageJourney("uj", uj_steps=[UsageJourneyStep("step", user_time_spent=SourceValue(fsm * u.min), jobs=[job]),
                                          UsageJourneyStep("step2", user_time_spent=SourceValue(1 * u.min), jobs=[job2])])
        ups = []
        for tag, zone, vals in (("a", case["za"], case["va"]), ("b", case["zb"], case["vb"])):
            idx = pd.date_range(start=datetime(*case["start"]), periods=len(vals), freq="h")
            df = pd.DataFrame({"value": pint_pandas.PintArray(np.array(vals, dtype=float), dtype=u.dimensionless)}, index=idx)
            co = Country("co" + tag, "C" + tag.upper(), SourceValue(100 * u.g / u.kWh), SourceObject(pytz.timezone(zone)))
            ups.append(UsagePattern("up" + tag, uj, [Device.from_defaults("dev" + tag)], Network.from_defaults("net" + tag), co,
                                    ExplainableHourlyQuantities(df, "local starts " + tag)))
        System("sys", usage_patterns=ups)
        utc = [canon(p.utc_hourly_usage_journey_starts) for p in ups]
        across = canon(job.hourly_occurrences_across_usage_patterns)
        across2 = canon(job2.hourly_occurrences_across_usage_patterns)
    expected = {}
    for c in utc:
        for k, v in zip(c["ks"], c["vs"]):
            expected[k] = expected.get(k, 0.0) + v
    got = dict(zip(across["ks"], across["vs"]))
    bad = [k for k in sorted(set(expected) | set(got)) if abs(expected.get(k, 0.0) - got.get(k, 0.0)) > 1e-9 * max(1.0, abs(expected.get(k, 0.0)))]
    # the job of the second step: every instant moved by the whole hours spent in the first step (minutes of the instant kept)
    sh = 3600 * (fsm // 60)
    expected2 = {k + sh: v for k, v in expected.items()}
    got2 = dict(zip(across2["ks"], across2["vs"]))
    bad += [k for k in sorted(set(expected2) | set(got2)) if abs(expected2.get(k, 0.0) - got2.get(k, 0.0)) > 1e-9 * max(1.0, abs(expected2.get(k, 0.0)))]
    # each UTC series against plain pytz arithmetic
    verdicts = []
    for zone, vals, c in ((case["za"], case["va"], utc[0]), (case["zb"], case["vb"], utc[1])):
        single = {"zone": zone, "start": calendar.timegm(tuple(case["start"]) + (0, 0)), "vs": vals}
        v = oracle(single, "ok", c)
        if v:
            verdicts.append(f"{zone}: {v}")
    return bad, verdicts, len(across["ks"])


def lean_request(case):
    lo, hi = case["start"], case["start"] + 3600 * len(case["vs"])
    if "ks_local" in case:
        return {"cmd": "tz", "zone": leanio.zone_json(case["zone"], lo - 86400 * 3, hi + 86400 * 3),
                "s": {"ks": case["ks_local"], "vs": [rat_str(v) for v in case["vs"]]}}
    return {"cmd": "tz", "zone": leanio.zone_json(case["zone"], lo - 86400 * 3, hi + 86400 * 3),
            "s": {"k0": case["start"], "vs": [rat_str(v) for v in case["vs"]]}}


def oracle(case, st, c):
    """C11 on the real result, against plain pytz arithmetic"""
    if st != "ok":
        return f"raises:{c}"
    ks, vs = c["ks"], c["vs"]
    if abs(sum(vs) - sum(case["vs"])) > 1e-9 * max(1.0, sum(case["vs"])):
        return "total-not-preserved"
    if any(b <= a for a, b in zip(ks, ks[1:])):
        return "not-increasing" if len(set(ks)) == len(ks) else "duplicate-timestamps"
    tz = pytz.timezone(case["zone"])
    out = dict(zip(ks, vs))
    expected = {}
    ambiguous_or_missing = False
    for k_loc, v in zip(local_epochs(case), case["vs"]):
        naive = datetime.utcfromtimestamp(k_loc)
        try:
            aware = tz.localize(naive, is_dst=None)
            k = calendar.timegm(aware.utctimetuple())
            expected[k] = expected.get(k, 0.0) + v
        except (pytz.exceptions.AmbiguousTimeError, pytz.exceptions.NonExistentTimeError):
            ambiguous_or_missing = True
    if not ambiguous_or_missing:
        for k in set(out) | set(expected):
            if abs(out.get(k, 0.0) - expected.get(k, 0.0)) > 1e-9 * max(1.0, abs(expected.get(k, 0.0))):
                return "misplaced"
    else:
        # hours that exist and are unambiguous must be found at their instant (possibly merged with others)
        for k, v in expected.items():
            if out.get(k, 0.0) < v - 1e-9 * max(1.0, v):
                return "misplaced"
    return None


def run_shard(args):
    seed, cases = args
    out = {"cases": len(cases), "disagreements": [], "violations": [], "zones": set(), "samples": [], "merged": 0}
    reals = [run_real(c) for c in cases]
    answers = run_lean([lean_request(c) for c in cases])
    out["system_path"] = 0
    for k, c in enumerate(cases):
        if k % 3 == 0 and "ks_local" not in c and all(v >= 0 for v in c["vs"]) and any(v > 0 for v in c["vs"]):
            st2, r2 = run_real_system(c)
            out["system_path"] += 1
            st1, r1 = reals[k]
            for sv_ in c.pop("_sim_verdicts", []):
                out["violations"].append({"signature": "C11:" + sv_.split(":", 1)[0] + (":" + sv_.split(":")[1] if sv_.startswith(("simulation-raises", "json-round-trip-raises")) else ""),
                                          "detail": f"{c['zone']} start {c['start']}: {sv_}", "replay": {"case": c}})
            out["sim_dates"] = out.get("sim_dates", 0) + (len(r2["ks"]) if st2 == "ok" else 0)
            if st1 == "ok" and (st2 != "ok" or r2["ks"] != r1["ks"] or any(abs(a - b) > 1e-9 * max(1.0, abs(b)) for a, b in zip(r2["vs"], r1["vs"]))):
                why = f"raises {r2}" if st2 != "ok" else f"keys/values {r2['ks'][:4]}…/{r2['vs'][:4]}… vs direct conversion {r1['ks'][:4]}…/{r1['vs'][:4]}…"
                out["violations"].append({"signature": "C11:usage-pattern-conversion-differs-from-convert_to_utc",
                                          "detail": f"{c['zone']} start {c['start']}: the usage pattern's UTC starts: {why}", "replay": {"case": c}})
                verdict = oracle(c, st2, r2) if st2 == "ok" else None
                if verdict:
                    out["violations"].append({"signature": "C11:usage-pattern:" + verdict, "detail": f"{c['zone']} start {c['start']}: {verdict}", "replay": {"case": c}})
    out["pairs"] = 0
    prng = __import__("random").Random(seed * 7 + 3)
    for pc in pair_cases(prng, max(1, len(cases) // 12)):
        try:
            bad, verdicts, nk = run_pair(pc)
        except Exception as e:  # noqa
            out["violations"].append({"signature": f"C11:two-zone-system-raises:{err_enum(e)}", "detail": f"{pc['za']} + {pc['zb']}: {str(e)[:160]}", "replay": {"pair": pc}})
            continue
        out["pairs"] += 1
        if bad:
            out["violations"].append({"signature": "C11:usage-patterns-not-combined-instant-by-instant",
                                      "detail": f"{pc['za']} + {pc['zb']} from {pc['start']}: the job load differs from the sum of the two UTC series at {len(bad)} hour(s), first {bad[0]}",
                                      "replay": {"pair": pc}})
        for v in verdicts:
            out["violations"].append({"signature": "C11:usage-pattern:" + v.split(": ", 1)[1], "detail": v, "replay": {"pair": pc}})
    for c, (st, r), ans in zip(cases, reals, answers):
        out["zones"].add(c["zone"])
        if st == "ok" and len(r["ks"]) < len(c["vs"]):
            out["merged"] += 1
        if "bad" in ans:
            out["disagreements"].append({"case": c, "why": "driver: " + ans["bad"]})
        elif st != "ok":
            out["disagreements"].append({"case": c, "why": f"real raises {r}"})
        else:
            lk, lv = ans["ks"], [float(frac(x)) if False else float(eval_rat(x)) for x in ans["vs"]]
            if lk != r["ks"]:
                out["disagreements"].append({"case": c, "why": f"keys real {r['ks']} model {lk}"})
            elif any(abs(a - b) > 1e-9 * max(1.0, abs(b)) for a, b in zip(r["vs"], lv)):
                out["disagreements"].append({"case": c, "why": f"values real {r['vs']} model {lv}"})
        v = oracle(c, st, r)
        if v:
            out["violations"].append({"signature": "C11:" + v, "detail": f"{c['zone']} start {c['start']}: {v}", "replay": {"case": c}})
        if len(out["samples"]) < 2:
            out["samples"].append({"case": c, "utc_keys": r["ks"] if st == "ok" else r})
    out["zones"] = sorted(out["zones"])
    return out


def eval_rat(s):
    from fractions import Fraction
    return Fraction(s)

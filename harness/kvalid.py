"""K-valid / C14 oracle: every class × parameter × kind of invalid value, at construction and on
assignment (single and grouped); a refused assignment must leave the model exactly as it was."""
import inspect
import random
from datetime import datetime

from harness.common import watchdog, err_enum
from harness import realsys, richsys, snapshot
from harness.realsys import u, SourceValue, SourceObject, EmptyExplainableObject
from harness.extract_schema import annotation_kind
from efootprint.builders.time_builders import create_source_hourly_values_from_list
from efootprint.abstract_modeling_classes.modeling_update import ModelingUpdate

WRONG_DIM_FOR = lambda dim: SourceValue(3 * (u.kg if dim != (0, 0, 1, 0, 0) else u.hour))  # noqa: E731


def invalid_values(cls, pname, kind, default, objs):
    """[(invalid-kind label, value)] for one parameter"""
    out = []
    if kind == "quantity" and default is not None and not isinstance(default, EmptyExplainableObject):
        _, dim = realsys.unit_info(default.value.units)
        out.append(("wrong-dimension", WRONG_DIM_FOR(tuple(dim))))
        out.append(("wrong-dimension-zero", SourceValue(0 * (u.kg if tuple(dim) != (0, 0, 1, 0, 0) else u.hour))))
        if any(tuple(dim)):
            # a forgotten unit: a plain number (its pint dimensionality is an empty, falsy container)
            out.append(("wrong-dimension-none", SourceValue(300 * u.dimensionless)))
        if pname not in cls.attributes_that_can_have_negative_values():
            out.append(("negative", SourceValue(-abs(default.value.magnitude or 1) * default.value.units)))
        out.append(("wrong-type-float", 3.5))
        out.append(("wrong-type-str", "abc"))
        out.append(("wrong-type-hourly", create_source_hourly_values_from_list([1, 2, 3], datetime(2025, 1, 1))))
    elif kind == "union":
        out.append(("wrong-dimension", SourceValue(3 * u.kg)))
        out.append(("negative", SourceValue(-2 * u.dimensionless)))
        out.append(("wrong-type-float", 3.5))
    elif kind == "hourly":
        out.append(("wrong-type-quantity", SourceValue(3 * u.dimensionless)))
        out.append(("wrong-type-float", 2.0))
    elif kind in ("object", "sourceobject"):
        lv = cls.list_values()
        if pname in lv:
            out.append(("not-in-allowed-list", SourceObject("certainly-not-allowed")))
        out.append(("wrong-type-float", 1.5))
        out.append(("wrong-type-quantity", SourceValue(1 * u.kg)))
    elif kind.startswith("modeling:"):
        wrong = objs["dev"] if not kind.endswith("Device") else objs["net"]
        out.append(("wrong-class", wrong))
        out.append(("wrong-type-float", 1.5))
    elif kind.startswith("list:"):
        wrong = objs["dev"] if not kind.endswith("Device") else objs["net"]
        out.append(("list-with-wrong-class", [wrong]))
    return out


def offered_info(bad, default):
    info = {}
    try:
        if isinstance(bad, realsys.ExplainableQuantity):
            info["offered_dim"] = list(realsys.unit_info(bad.value.units)[1])
        if default is not None and isinstance(default, realsys.ExplainableQuantity):
            info["default_dim"] = list(realsys.unit_info(default.value.units)[1])
        elif default is not None:
            info["default_dim"] = [0, 0, 0, 0, 0]
        if isinstance(bad, list) and bad:
            info["offered_cls"] = type(bad[0]).__name__
        elif hasattr(bad, "calculated_attributes"):
            info["offered_cls"] = type(bad).__name__
    except Exception:  # noqa
        pass
    return info


def params_of(obj):
    cls = type(obj)
    sig = inspect.signature(cls.__init__)
    try:
        defaults = cls.default_values() or {}
    except Exception:  # noqa
        defaults = {}
    out = []
    for pn, p in sig.parameters.items():
        if pn in ("self", "name", "short_name"):
            continue
        out.append((pn, annotation_kind(p.annotation), defaults.get(pn)))
    return out


def run_assignments(seed, grouped=False, history_first=True, only=None):
    """every object × parameter × invalid kind on a rich system; returns cases"""
    rng = random.Random(seed)
    results = []
    objs = richsys.build(values=[round(rng.uniform(0.5, 9), 2) for _ in range(rng.randint(3, 9))])
    if history_first:
        # a small valid history first: rejection must also hold at a later point of an edit history
        objs["job"].data_transferred = SourceValue(rng.choice([200, 350.5]) * u.kB)
        objs["sv"].power_usage_effectiveness = SourceValue(rng.choice([1.3, 1.6]) * u.dimensionless)
    names = [n for n in objs if n != "sys" and (only is None or n in only)]
    for n in names:
        o = objs[n]
        for pn, kind, default in params_of(o):
            if not hasattr(o, pn):
                continue
            for label, bad in invalid_values(type(o), pn, kind, default, objs):
                before = snapshot.deep(objs)
                try:
                    with watchdog(30):
                        if grouped == "noop-first":
                            # an "edit form" that re-submits an unchanged field before the invalid one
                            other_old = objs["net"].bandwidth_energy_intensity
                            same = SourceValue(other_old.value.magnitude * other_old.value.units)
                            ModelingUpdate([[other_old, same], [getattr(o, pn), bad]])
                        elif grouped:
                            other_old = objs["net"].bandwidth_energy_intensity
                            ModelingUpdate([[other_old, SourceValue(0.07 * u("kWh/GB"))], [getattr(o, pn), bad]])
                        else:
                            setattr(o, pn, bad)
                    raised = None
                except Exception as e:  # noqa
                    raised = err_enum(e)
                after = snapshot.deep(objs)
                changed = snapshot.diff(before, after)
                results.append({"obj": n, "cls": type(o).__name__, "param": pn, "kind": kind, "invalid": label,
                                "raised": raised, "changed": [list(map(str, c)) for c in changed], "grouped": grouped,
                                **offered_info(bad, default)})
                if changed or raised is None:
                    # the model may now be in a different state: rebuild so that later cases start clean
                    objs = richsys.build(values=[round(rng.uniform(0.5, 9), 2) for _ in range(rng.randint(3, 9))])
                    o = objs[n]
    return results


LIST_METHODS = ["append", "insert", "extend", "iadd", "setitem"]


def run_list_mutations(seed, only=None):
    """every list attribute × every way of putting an element of the wrong class into it on a live model"""
    rng = random.Random(seed)
    results = []
    objs = richsys.build(values=[round(rng.uniform(0.5, 9), 2) for _ in range(rng.randint(3, 9))])
    names = [n for n in objs if n != "sys" and (only is None or n in only)]
    for n in names:
        o = objs[n]
        for pn, kind, default in params_of(o):
            if not kind.startswith("list:") or not hasattr(o, pn):
                continue
            for label, bad in invalid_values(type(o), pn, kind, default, objs):
                if label != "list-with-wrong-class":
                    continue
                wrong = bad[0]
                for method in LIST_METHODS:
                    lst = getattr(o, pn)
                    if method == "setitem" and len(lst) == 0:
                        continue
                    before = snapshot.deep(objs)
                    try:
                        with watchdog(30):
                            if method == "append":
                                lst.append(wrong)
                            elif method == "insert":
                                lst.insert(0, wrong)
                            elif method == "extend":
                                lst.extend([wrong])
                            elif method == "iadd":
                                setattr(o, pn, getattr(o, pn) + [wrong])
                            else:
                                lst[0] = wrong
                        raised = None
                    except Exception as e:  # noqa
                        raised = err_enum(e)
                    changed = snapshot.diff(before, snapshot.deep(objs))
                    results.append({"obj": n, "cls": type(o).__name__, "param": pn, "kind": kind, "invalid": label,
                                    "raised": raised, "changed": [list(map(str, c)) for c in changed], "grouped": False,
                                    "list_method": method, **offered_info(bad, default)})
                    if changed or raised is None:
                        objs = richsys.build(values=[round(rng.uniform(0.5, 9), 2) for _ in range(rng.randint(3, 9))])
                        o = objs[n]
    return results


def run_constructions(only=None):
    """every class × parameter × invalid kind at construction"""
    results = []
    base = richsys.build(with_system=False)
    for n, o in base.items():
        if only is not None and n not in only:
            continue
        for pn, kind, default in params_of(o):
            for label, bad in invalid_values(type(o), pn, kind, default, base):
                try:
                    with watchdog(60):
                        richsys.build(with_system=False, **{n: {pn: bad}})
                    raised = None
                except Exception as e:  # noqa
                    raised = err_enum(e)
                results.append({"obj": n, "cls": type(o).__name__, "param": pn, "kind": kind, "invalid": label,
                                "raised": raised, "changed": [], "construction": True})
    return results


def violations_of(results):
    vs = []
    for r in results:
        where = "construction" if r.get("construction") else (
            "grouped-update-after-noop" if r.get("grouped") == "noop-first" else "grouped-update" if r.get("grouped")
            else f"list-{r['list_method']}" if r.get("list_method") else "assignment")
        if r["kind"] == "union" and (r["raised"] is None or r["changed"]) and r["raised"] != "not-allowed":
            # call site: check_input_value_type_positivity_and_unit skips parameters whose annotation is a Union
            vs.append({"signature": f"C14:union-annotated-parameter-unchecked:{r['cls']}.{r['param']}",
                       "detail": f"{r['cls']}.{r['param']} = <{r['invalid']}> at {where}: " + ("accepted" if r["raised"] is None else f"refused ({r['raised']}) only by recomputation, after the value was installed"),
                       "replay": {"case": r}})
        elif r["raised"] is None:
            vs.append({"signature": f"C14:accepted:{r['cls']}.{r['param']}:{r['invalid']}:{where}",
                       "detail": f"{r['invalid']} value accepted for {r['cls']}.{r['param']} at {where}", "replay": {"case": r}})
        elif r["changed"] and r["raised"] == "not-allowed":
            # call site: ModelingUpdate runs check_belonging_to_authorized_values after apply_changes, no rollback
            vs.append({"signature": "C14:state-changed:refused-by-post-apply-allowed-values-check",
                       "detail": f"{r['cls']}.{r['param']} = <{r['invalid']}> at {where}: refused (not-allowed) but the model changed: {r['changed'][:3]}",
                       "replay": {"case": r}})
        elif r["changed"] and r["raised"] == "other:AssertionError" and r.get("grouped") and r["invalid"] == "wrong-type-quantity":
            # call site: the class-compatibility assertion of replace_in_mod_obj_container_without_recomputation fires in
            # the middle of apply_changes; the changes applied before it are not rolled back
            vs.append({"signature": "C14:state-changed:grouped-update-fails-inside-apply_changes",
                       "detail": f"{r['cls']}.{r['param']} = <{r['invalid']}> in a grouped update: AssertionError inside apply_changes, the earlier change stays applied: {r['changed'][:3]}",
                       "replay": {"case": r}})
        elif r["changed"]:
            vs.append({"signature": f"C14:state-changed:{r['cls']}.{r['param']}:{r['invalid']}:{where}",
                       "detail": f"refused ({r['raised']}) but the model changed: {r['changed'][:3]}", "replay": {"case": r}})
    return vs


OBJ_NAMES = ["st", "sv", "gst", "gpu", "cst", "cloud", "web", "video", "genai", "job", "cjob", "wjob", "vjob", "gjob",
             "step", "uj", "dev", "net", "co", "up"]


def shard(args):
    seed, names, mode = args
    if mode == "construct":
        return run_constructions(only=names)
    if mode == "listops":
        return run_list_mutations(seed, only=names)
    return run_assignments(seed, grouped=("noop-first" if mode == "noop-first" else mode == "grouped"), only=names)


def inval_json(r):
    """abstract description of the offered value for the Lean validation model"""
    lab = r["invalid"]
    if lab in ("wrong-dimension", "wrong-dimension-zero", "wrong-dimension-none"):
        return {"t": "quantity", "dim": r.get("offered_dim", [0, 0, 0, 0, 0]), "neg": False}
    if lab == "negative":
        return {"t": "quantity", "dim": r.get("default_dim", [0, 0, 0, 0, 0]), "neg": True}
    if lab == "wrong-type-float":
        return {"t": "float"}
    if lab == "wrong-type-str":
        return {"t": "str"}
    if lab == "wrong-type-hourly":
        return {"t": "hourly"}
    if lab == "wrong-type-quantity":
        return {"t": "quantity", "dim": r.get("offered_dim", [0, 0, 0, 0, 0]), "neg": False}
    if lab == "not-in-allowed-list":
        return {"t": "sobj", "allowed": False}
    if lab == "wrong-class":
        return {"t": "modeling", "cls": r.get("offered_cls", "Device")}
    if lab == "list-with-wrong-class":
        return {"t": "list", "clss": [r.get("offered_cls", "Device")]}
    raise ValueError(lab)


def correspondence(results):
    """model outcome vs real outcome for every assignment case; returns disagreements"""
    from harness.common import run_lean
    cases = [r for r in results if not r.get("construction") and not r.get("grouped")]
    answers = run_lean([{"cmd": "validate", "cls": r["cls"], "param": r["param"], "val": inval_json(r)} for r in cases])
    dis = []
    for r, a in zip(cases, answers):
        if "bad" in a:
            dis.append({"why": "driver: " + a["bad"], "case": r})
            continue
        o = a["outcome"]
        if o == "no-row":
            dis.append({"why": f"no row for {r['cls']}.{r['param']} in the generated table", "case": r})
        elif o == "refused-before-apply":
            same = r["raised"] == a["err"] or (a["err"] == "immutable" and r["raised"] == "immutable") or (a["err"] == "type" and r["raised"] in ("type", "list-type", "other:TypeError", "other:AttributeError"))
            if not same:
                dis.append({"why": f"model refuses with {a['err']} before apply; real: {r['raised']}", "case": r})
            elif r["changed"]:
                dis.append({"why": f"model: refused before any mutation; real: refused but state changed {r['changed'][:2]}", "case": r})
        elif o == "refused-after-apply":
            if r["raised"] != a["err"]:
                dis.append({"why": f"model refuses with {a['err']} after apply; real: {r['raised']}", "case": r})
        elif o == "accepted":
            # the model covers validation only: a later refusal by recomputation is outside it
            if r["raised"] in ("dim", "neg", "type", "list-type", "not-allowed") and r["kind"] != "union":
                dis.append({"why": f"model accepts; real refuses with {r['raised']}", "case": r})
    return dis, len(cases)

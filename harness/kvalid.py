"""K-valid / C14 oracle: every class × parameter × kind of invalid value, at construction and on
assignment (single and grouped); a refused assignment must leave the model exactly as it was."""
import inspect
import random
from datetime import datetime

from harness.common import watchdog, err_enum
from harness import realsys, richsys, snapshot
from harness.realsys import u, SourceValue, SourceObject, EmptyExplainableObject
from harness.extract_schema import annotation_kind
from efootprint.builders.time_builders import create_source_hourly_values_from_list
from efootprint.abstract_modeling_classes.modeling_update import ModelingUpdate

WRONG_DIM_FOR = lambda dim: SourceValue(3 * (u.kg if dim != (0, 0, 1, 0, 0) else u.hour))  # noqa: E731


def invalid_values(cls, pname, kind, default, objs):
    """[(invalid-kind label, value)] for one parameter"""
    out = []
    if kind == "quantity" and default is not None and not isinstance(default, EmptyExplainableObject):
        _, dim = realsys.unit_info(default.value.units)
        out.append(("wrong-dimension", WRONG_DIM_FOR(tuple(dim))))
        if pname not in cls.attributes_that_can_have_negative_values():
            out.append(("negative", SourceValue(-abs(default.value.magnitude or 1) * default.value.units)))
        out.append(("wrong-type-float", 3.5))
        out.append(("wrong-type-str", "abc"))
        out.append(("wrong-type-hourly", create_source_hourly_values_from_list([1, 2, 3], datetime(2025, 1, 1))))
    elif kind == "union":
        out.append(("wrong-dimension", SourceValue(3 * u.kg)))
        out.append(("negative", SourceValue(-2 * u.dimensionless)))
        out.append(("wrong-type-float", 3.5))
    elif kind == "hourly":
        out.append(("wrong-type-quantity", SourceValue(3 * u.dimensionless)))
        out.append(("wrong-type-float", 2.0))
    elif kind == "object":
        lv = cls.list_values()
        if pname in lv:
            out.append(("not-in-allowed-list", SourceObject("certainly-not-allowed")))
        out.append(("wrong-type-float", 1.5))
        out.append(("wrong-type-quantity", SourceValue(1 * u.kg)))
    elif kind.startswith("modeling:"):
        wrong = objs["dev"] if not kind.endswith("Device") else objs["net"]
        out.append(("wrong-class", wrong))
        out.append(("wrong-type-float", 1.5))
    elif kind.startswith("list:"):
        wrong = objs["dev"] if not kind.endswith("Device") else objs["net"]
        out.append(("list-with-wrong-class", [wrong]))
    return out


def params_of(obj):
    cls = type(obj)
    sig = inspect.signature(cls.__init__)
    try:
        defaults = cls.default_values() or {}
    except Exception:  # noqa
        defaults = {}
    out = []
    for pn, p in sig.parameters.items():
        if pn in ("self", "name", "short_name"):
            continue
        out.append((pn, annotation_kind(p.annotation), defaults.get(pn)))
    return out


def run_assignments(seed, grouped=False, history_first=True, only=None):
    """every object × parameter × invalid kind on a rich system; returns cases"""
    rng = random.Random(seed)
    results = []
    objs = richsys.build(values=[round(rng.uniform(0.5, 9), 2) for _ in range(rng.randint(3, 9))])
    if history_first:
        # a small valid history first: rejection must also hold at a later point of an edit history
        objs["job"].data_transferred = SourceValue(rng.choice([200, 350.5]) * u.kB)
        objs["sv"].power_usage_effectiveness = SourceValue(rng.choice([1.3, 1.6]) * u.dimensionless)
    names = [n for n in objs if n != "sys" and (only is None or n in only)]
    for n in names:
        o = objs[n]
        for pn, kind, default in params_of(o):
            if not hasattr(o, pn):
                continue
            for label, bad in invalid_values(type(o), pn, kind, default, objs):
                before = snapshot.deep(objs)
                try:
                    with watchdog(30):
                        if grouped:
                            other_old = objs["net"].bandwidth_energy_intensity
                            ModelingUpdate([[other_old, SourceValue(0.07 * u("kWh/GB"))], [getattr(o, pn), bad]])
                        else:
                            setattr(o, pn, bad)
                    raised = None
                except Exception as e:  # noqa
                    raised = err_enum(e)
                after = snapshot.deep(objs)
                changed = snapshot.diff(before, after)
                results.append({"obj": n, "cls": type(o).__name__, "param": pn, "kind": kind, "invalid": label,
                                "raised": raised, "changed": [list(map(str, c)) for c in changed], "grouped": grouped})
                if changed or raised is None:
                    # the model may now be in a different state: rebuild so that later cases start clean
                    objs = richsys.build(values=[round(rng.uniform(0.5, 9), 2) for _ in range(rng.randint(3, 9))])
                    o = objs[n]
    return results


def run_constructions(only=None):
    """every class × parameter × invalid kind at construction"""
    results = []
    base = richsys.build(with_system=False)
    for n, o in base.items():
        if only is not None and n not in only:
            continue
        for pn, kind, default in params_of(o):
            for label, bad in invalid_values(type(o), pn, kind, default, base):
                try:
                    with watchdog(60):
                        richsys.build(with_system=False, **{n: {pn: bad}})
                    raised = None
                except Exception as e:  # noqa
                    raised = err_enum(e)
                results.append({"obj": n, "cls": type(o).__name__, "param": pn, "kind": kind, "invalid": label,
                                "raised": raised, "changed": [], "construction": True})
    return results


def violations_of(results):
    vs = []
    for r in results:
        where = "construction" if r.get("construction") else ("grouped-update" if r.get("grouped") else "assignment")
        if r["raised"] is None:
            vs.append({"signature": f"C14:accepted:{r['cls']}.{r['param']}:{r['invalid']}:{where}",
                       "detail": f"{r['invalid']} value accepted for {r['cls']}.{r['param']} at {where}", "replay": {"case": r}})
        elif r["changed"] and r["raised"] == "not-allowed":
            # call site: ModelingUpdate runs check_belonging_to_authorized_values after apply_changes, no rollback
            vs.append({"signature": "C14:state-changed:refused-by-post-apply-allowed-values-check",
                       "detail": f"{r['cls']}.{r['param']} = <{r['invalid']}> at {where}: refused (not-allowed) but the model changed: {r['changed'][:3]}",
                       "replay": {"case": r}})
        elif r["changed"] and r["raised"] == "other:AssertionError" and r.get("grouped") and r["invalid"] == "wrong-type-quantity":
            # call site: the class-compatibility assertion of replace_in_mod_obj_container_without_recomputation fires in
            # the middle of apply_changes; the changes applied before it are not rolled back
            vs.append({"signature": "C14:state-changed:grouped-update-fails-inside-apply_changes",
                       "detail": f"{r['cls']}.{r['param']} = <{r['invalid']}> in a grouped update: AssertionError inside apply_changes, the earlier change stays applied: {r['changed'][:3]}",
                       "replay": {"case": r}})
        elif r["changed"]:
            vs.append({"signature": f"C14:state-changed:{r['cls']}.{r['param']}:{r['invalid']}:{where}",
                       "detail": f"refused ({r['raised']}) but the model changed: {r['changed'][:3]}", "replay": {"case": r}})
    return vs


OBJ_NAMES = ["st", "sv", "gst", "gpu", "cst", "cloud", "web", "video", "genai", "job", "cjob", "wjob", "vjob", "gjob",
             "step", "uj", "dev", "net", "co", "up"]


def shard(args):
    seed, names, mode = args
    if mode == "construct":
        return run_constructions(only=names)
    return run_assignments(seed, grouped=(mode == "grouped"), only=names)

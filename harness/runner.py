"""Run context, result container and process-parallel sharding for the checks."""
import multiprocessing as mp
import os
import random
from dataclasses import dataclass, field


@dataclass
class Ctx:
    prop: str
    tier: str
    seed: int
    workdir: str
    nproc: int = min(16, os.cpu_count() or 4)

    def n(self, quick, thorough):
        return thorough if self.tier == "thorough" else quick

    def rng(self, salt=0):
        return random.Random(self.seed * 1000003 + salt)

    def pmap(self, fn, shards):
        """map fn over shards in forked workers (the parent has already imported the real code)"""
        shards = list(shards)
        if len(shards) <= 1 or self.nproc <= 1:
            return [fn(s) for s in shards]
        ctx = mp.get_context("fork")
        with ctx.Pool(min(self.nproc, len(shards))) as pool:
            return pool.map(fn, shards, chunksize=1)


@dataclass
class PropResult:
    suites: list = field(default_factory=list)        # [{name, cases, observations, disagreements, inconclusive, distribution}]
    violations: list = field(default_factory=list)    # [{signature, detail, replay}]
    evaluations: int = 0
    distinct_nontrivial: int = 0
    rule: str = ""
    samples: list = field(default_factory=list)
    oracle_info: dict = field(default_factory=dict)

    def merge(self, other):
        self.suites += other.suites
        self.violations += other.violations
        self.evaluations += other.evaluations
        self.distinct_nontrivial += other.distinct_nontrivial
        self.samples += other.samples
        for k, v in other.oracle_info.items():
            if isinstance(v, (int, float)) and isinstance(self.oracle_info.get(k), (int, float)):
                self.oracle_info[k] += v
            else:
                self.oracle_info[k] = v
        if other.rule and other.rule not in self.rule:
            self.rule = (self.rule + " | " + other.rule).strip(" |")
        return self

"""C15 oracle: edits that make recomputation fail, then revert, then further edits — compared with
fresh builds; crash points of the recomputation chain are also injected one by one."""
import copy
import random

from harness.common import watchdog, err_enum
from harness import realsys, specgen, history, sysoracles
from harness.history import Live
from harness import engine_oracles as eo
from efootprint.abstract_modeling_classes import modeling_update as mu


class Injected(Exception):
    pass


def failing_edits(live, rng):
    """[(label, op)] edits accepted by validation that make a rule raise"""
    spec = live.spec
    servers, storages, _ = sysoracles.reachable(spec)
    out = []
    for sv in servers:
        s = spec["servers"][sv]
        if s.get("cls", "Server") != "Server":
            continue
        out.append(("capacity-ram", {"op": "setq", "kind": "servers", "name": sv, "param": "base_ram_consumption", "value": {"m": 1e7, "u": "GB"}}))
        out.append(("capacity-compute", {"op": "setq", "kind": "servers", "name": sv, "param": "base_compute_consumption", "value": {"m": 1e6, "u": "cpu_core"}}))
        # the same refusals reached from the other side: the capacity itself shrunk below the base consumption
        if s["base_compute_consumption"]["m"] > 0:
            out.append(("capacity-by-compute", {"op": "setq", "kind": "servers", "name": sv, "param": "compute",
                                                "value": {"m": s["base_compute_consumption"]["m"] * 0.5, "u": s["base_compute_consumption"]["u"]}}))
        if s["base_ram_consumption"]["m"] > 0:
            out.append(("capacity-by-ram", {"op": "setq", "kind": "servers", "name": sv, "param": "ram",
                                            "value": {"m": s["base_ram_consumption"]["m"] * 0.5, "u": s["base_ram_consumption"]["u"]}}))
        if s["server_type"] == "on-premise":
            out.append(("fixed-instances-server", {"op": "setq", "kind": "servers", "name": sv, "param": "fixed_nb_of_instances",
                                                   "value": {"m": 1e-3, "u": "dimensionless"}}))
    for st in storages:
        out.append(("fixed-instances-storage", {"op": "setq", "kind": "storages", "name": st, "param": "fixed_nb_of_instances",
                                                "value": {"m": 1e-9, "u": "dimensionless"}}))
        jobs = [j for j, o in spec["jobs"].items() if spec["servers"][o["server"]]["storage"] == st and j in eo.reachable_spec_names(spec)]
        if jobs:
            j = rng.choice(jobs)
            out.append(("negative-storage", {"op": "setq", "kind": "jobs", "name": j, "param": "data_stored", "value": {"m": -1e9, "u": "TB"}}))
            if any(spec["jobs"][x]["data_stored"]["m"] < 0 for x in jobs) and spec["storages"][st]["base_storage_need"]["m"] > 0:
                # a storage kept non-negative only by its base need: lowering the base need makes the cumulative need negative
                # (the one input that feeds full_cumulative_storage_need without feeding storage_delta)
                out.append(("negative-storage-base", {"op": "setq", "kind": "storages", "name": st, "param": "base_storage_need",
                                                      "value": {"m": 0.0, "u": "TB"}}))
    return out


def current_value_op(live, op):
    """the op that re-assigns the value the input had before `op`"""
    e = live.spec[op["kind"]][op["name"]]
    return dict(op, value=copy.deepcopy(e.get(op["param"])))


def compare(live, label, spec0, ops, out, sig):
    why, _ = eo.compare_with_fresh(live)
    if why and str(why).startswith("fresh build raises neg-storage") and not sig.startswith("C15:accepted-edit-stale") \
            and not sig.startswith("C15:failing-edit-accepted"):
        # the same inputs built twice: once accepted, once refused for a cumulative need of −1e-2x TB — float cancellation
        # in the cumulative storage need (D4, C04's finding), not a question of recovery
        out["inconclusive"] = out.get("inconclusive", 0) + 1
        return True
    if why:
        out["violations"].append({"signature": sig, "detail": f"{label}: {why}", "replay": {"spec": spec0, "ops": list(ops)}})
        return False
    return True


def same_refusal_on_fresh(spec_now, op, err):
    """'edits after that behave as on a freshly built system': the same edit is refused the same way by a system
    freshly built from the current inputs (e.g. an hourly input of another length, which the library cannot compare)"""
    try:
        with watchdog(60):
            fresh = Live(copy.deepcopy(spec_now))
            st, e2 = fresh.apply(op)
        return st == "err" and e2 == err
    except Exception:  # noqa
        return False


def shard(args):
    seed, n = args
    rng = random.Random(seed)
    out = {"cases": 0, "failures": {}, "violations": [], "samples": [], "hashes": [], "crash_points": 0}
    for i in range(n):
        spec = specgen.gen_safe_spec(rng, realsys.unit_info, allow_delete=(i % 2 == 0), allow_dumps=False)
        if history.has_shared_job(spec):
            spec = specgen.unshare_jobs(spec)      # own journey, steps and jobs per usage pattern
        if history.has_shared_job(spec):
            continue
        try:
            with watchdog(60):
                live = Live(spec)
        except Exception:  # noqa
            continue
        cands = failing_edits(live, rng)
        if not cands:
            continue
        ops = []
        rounds = rng.choice([1, 1, 2])
        ok = True
        for r in range(rounds):
            label, fop = rng.choice(cands)
            based = [c for c in cands if c[0] == "negative-storage-base"]
            if based and rng.random() < 0.6:
                label, fop = rng.choice(based)
            undo = current_value_op(live, fop)
            # recovery by re-assigning the previous value: a new object carrying it (even cases) or the very object that
            # was replaced (odd cases: `prev = x.a; x.a = bad; x.a = prev`)
            same_obj = (i % 2 == 1)
            sfx = ":same-object" if same_obj else ""
            prev_obj = getattr(live.obj(fop["name"]), fop["param"])
            if undo["value"] is None and fop["param"] == "fixed_nb_of_instances":
                undo = {"op": "setq", "kind": fop["kind"], "name": fop["name"], "param": "fixed_nb_of_instances", "value": None}
            st, err = live.apply(fop)
            ops.append(fop)
            out["cases"] += 1
            out["failures"][f"{label}:{err}"] = out["failures"].get(f"{label}:{err}", 0) + 1
            if st == "ok":
                # the edit did not fail after all (e.g. huge capacity): treat as an ordinary edit
                # … unless an earlier failure of this history was recovered from: then the acceptance itself is suspect
                ok = compare(live, f"after {label}", spec, ops, out,
                             f"C15:accepted-edit-stale:{label}" if r == 0 else f"C15:failing-edit-accepted-after-recovery:{label}")
                if not ok:
                    break
                continue
            if err == "hang":
                out["violations"].append({"signature": f"C15:hang:{label}", "detail": "failing edit does not terminate", "replay": {"spec": spec, "ops": list(ops)}})
                ok = False
                break
            # re-assign the previous value
            if same_obj:
                try:
                    with watchdog(30):
                        setattr(live.obj(fop["name"]), fop["param"], prev_obj)
                    st2, err2 = "ok", None
                except Exception as e:  # noqa
                    st2, err2 = "err", err_enum(e)
            elif undo["value"] is None:
                try:
                    with watchdog(30):
                        from efootprint.abstract_modeling_classes.explainable_objects import EmptyExplainableObject
                        setattr(live.obj(undo["name"]), undo["param"], EmptyExplainableObject())
                    st2, err2 = "ok", None
                except Exception as e:  # noqa
                    st2, err2 = "err", err_enum(e)
            else:
                st2, err2 = live.apply(undo)
            ops.append(dict(undo, same_object=True) if same_obj else undo)
            if st2 != "ok":
                out["violations"].append({"signature": f"C15:revert-refused:{label}:{err2}{sfx}", "detail": f"re-assigning the previous value after {label} raises {err2}",
                                          "replay": {"spec": spec, "ops": list(ops)}})
                ok = False
                break
            ok = compare(live, f"after {label} + revert", spec, ops, out, f"C15:revert-does-not-restore:{label}{sfx}")
            if not ok:
                break
            if same_obj:
                # the same failing edit fails again on the recovered model, and the same recovery works again
                st5, err5 = live.apply(fop)
                ops.append(fop)
                if st5 == "ok":
                    out["violations"].append({"signature": f"C15:failing-edit-accepted-after-recovery:{label}{sfx}",
                                              "detail": f"{label}: raised {err} the first time, accepted after the recovery", "replay": {"spec": spec, "ops": list(ops)}})
                    ok = False
                    break
                try:
                    with watchdog(30):
                        setattr(live.obj(fop["name"]), fop["param"], prev_obj)
                except Exception as e:  # noqa
                    out["violations"].append({"signature": f"C15:revert-refused:{label}:{err_enum(e)}{sfx}:second-time", "detail": f"second recovery after {label} raises {err_enum(e)}",
                                              "replay": {"spec": spec, "ops": list(ops)}})
                    ok = False
                    break
                ops.append(dict(undo, same_object=True))
                ok = compare(live, f"after {label} + revert, twice", spec, ops, out, f"C15:revert-does-not-restore:{label}{sfx}")
                if not ok:
                    break
            # a further valid edit of the same input must behave as on a fresh system
            nxt = None
            e = live.spec[fop["kind"]][fop["name"]].get(fop["param"])
            if e is not None and fop["param"] != "fixed_nb_of_instances":
                nxt = dict(fop, value={"m": (abs(e["m"]) * 0.5 + 0.01), "u": e["u"]})
            elif fop["param"] == "fixed_nb_of_instances":
                nxt = dict(fop, value={"m": 1e12, "u": "dimensionless"})
                if fop["kind"] == "servers" and live.spec["servers"][fop["name"]]["server_type"] != "on-premise":
                    nxt = None
            if nxt and eo.safe_after(live, nxt):
                st3, err3 = live.apply(nxt)
                ops.append(nxt)
                if st3 == "ok":
                    ok = compare(live, f"edit of the same input after {label} + revert", spec, ops, out, f"C15:edit-after-recovery-stale:{label}{sfx}")
                    if not ok:
                        break
            # and a few ordinary edits elsewhere
            for _ in range(rng.randint(0, 2)):
                op = eo.gen_op(rng, live.spec, True)
                if op and eo.safe_after(live, op):
                    st4, err4 = live.apply(op)
                    ops.append(op)
                    if st4 == "ok":
                        ok = compare(live, f"later edit {eo.op_label(op)} after {label} + revert", spec, ops, out, f"C15:later-edit-stale:{label}{sfx}")
                    elif err4 not in ("capacity", "fixed-instances", "neg-storage", "not-allowed", "shape") and not same_refusal_on_fresh(live.spec, op, err4):   # shape: D15 (C04)
                        # a valid edit elsewhere raises after the recovery: the model is not back to a sound state
                        out["violations"].append({"signature": f"C15:later-edit-raises:{label}:{err4}{sfx}",
                                                  "detail": f"after {label} + revert (and a further edit of the same input), the valid edit {eo.op_label(op)} raises {err4}",
                                                  "replay": {"spec": spec, "ops": list(ops)}})
                        ok = False
                    if not ok or st4 != "ok":
                        ok = False if st4 != "ok" else ok      # a refused edit ends the history
                        break
            if not ok:
                break
        out["hashes"].append(eo.sysoracles_hash(spec, ops))
        if len(out["samples"]) < 1:
            out["samples"].append({"history": [eo.op_label(o) + "=" + str(o["value"].get("m") if isinstance(o.get("value"), dict) else o.get("value")) for o in ops]})
        # ---- injected crash points: an exception at position k of the recomputation chain of a valid edit
        if ok and rng.random() < 0.6:
            try:
                with watchdog(120):
                    live2 = Live(spec)
            except Exception:  # noqa
                continue
            op = None
            for _ in range(20):
                op = history.gen_numeric_edit(rng, live2.spec, kinds=["jobs", "servers", "storages", "steps"])
                if op and op["name"] in eo.reachable_spec_names(live2.spec) and eo.safe_after(live2, op):
                    break
                op = None
            if op is None:
                continue
            old = current_value_op(live2, op)
            chain_len = len(getattr(live2.obj(op["name"]), op["param"]).attr_updates_chain)
            for k in sorted(rng.sample(range(chain_len), min(chain_len, 3))) if chain_len else []:
                out["crash_points"] += 1
                orig = mu.ModelingUpdate.recompute_attributes

                def failing(self, _k=k, _orig=orig):
                    recomputed = []
                    for idx, v in enumerate(self.values_to_recompute):
                        if idx == _k:
                            raise Injected(f"injected at position {_k}")
                        v.update_function()
                        recomputed.append(getattr(v.modeling_obj_container, v.attr_name_in_mod_obj_container))
                    return recomputed
                mu.ModelingUpdate.recompute_attributes = failing
                try:
                    st, err = live2.apply(op)
                finally:
                    mu.ModelingUpdate.recompute_attributes = orig
                hist = [dict(op, injected_at=k)]
                st2, err2 = live2.apply(old)
                hist.append(old)
                if st2 != "ok":
                    out["violations"].append({"signature": f"C15:revert-refused:injected:{err2}", "detail": f"position {k}/{chain_len} of {eo.op_label(op)}",
                                              "replay": {"spec": spec, "ops": hist}})
                    break
                if not compare(live2, f"injected failure at {k}/{chain_len} of {eo.op_label(op)} + revert", spec, hist, out, "C15:revert-does-not-restore:injected"):
                    break
                st3, err3 = live2.apply(op)
                hist.append(op)
                if st3 == "ok":
                    if not compare(live2, f"same edit again after injected failure at {k}/{chain_len} + revert", spec, hist, out, "C15:edit-after-recovery-stale:injected"):
                        break
                    live2.apply(old)
    return out

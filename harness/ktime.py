"""K-time: every helper of builders/time_builders.py vs the Lean model, plus the direct C20 oracle."""
import calendar
import math
import random
from datetime import datetime, timedelta
from fractions import Fraction

from harness.common import watchdog, run_lean, err_enum, rat_str, frac
from harness import realsys
from harness.realsys import u, canon
from efootprint.builders import time_builders as tb

UNITS = ["dimensionless", "kB", "GB", "W"]


def gen_case(rng):
    fn = rng.choice(["list", "freq", "freq", "daily", "linear", "sinus", "dailyfluct", "srclist"])
    y, m = rng.choice([2023, 2024, 2025, 2028]), rng.randint(1, 12)
    d = rng.randint(1, 28) if rng.random() < 0.8 else rng.choice([28, 29, 30, 31])
    try:
        start = datetime(y, m, d, rng.randrange(24))
    except ValueError:
        start = datetime(y, m, 28, rng.randrange(24))
    unit = rng.choice(UNITS)
    # a start date that is not on a whole hour is legal: the time line is anchored on it
    minute = rng.choice([15, 30, 45, 7]) if fn in ("list", "srclist", "linear", "freq", "daily") and rng.random() < 0.25 else 0
    c = {"fn": fn, "start": [start.year, start.month, start.day, start.hour, minute], "unit": unit}
    if fn in ("list", "srclist"):
        c["vals"] = [round(rng.uniform(0, 50), 2) for _ in range(rng.randint(1, 40))]
    elif fn == "freq":
        c["freq"] = rng.choice(["daily", "weekly", "monthly", "yearly"])
        c["span_hours"] = rng.choice([rng.randint(1, 30), rng.randint(30, 24 * 40), 24 * rng.randint(1, 400)])
        c["volume"] = round(rng.uniform(1, 100), 2)
        if c["freq"] != "daily" and rng.random() < 0.8:
            c["ad"] = {"weekly": sorted(rng.sample(range(7), rng.randint(1, 3))),
                       "monthly": sorted(rng.sample(range(1, 32), rng.randint(1, 3))),
                       "yearly": sorted(rng.sample(range(1, 367), rng.randint(1, 4)))}[c["freq"]]
        if rng.random() < 0.8:
            c["hs"] = sorted(rng.sample(range(24), rng.randint(1, 4)))
    elif fn == "daily":
        c["span_hours"] = 24 * rng.randint(1, 20) + rng.choice([0, 0, 5, 13])
        c["volume"] = round(rng.uniform(1, 1000), 2)
        c["hours"] = sorted(rng.sample(range(24), rng.randint(1, 8)))
        r_ = rng.random()
        if r_ < 0.08:
            c["hours"] = c["hours"] + [rng.choice(c["hours"])]                  # a repeated hour: refused
        elif r_ < 0.16:
            c["hours"] = c["hours"] + [rng.choice([24, 25, -1, 48])]              # not an hour of the day: refused
    else:
        c["span_hours"] = rng.randint(2, 200)
        c["a"], c["b"] = rng.randint(0, 50), rng.randint(0, 500)
        c["period"] = rng.choice([6, 24, 168])
        c["scale"] = rng.choice([0.2, 0.5, 1.0])
        c["hmin"] = rng.randrange(24)
    return c


def span_q(c):
    """the timespan as the user would write it: days when a whole number of days, else hours"""
    h = c["span_hours"]
    return (h // 24) * u.day if h % 24 == 0 else h * u.hour


def run_real(c):
    start = datetime(*c["start"])
    pu = u(c["unit"]).units
    try:
        with watchdog(60):
            fn = c["fn"]
            if fn == "list":
                df = tb.create_hourly_usage_df_from_list(c["vals"], start, pu)
                from efootprint.abstract_modeling_classes.source_objects import SourceHourlyValues
                r = SourceHourlyValues(df)
            elif fn == "srclist":
                r = tb.create_source_hourly_values_from_list(c["vals"], start, pu)
            elif fn == "freq":
                r = tb.create_hourly_usage_from_frequency(span_q(c), c["volume"], c["freq"], c.get("ad"), c.get("hs"), start, pu)
            elif fn == "daily":
                r = tb.create_hourly_usage_from_daily_volume_and_list_of_hours(span_q(c), c["volume"], c["hours"], start, pu)
            elif fn == "linear":
                r = tb.linear_growth_hourly_values(span_q(c), c["a"], c["b"], start, pu)
            elif fn == "sinus":
                r = tb.sinusoidal_fluct_hourly_values(span_q(c), c["a"], c["period"], start, pu)
            else:
                r = tb.daily_fluct_hourly_values(span_q(c), c["scale"], c["hmin"], start, pu)
            return "ok", canon(r)
    except Exception as e:  # noqa
        return "err", err_enum(e)


def start_epoch(c):
    return calendar.timegm((c["start"][0], c["start"][1], c["start"][2], c["start"][3], c["start"][4] if len(c["start"]) > 4 else 0, 0))


def lean_request(c):
    fn = c["fn"]
    s = start_epoch(c)
    if fn in ("list", "srclist"):
        return {"cmd": "time", "fn": "list", "start": s, "vals": [rat_str(v) for v in c["vals"]]}
    if fn == "freq":
        r = {"cmd": "time", "fn": "freq", "start": s, "n": c["span_hours"] + 1, "volume": rat_str(c["volume"]), "freq": c["freq"]}
        if "ad" in c:
            r["ad"] = c["ad"]
        if "hs" in c:
            r["hs"] = c["hs"]
        return r
    if fn == "daily":
        return {"cmd": "time", "fn": "daily", "start": s, "n": c["span_hours"] + 1, "volume": rat_str(c["volume"]), "hours": c["hours"]}
    if fn == "linear":
        return {"cmd": "time", "fn": "linear", "start": s, "n": c["span_hours"], "a": rat_str(c["a"]), "b": rat_str(c["b"])}
    return None


def invalid_hours(hours):
    return len(set(hours)) != len(hours) or any(h < 0 or h > 23 for h in hours) or not hours


def oracle(c, st, r):
    """C20 stated directly on the real result"""
    fn = c["fn"]
    if fn == "daily" and invalid_hours(c["hours"]):
        # a daily volume cannot be spread over a repeated hour or an hour that does not exist: the call is refused
        # (since the repair of finding D12; before it such a list silently lost a share of the volume)
        return None if st != "ok" else "daily-volume-sum:duplicate-or-out-of-range-hours"
    if st != "ok":
        return f"raises:{r}"
    s = start_epoch(c)
    n_exp = len(c["vals"]) if fn in ("list", "srclist") else (c["span_hours"] + 1 if fn in ("freq", "daily") else c["span_hours"])
    if len(r["ks"]) != n_exp:
        return f"length:{fn}"
    if r["ks"] and r["ks"][0] != s:
        return f"start:{fn}"
    if any(b - a != 3600 for a, b in zip(r["ks"], r["ks"][1:])):
        return f"not-contiguous:{fn}"
    if r["unit"] != str(u(c["unit"]).units):
        return f"unit:{fn}"
    vs = r["vs"]

    def near(a, b):
        return abs(a - b) <= 1e-9 * max(1.0, abs(a), abs(b))
    if fn in ("list", "srclist"):
        if any(not near(a, b) for a, b in zip(vs, c["vals"])):
            return f"values:{fn}"
    elif fn in ("freq", "daily"):
        freq = c.get("freq", "daily")
        hs = c.get("hs", [0]) if fn == "freq" else c["hours"]
        ad = c.get("ad", [0] if freq == "weekly" else [1])
        vol = c["volume"] if fn == "freq" else c["volume"] / len(c["hours"])
        for k, v in zip(r["ks"], vs) if not c.get("witness") else []:
            t = datetime.utcfromtimestamp(k)
            hit = t.hour in hs and (freq == "daily" or (freq == "weekly" and t.weekday() in ad)
                                    or (freq == "monthly" and t.day in ad) or (freq == "yearly" and t.timetuple().tm_yday in ad))
            if not near(v, vol if hit else 0.0):
                return f"values:{fn}:{freq}"
        if fn == "daily":
            # every full day sums to the daily volume
            t0 = datetime.utcfromtimestamp(r["ks"][0])
            i = (24 - t0.hour) % 24
            while i + 24 <= len(vs):
                if not near(sum(vs[i:i + 24]), c["volume"]):
                    odd = len(set(c["hours"])) != len(c["hours"]) or any(h < 0 or h > 23 for h in c["hours"])
                    return "daily-volume-sum" + (":duplicate-or-out-of-range-hours" if odd else "")
                i += 24
    elif fn == "linear":
        n = len(vs)
        for i, v in enumerate(vs):
            e = c["a"] if n == 1 else c["a"] + i * (c["b"] - c["a"]) / (n - 1)
            if not near(v, e):
                return "values:linear"
    elif fn == "sinus":
        for i, v in enumerate(vs):
            if not near(v, c["a"] * math.sin(2 * math.pi * i / c["period"])):
                return "values:sinus"
    else:
        for i, v in enumerate(vs):
            hod = (c["start"][3] + i) % 24
            if not near(v, 1 + c["scale"] * math.sin(3 * math.pi / 2 + 2 * math.pi * (hod - c["hmin"]) / 24)):
                return "values:dailyfluct"
    return None


def run_shard(args):
    seed, n = args
    rng = random.Random(seed)
    cases = [gen_case(rng) for _ in range(n)]
    reals = [run_real(c) for c in cases]
    reqs = [(i, lean_request(c)) for i, c in enumerate(cases)]
    answers = dict(zip([i for i, q in reqs if q], run_lean([q for i, q in reqs if q])))
    out = {"cases": n, "corr": len(answers), "disagreements": [], "violations": [], "fns": {}, "samples": []}
    for i, (c, (st, r)) in enumerate(zip(cases, reals)):
        out["fns"][c["fn"]] = out["fns"].get(c["fn"], 0) + 1
        a = answers.get(i)
        if a is not None:
            if "bad" in a:
                out["disagreements"].append({"why": "driver: " + a["bad"], "case": c})
            elif "err" in a:
                if st == "ok":
                    out["disagreements"].append({"why": f"model refuses ({a['err']}), real code accepts", "case": c})
            elif st != "ok":
                out["disagreements"].append({"why": f"real raises {r}", "case": c})
            elif a["ks"] != r["ks"]:
                out["disagreements"].append({"why": f"index: real {len(r['ks'])} points from {r['ks'][:1]}, model {len(a['ks'])} from {a['ks'][:1]}", "case": c})
            elif any(abs(x - float(Fraction(y))) > 1e-9 * max(1.0, abs(x)) for x, y in zip(r["vs"], a["vs"])):
                out["disagreements"].append({"why": "values differ", "case": c})
        v = oracle(c, st, r)
        if v:
            out["violations"].append({"signature": "C20:" + v, "detail": v, "replay": {"case": c}})
        if len(out["samples"]) < 2:
            out["samples"].append(c)
    return out

"""Shared helpers of the verification harness (runs under /venv/bin/python with PYTHONPATH=/repo)."""
import contextlib
import json
import logging
import os
import signal
import subprocess
import sys
import time
from fractions import Fraction

VERIF = os.path.dirname(os.path.dirname(os.path.abspath(__file__)))
REPO = os.environ.get("EFP_REPO", "/repo")
LEAN_DIR = os.path.join(VERIF, "lean")
if REPO not in sys.path:
    sys.path.insert(0, REPO)

_LEAN_ENV = None


def lean_env():
    """Environment in which `lean` sees the Efp library (what `lake env` would set)."""
    global _LEAN_ENV
    if _LEAN_ENV is None:
        env = dict(os.environ)
        build = os.path.join(LEAN_DIR, ".lake", "build", "lib", "lean")
        env["LEAN_PATH"] = build + (":" + env["LEAN_PATH"] if env.get("LEAN_PATH") else "")
        _LEAN_ENV = env
    return _LEAN_ENV


def silence_logs():
    try:
        from efootprint.logger import logger
        logger.setLevel(logging.CRITICAL)
        for h in logger.handlers:
            h.setLevel(logging.CRITICAL)
    except Exception:
        pass
    import warnings
    warnings.filterwarnings("ignore")


class Hang(Exception):
    pass


@contextlib.contextmanager
def watchdog(seconds=20):
    """Every call into the real code runs under an alarm: non-termination is an observation."""
    # the limit is on the CPU time of the process (a non-terminating edit spins), so that a loaded machine does not turn a
    # slow call into a "hang"; a wall-clock alarm ten times as long is the backstop for a call that blocks without spinning
    def handler(signum, frame):
        raise Hang()
    old_p = signal.signal(signal.SIGPROF, handler)
    old_a = signal.signal(signal.SIGALRM, handler)
    signal.setitimer(signal.ITIMER_PROF, float(seconds))
    signal.alarm(int(seconds) * 10)
    try:
        yield
    finally:
        signal.setitimer(signal.ITIMER_PROF, 0)
        signal.alarm(0)
        signal.signal(signal.SIGPROF, old_p)
        signal.signal(signal.SIGALRM, old_a)


def frac(x):
    """Exact rational value of a Python number (floats via as_integer_ratio)."""
    if isinstance(x, Fraction):
        return x
    if isinstance(x, int):
        return Fraction(x)
    return Fraction(*float(x).as_integer_ratio())


def rat_str(x):
    f = frac(x)
    return str(f.numerator) if f.denominator == 1 else f"{f.numerator}/{f.denominator}"


def parse_rat(s):
    return Fraction(s)


def run_lean(requests, timeout=600):
    """Pipe JSON requests (one per line) through the Lean driver; return the parsed answers."""
    if not requests:
        return []
    data = "\n".join(json.dumps(r, separators=(",", ":")) for r in requests) + "\n"
    t0 = time.time()
    p = subprocess.run(["lean", "--run", "Driver.lean"], cwd=LEAN_DIR, input=data, capture_output=True,
                       text=True, env=lean_env(), timeout=timeout)
    if p.returncode != 0:
        raise RuntimeError(f"lean driver failed rc={p.returncode}: {p.stderr[-2000:]} {p.stdout[-500:]}")
    lines = [l for l in p.stdout.splitlines() if l.strip()]
    if len(lines) != len(requests):
        raise RuntimeError(f"lean driver answered {len(lines)} lines for {len(requests)} requests: {p.stderr[-1000:]}")
    return [json.loads(l) for l in lines]


def err_enum(exc):
    """Map a Python exception from the real code to the small enum shared with the model."""
    if isinstance(exc, Hang):
        return "hang"
    name = type(exc).__name__
    msg = str(exc)
    if name == "DimensionalityError":
        return "dim"
    if "negative cumulative storage need" in msg:
        return "neg-storage"
    if "available capacity" in msg:
        return "capacity"
    if "superior to the number of instances specified" in msg or "instances specified by the user" in msg:
        return "fixed-instances"
    if "could not be broadcast" in msg or "does not match length of index" in msg:
        return "shape"
    if name == "NotImplementedError":
        return "not-implemented"
    if name == "ZeroDivisionError":
        return "divzero"
    if "should be positive but is negative" in msg:
        return "neg"
    if "is not homogeneous to" in msg:
        return "dim"
    if "cannot be changed after initialization" in msg:
        return "immutable"
    if "should be of type" in msg:
        return "type"
    if "must be instances of" in msg or "only accept ModelingObjects" in msg:
        return "list-type"
    if "not in the list of possible values" in msg or "is not possible because" in msg:
        return "not-allowed"
    if "belong to the existing modeling period" in msg:
        return "period"
    if "should be timezone aware" in msg:
        return "naive-date"
    if name in ("ValueError", "TypeError") and ("Can only" in msg or msg == ""):
        return "type"
    return f"other:{name}"

"""C17 oracle: service jobs and cloud servers are faithful shorthand for plain jobs / servers."""
import random
import re
from datetime import datetime
from fractions import Fraction

from harness.common import watchdog, err_enum, frac
from harness import realsys, sysoracles
from harness.realsys import u, SourceValue, SourceObject, canon
from efootprint.builders.time_builders import create_source_hourly_values_from_list
from efootprint.core.hardware.storage import Storage
from efootprint.core.hardware.server import Server
from efootprint.core.hardware.gpu_server import GPUServer
from efootprint.core.hardware.server_base import ServerTypes
from efootprint.builders.hardware.boavizta_cloud_server import BoaviztaCloudServer
from efootprint.builders.services.web_application import WebApplication, WebApplicationJob
from efootprint.builders.services.video_streaming import VideoStreaming, VideoStreamingJob
from efootprint.builders.services.generative_ai_ecologits import GenAIModel, GenAIJob
from efootprint.core.usage.job import Job
from efootprint.core.usage.usage_journey_step import UsageJourneyStep
from efootprint.core.usage.usage_journey import UsageJourney
from efootprint.core.hardware.device import Device
from efootprint.core.hardware.network import Network
from efootprint.core.country import Country
from efootprint.core.usage.usage_pattern import UsagePattern
from efootprint.core.system import System


def qjson(v):
    """a real ExplainableQuantity as the driver's quantity JSON"""
    from harness import leanio
    from harness.common import rat_str
    return {"q": rat_str(float(v.value.magnitude)), "u": leanio.unit_json(realsys.unit_info, str(v.value.units))}


def model_vs_real(kind, inputs, real_outputs):
    """K-builders: the Lean derivation rules on the same inputs vs the derived parameters of the real builder"""
    from harness.common import run_lean
    from harness import leanio
    req = {"cmd": "derive", "kind": kind}
    for k, v in inputs.items():
        req[k] = v if isinstance(v, int) else qjson(v)
    ans, = run_lean([req])
    if "bad" in ans or "err" in ans:
        return [f"model: {ans}"]
    dis = []
    for k, v in real_outputs.items():
        why = leanio.compare_vals(canon(v), leanio.lean_val(ans[k]))
        if why:
            dis.append(f"{kind}.{k}: {why}")
    return dis


def phys(v):
    c = canon(v)
    return None if c is None else (frac(c["m"]) * c["scale"], tuple(c["dim"]))


def wrap(jobs, starts):
    step = UsageJourneyStep("step", user_time_spent=SourceValue(2 * u.min), jobs=jobs)
    uj = UsageJourney("uj", uj_steps=[step])
    up = UsagePattern("up", usage_journey=uj, devices=[Device.from_defaults("dev")], network=Network.from_defaults("net"),
                      country=Country.from_defaults("co", short_name="CO"),
                      hourly_usage_journey_starts=create_source_hourly_values_from_list(starts, datetime(2025, 5, 5, 7)))
    return System("sys", usage_patterns=[up])


def footprints(system):
    out = {}
    for kind, objs in (("server", system.servers), ("storage", system.storages), ("network", system.networks)):
        for o in objs:
            for a in ("energy_footprint", "instances_fabrication_footprint", "nb_of_instances", "raw_nb_of_instances", "instances_energy"):
                if hasattr(o, a):
                    out[(kind, o.name, a)] = canon(getattr(o, a))
    out[("system", "sys", "total_footprint")] = canon(system.total_footprint)
    return out


def close_q(a, b, rel=1e-9):
    return a is not None and b is not None and a[1] == b[1] and sysoracles.close(a[0], b[0], 1e-300, rel)


def case_video(rng, choice=None):
    """VideoStreamingJob ≡ plain Job with the derived parameters, service base RAM added to the server's"""
    vs = []
    res_list = [r.value for r in VideoStreamingJob.list_values()["resolution"]]
    resolution = choice or rng.choice(res_list)
    dur = rng.choice([0.25, 1.0, 1.5, 2.4])
    fps = rng.choice([24, 30, 60])
    bpp = rng.choice([0.05, 0.1, 0.2])
    cost = round(rng.uniform(0.5, 6), 2)
    base_ram = round(rng.uniform(0.5, 4), 2)
    buf = rng.choice([20, 50, 120])
    starts = [round(rng.uniform(1, 60), 2) for _ in range(rng.randint(3, 10))]
    mixed = rng.random() < 0.5

    def mk(plain):
        st = Storage.from_defaults("st")
        sv = Server.from_defaults("sv", storage=st, ram=SourceValue(512 * u.GB), compute=SourceValue(256 * u.cpu_core),
                                  base_ram_consumption=SourceValue((1.0 + (base_ram if plain else 0)) * u.GB))
        extra = [Job.from_defaults("other", server=sv)] if mixed else []
        if plain is None:
            svc = VideoStreaming("video", server=sv, base_ram_consumption=SourceValue(base_ram * u.GB),
                                 bits_per_pixel=SourceValue(bpp * u.dimensionless),
                                 static_delivery_cpu_cost=SourceValue(cost * u.cpu_core / (u.GB / u.s)),
                                 ram_buffer_per_user=SourceValue(buf * u.MB))
            job = VideoStreamingJob("vjob", service=svc, resolution=SourceObject(resolution), video_duration=SourceValue(dur * u.hour),
                                    refresh_rate=SourceValue(fps * u.dimensionless / u.s), data_stored=SourceValue(0 * u.MB))
            return wrap([job] + extra, starts), job, svc
        job = Job("vjob", server=sv, **plain)
        return wrap([job] + extra, starts), job, None
    sysA, jobA, svc = mk(None)
    derived = {k: SourceValue(getattr(jobA, k).value) for k in ("data_transferred", "data_stored", "request_duration", "compute_needed", "ram_needed")}
    sysB, jobB, _ = mk(derived)
    why = sysoracles.obs_diff(footprints(sysA), footprints(sysB))
    if why:
        vs.append(("video-streaming-differs-from-plain-job", why))
    w0, h0 = map(int, re.search(r"\((\d+)\s*x\s*(\d+)\)", resolution).groups())
    DIS.extend(model_vs_real("video", {"pixels": w0 * h0, "bits_per_pixel": svc.bits_per_pixel, "refresh_rate": jobA.refresh_rate,
                                        "video_duration": jobA.video_duration, "static_delivery_cpu_cost": svc.static_delivery_cpu_cost,
                                        "ram_buffer_per_user": svc.ram_buffer_per_user},
                             {k: getattr(jobA, k) for k in ("dynamic_bitrate", "data_transferred", "request_duration", "compute_needed", "ram_needed")}))
    # the stated rule: bitrate = pixels × bits per pixel × frame rate; data = bitrate × duration; cpu = cost × bitrate
    w, h = map(int, re.search(r"\((\d+)\s*x\s*(\d+)\)", resolution).groups())
    bitrate = Fraction(w * h) * frac(bpp) * frac(fps)          # bits / s (bit is dimensionless in pint)
    if not close_q(phys(jobA.dynamic_bitrate), (bitrate, (-1, 0, 0, 0, 0))):
        vs.append(("video-bitrate-rule", f"{resolution} {bpp} bpp {fps} fps: bitrate {phys(jobA.dynamic_bitrate)} expected {bitrate} bit/s"))
    if not close_q(phys(jobA.data_transferred), (bitrate * frac(dur) * 3600, (0, 0, 0, 0, 0))):
        vs.append(("video-data-rule", "data transferred ≠ bitrate × duration"))
    if not close_q(phys(jobA.request_duration), (frac(dur) * 3600, (1, 0, 0, 0, 0))):
        vs.append(("video-duration-rule", "request duration ≠ video duration"))
    exp_cpu = frac(cost) / Fraction(8 * 10 ** 9) * bitrate
    if not close_q(phys(jobA.compute_needed), (exp_cpu, (0, 0, 0, 1, 0))):
        vs.append(("video-cpu-rule", f"compute needed {phys(jobA.compute_needed)} expected {exp_cpu}"))
    # refreshed when a builder input changes
    jobA.refresh_rate = SourceValue(2 * fps * u.dimensionless / u.s)
    if not close_q(phys(jobA.data_transferred), (2 * bitrate * frac(dur) * 3600, (0, 0, 0, 0, 0))):
        vs.append(("video-not-refreshed:refresh_rate", "data transferred not refreshed after editing refresh_rate"))
    svc.bits_per_pixel = SourceValue(2 * bpp * u.dimensionless)
    if not close_q(phys(jobA.data_transferred), (4 * bitrate * frac(dur) * 3600, (0, 0, 0, 0, 0))):
        vs.append(("video-not-refreshed:bits_per_pixel", "data transferred not refreshed after editing the service's bits_per_pixel"))
    # … including the categorical input, back and forth (a value equal to an earlier one is a new object)
    others = [r for r in res_list if r != resolution]
    for nxt in [rng.choice(others), resolution, rng.choice(others)]:
        jobA.resolution = SourceObject(nxt)
        w2, h2 = map(int, re.search(r"\((\d+)\s*x\s*(\d+)\)", nxt).groups())
        br2 = Fraction(w2 * h2) * frac(bpp) * 2 * frac(fps) * 2
        if not close_q(phys(jobA.dynamic_bitrate), (br2, (-1, 0, 0, 0, 0))):
            vs.append(("video-not-refreshed:resolution", f"bitrate not refreshed after switching the resolution to {nxt}"))
            break
        if not close_q(phys(jobA.data_transferred), (br2 * frac(dur) * 3600, (0, 0, 0, 0, 0))):
            vs.append(("video-not-refreshed:resolution", f"data transferred not refreshed after switching the resolution to {nxt}"))
            break
    derived2 = {k: SourceValue(getattr(jobA, k).value) for k in derived}
    sysC, _, _ = mk(derived2)
    why = sysoracles.obs_diff(footprints(sysA), footprints(sysC))
    if why:
        vs.append(("video-streaming-differs-from-plain-job-after-edit", why))
    # … and the service itself: the job re-pointed to another service installed on the same server
    if not vs:
        bpp2 = bpp * 3
        occ0 = phys(svc.server.occupied_ram_per_instance)
        svc2 = VideoStreaming("video2", server=svc.server, base_ram_consumption=SourceValue(3 * u.GB),
                              bits_per_pixel=SourceValue(bpp2 * u.dimensionless),
                              static_delivery_cpu_cost=SourceValue(cost * u.cpu_core / (u.GB / u.s)),
                              ram_buffer_per_user=SourceValue(buf * u.MB))
        # "with the service's base consumption added to the server's": also for a service installed on a computed server
        if not close_q(phys(svc.server.occupied_ram_per_instance), (occ0[0] + 3 * 8 * 10 ** 9, occ0[1])):
            vs.append(("service-installed-on-a-computed-server-not-accounted", "a service with 3 GB of base RAM installed on the server of a computed "
                       "system: the server's occupied RAM per instance is unchanged"))
        jobA.service = svc2
        w3, h3 = map(int, re.search(r"\((\d+)\s*x\s*(\d+)\)", jobA.resolution.value).groups())
        br3 = Fraction(w3 * h3) * frac(bpp2) * frac(fps) * 2
        if not close_q(phys(jobA.dynamic_bitrate), (br3, (-1, 0, 0, 0, 0))):
            vs.append(("video-not-refreshed:service", "bitrate not refreshed after re-pointing the job to another service"))
        elif not close_q(phys(jobA.data_transferred), (br3 * frac(dur) * 3600, (0, 0, 0, 0, 0))):
            vs.append(("video-not-refreshed:service", "data transferred not refreshed after re-pointing the job to another service"))
        # … and the input that is handed over unchanged to a derived parameter (video duration → request duration), twice
        for mult in (2, 3):
            if vs:
                break
            try:
                jobA.video_duration = SourceValue(mult * dur * u.hour)
            except Exception as e:  # noqa
                vs.append(("video-edit-raises:video_duration", f"edit number {mult - 1} of video_duration raises {type(e).__name__}: {str(e)[:120]}"))
                break
            if not close_q(phys(jobA.video_duration), (mult * frac(dur) * 3600, (1, 0, 0, 0, 0))):
                vs.append(("video-input-not-set:video_duration", f"video_duration reads {jobA.video_duration.value} after being set to {mult * dur} h"))
            elif not close_q(phys(jobA.request_duration), (mult * frac(dur) * 3600, (1, 0, 0, 0, 0))):
                vs.append(("video-not-refreshed:video_duration", "request duration not refreshed after editing video_duration"))
            elif not close_q(phys(jobA.data_transferred), (br3 * mult * frac(dur) * 3600, (0, 0, 0, 0, 0))):
                vs.append(("video-not-refreshed:video_duration", "data transferred not refreshed after editing video_duration"))
    return vs, {"builder": "video", "choice": resolution, "mixed_with_plain_job": mixed}


def case_web(rng, choice=None):
    vs = []
    techs = [t.value for t in WebApplication.list_values()["technology"]]
    impls = [t.value for t in WebApplicationJob.list_values()["implementation_details"]]
    tech, impl = choice or (rng.choice(techs), rng.choice(impls))
    starts = [round(rng.uniform(1, 600), 2) for _ in range(rng.randint(3, 10))]
    mixed = rng.random() < 0.5
    dt, ds = round(rng.uniform(0.1, 5), 2), round(rng.uniform(1, 500), 1)

    def mk(plain):
        st = Storage.from_defaults("st")
        sv = Server.from_defaults("sv", storage=st, ram=SourceValue(2048 * u.GB), compute=SourceValue(512 * u.cpu_core))
        extra = [Job.from_defaults("other", server=sv)] if mixed else []
        if plain is None:
            svc = WebApplication("web", server=sv, technology=SourceObject(tech))
            job = WebApplicationJob("wjob", service=svc, data_transferred=SourceValue(dt * u.MB), data_stored=SourceValue(ds * u.kB),
                                    implementation_details=SourceObject(impl))
            return wrap([job] + extra, starts), job, svc
        return wrap([Job("wjob", server=sv, **plain)] + extra, starts), None, None
    try:
        sysA, jobA, svc = mk(None)
    except Exception as e:  # noqa
        return [(f"web-build-raises:{type(e).__name__}", f"{tech}/{impl}: {e}")], {"builder": "web", "choice": [tech, impl]}
    derived = {k: SourceValue(getattr(jobA, k).value) for k in ("data_transferred", "data_stored", "request_duration", "compute_needed", "ram_needed")}
    sysB, _, _ = mk(derived)
    why = sysoracles.obs_diff(footprints(sysA), footprints(sysB))
    if why:
        vs.append(("web-application-differs-from-plain-job", why))
    from efootprint.builders.services.web_application import ECOBENCHMARK_DF
    row = ECOBENCHMARK_DF[(ECOBENCHMARK_DF["service"] == tech) & (ECOBENCHMARK_DF["use_case"] == impl)].iloc[0]
    if not close_q(phys(jobA.compute_needed), (frac(float(row["avg_cpu_core_per_request"])), (0, 0, 0, 1, 0))):
        vs.append(("web-cpu-rule", "compute needed ≠ Ecobenchmark row"))
    if not close_q(phys(jobA.ram_needed), (frac(float(row["avg_ram_per_request_in_MB"])) * 8 * 10 ** 6, (0, 0, 0, 0, 0))):
        vs.append(("web-ram-rule", "RAM needed ≠ Ecobenchmark row"))
    # refresh: change the technology of the service
    other = rng.choice([t for t in techs if t != tech])
    try:
        svc.technology = SourceObject(other)
    except IndexError as e:  # D23 reached through an edit: no Ecobenchmark row for (other, impl)
        return vs + [("web-edit-raises:IndexError", f"technology {tech} → {other} with {impl}: {e}")], {"builder": "web", "choice": [tech, impl]}
    row2 = ECOBENCHMARK_DF[(ECOBENCHMARK_DF["service"] == other) & (ECOBENCHMARK_DF["use_case"] == impl)].iloc[0]
    if not close_q(phys(jobA.compute_needed), (frac(float(row2["avg_cpu_core_per_request"])), (0, 0, 0, 1, 0))):
        vs.append(("web-not-refreshed:technology", f"compute needed not refreshed after switching {tech} → {other}"))
    if not close_q(phys(jobA.ram_needed), (frac(float(row2["avg_ram_per_request_in_MB"])) * 8 * 10 ** 6, (0, 0, 0, 0, 0))):
        vs.append(("web-not-refreshed:technology", f"RAM needed not refreshed after switching {tech} → {other}"))
    # … and the implementation of the job
    impls_ok = [i for i in impls if i != impl and len(ECOBENCHMARK_DF[(ECOBENCHMARK_DF["service"] == other) & (ECOBENCHMARK_DF["use_case"] == i)])]
    if impls_ok:
        impl2 = rng.choice(impls_ok)
        jobA.implementation_details = SourceObject(impl2)
        row3 = ECOBENCHMARK_DF[(ECOBENCHMARK_DF["service"] == other) & (ECOBENCHMARK_DF["use_case"] == impl2)].iloc[0]
        if not close_q(phys(jobA.compute_needed), (frac(float(row3["avg_cpu_core_per_request"])), (0, 0, 0, 1, 0))):
            vs.append(("web-not-refreshed:implementation_details", f"compute needed not refreshed after switching {impl} → {impl2}"))
        if not close_q(phys(jobA.ram_needed), (frac(float(row3["avg_ram_per_request_in_MB"])) * 8 * 10 ** 6, (0, 0, 0, 0, 0))):
            vs.append(("web-not-refreshed:implementation_details", f"RAM needed not refreshed after switching {impl} → {impl2}"))
    # after the edits the builder model still equals the plain model carrying the derived parameters
    derived2 = {k: SourceValue(getattr(jobA, k).value) for k in derived}
    sysC, _, _ = mk(derived2)
    why = sysoracles.obs_diff(footprints(sysA), footprints(sysC))
    if why:
        vs.append(("web-application-differs-from-plain-job-after-edit", why))
    # … and the service itself: the job re-pointed to another web application installed on the same server
    cur_impl = jobA.implementation_details.value
    techs3 = [t for t in techs if t != svc.technology.value and len(ECOBENCHMARK_DF[(ECOBENCHMARK_DF["service"] == t) & (ECOBENCHMARK_DF["use_case"] == cur_impl)])]
    if not vs and techs3:
        t3 = rng.choice(techs3)
        svc2 = WebApplication("web2", server=svc.server, technology=SourceObject(t3))
        jobA.service = svc2
        row4 = ECOBENCHMARK_DF[(ECOBENCHMARK_DF["service"] == t3) & (ECOBENCHMARK_DF["use_case"] == cur_impl)].iloc[0]
        if not close_q(phys(jobA.compute_needed), (frac(float(row4["avg_cpu_core_per_request"])), (0, 0, 0, 1, 0))):
            vs.append(("web-not-refreshed:service", f"compute needed not refreshed after re-pointing the job to a {t3} application"))
        if not close_q(phys(jobA.ram_needed), (frac(float(row4["avg_ram_per_request_in_MB"])) * 8 * 10 ** 6, (0, 0, 0, 0, 0))):
            vs.append(("web-not-refreshed:service", f"RAM needed not refreshed after re-pointing the job to a {t3} application"))
    return vs, {"builder": "web", "choice": [tech, impl], "mixed_with_plain_job": mixed}


def case_genai(rng, choice=None):
    vs = []
    from efootprint.builders.services.generative_ai_ecologits import models
    allm = [(m.provider.name, m.name) for m in models.list_models()]
    # one model of each kind the size rule distinguishes, with equal probability: a number, a range, a mixture of
    # experts given by numbers, a mixture of experts given by ranges
    kinds_ = {}
    for m in models.list_models():
        p_ = m.architecture.parameters
        k_ = ("moe-" + ("range" if hasattr(p_.active, "min") else "number")) if hasattr(p_, "active") else ("dense-" + ("range" if hasattr(p_, "min") else "number"))
        kinds_.setdefault(k_, []).append((m.provider.name, m.name))
    provider, name = choice or rng.choice(kinds_[rng.choice(sorted(kinds_))])
    tokens = rng.choice([100, 1000, 2500])
    starts = [round(rng.uniform(0.1, 5), 2) for _ in range(rng.randint(3, 8))]
    try:
        st = Storage.from_defaults("st")
        gpu = GPUServer.from_defaults("gpu", storage=st, compute=SourceValue(16 * u.gpu))
        svc = GenAIModel.from_defaults("genai", server=gpu, provider=SourceObject(provider), model_name=SourceObject(name))
        job = GenAIJob("gjob", service=svc, output_token_count=SourceValue(tokens * u.dimensionless))
        system = wrap([job], starts)
    except Exception as e:  # noqa
        en = err_enum(e)
        if en in ("capacity",):
            return [], {"builder": "genai", "choice": [provider, name], "outcome": en}
        return [(f"genai-build-raises:{en}", f"{provider}/{name}: {e}")], {"builder": "genai", "choice": [provider, name]}
    DIS.extend(model_vs_real("genai", {"active_params": svc.active_params, "total_params": svc.total_params,
                                        "nb_of_bits_per_parameter": svc.nb_of_bits_per_parameter, "llm_memory_factor": svc.llm_memory_factor,
                                        "gpu_latency_alpha": svc.gpu_latency_alpha, "gpu_latency_beta": svc.gpu_latency_beta,
                                        "bits_per_token": svc.bits_per_token, "output_token_count": job.output_token_count,
                                        "ram_per_gpu": gpu.ram_per_gpu},
                             {"output_token_weights": job.output_token_weights, "data_transferred": job.data_transferred,
                              "data_stored": job.data_stored, "request_duration": job.request_duration,
                              "compute_needed": job.compute_needed, "base_ram_consumption": svc.base_ram_consumption}))
    active, total = phys(svc.active_params)[0], phys(svc.total_params)[0]
    # the model's sizes as the EcoLogits repository gives them (a number, a range → its middle, or active/total of a
    # mixture of experts, each a number or a range)
    def mid(x):
        return (frac(x.min) + frac(x.max)) / 2 if hasattr(x, "min") and hasattr(x, "max") else frac(x)
    try:
        prm = models.find_model(provider=provider, model_name=name).architecture.parameters
        exp_active = mid(prm.active) if hasattr(prm, "active") else mid(prm)
        exp_total = mid(prm.total) if hasattr(prm, "total") else mid(prm)
        kind_ = "moe" if hasattr(prm, "active") else "dense"
        if not close_q((active, (0, 0, 0, 0, 0)), (exp_active * 10 ** 9, (0, 0, 0, 0, 0))):
            vs.append((f"genai-active-params:{kind_}", f"{provider}/{name}: active parameters {float(active):.4g} but EcoLogits says {float(exp_active)} billion"))
        if not close_q((total, (0, 0, 0, 0, 0)), (exp_total * 10 ** 9, (0, 0, 0, 0, 0))):
            vs.append((f"genai-total-params:{kind_}", f"{provider}/{name}: total parameters {float(total):.4g} but EcoLogits says {float(exp_total)} billion"))
    except Exception as e:  # noqa
        vs.append(("genai-repository-lookup-raises", f"{provider}/{name}: {type(e).__name__}: {e}"))
    bits = phys(svc.nb_of_bits_per_parameter)[0]
    fac = phys(svc.llm_memory_factor)[0]
    if not close_q(phys(svc.base_ram_consumption), (fac * total * bits, (0, 0, 0, 0, 0))):
        vs.append(("genai-base-ram-rule", "base RAM ≠ memory factor × total params × bits per parameter"))
    alpha, beta = phys(svc.gpu_latency_alpha)[0], phys(svc.gpu_latency_beta)[0]
    if not close_q(phys(job.request_duration), (tokens * (alpha * active + beta), (1, 0, 0, 0, 0))):
        vs.append(("genai-latency-rule", "request duration ≠ tokens × (alpha × active params + beta)"))
    w = tokens * phys(svc.bits_per_token)[0]
    if not close_q(phys(job.output_token_weights), (w, (0, 0, 0, 0, 0))):
        vs.append(("genai-token-weight-rule", "output token weights ≠ tokens × bits per token"))
    for attr in ("data_transferred", "data_stored"):
        if not close_q(phys(getattr(job, attr)), (w + 100 * 8000, (0, 0, 0, 0, 0))):
            vs.append((f"genai-{attr}-rule", f"{attr} ≠ 100 kB + token weights"))
    rpg = phys(gpu.ram_per_gpu)
    if not close_q(phys(job.compute_needed), (fac * active * bits / rpg[0], (0, 0, 0, 0, 1))):
        vs.append(("genai-gpu-rule", "GPUs needed ≠ factor × active params × bits / RAM per GPU"))
    # the server carries the service's base consumption
    if not close_q(phys(gpu.occupied_ram_per_instance), (phys(gpu.base_ram_consumption)[0] + fac * total * bits, (0, 0, 0, 0, 0))):
        vs.append(("genai-base-ram-not-added-to-server", "occupied RAM per instance ≠ server base RAM + service base RAM"))
    # refreshed when a builder input changes
    job.output_token_count = SourceValue(2 * tokens * u.dimensionless)
    if not close_q(phys(job.request_duration), (2 * tokens * (alpha * active + beta), (1, 0, 0, 0, 0))):
        vs.append(("genai-not-refreshed:output_token_count", "request duration not refreshed"))
    # … the job re-pointed to a second model installed on the same server, whose model is then changed: the derived
    # parameters follow the service the job points to, at every step
    def rules_hold(service, n_tokens, where):
        act = phys(service.active_params)[0]
        al, be = phys(service.gpu_latency_alpha)[0], phys(service.gpu_latency_beta)[0]
        if not close_q(phys(job.request_duration), (n_tokens * (al * act + be), (1, 0, 0, 0, 0))):
            vs.append(("genai-not-refreshed:" + where, f"request duration ≠ tokens × (alpha × active params + beta) of the job's service after {where}"))
            return False
        if not close_q(phys(job.compute_needed), (phys(service.llm_memory_factor)[0] * act * phys(service.nb_of_bits_per_parameter)[0] / phys(gpu.ram_per_gpu)[0], (0, 0, 0, 0, 1))):
            vs.append(("genai-not-refreshed:" + where, f"GPUs needed ≠ factor × active params × bits / RAM per GPU of the job's service after {where}"))
            return False
        return True
    if not vs:
        others = [m for m in allm if m != (provider, name)]
        try:
            p2, n2 = rng.choice(others)
            svc2 = GenAIModel.from_defaults("genai2", server=gpu, provider=SourceObject(p2), model_name=SourceObject(n2))
            job.service = svc2
            if rules_hold(svc2, 2 * tokens, "service"):
                same_provider = [m for m in others if m[0] == p2 and m[1] != n2]
                if same_provider:
                    n3 = rng.choice(same_provider)[1]
                    svc2.model_name = SourceObject(n3)
                    if rules_hold(svc2, 2 * tokens, "model_name"):
                        job.output_token_count = SourceValue(3 * tokens * u.dimensionless)
                        rules_hold(svc2, 3 * tokens, "output_token_count-after-re-pointing")
        except Exception as e:  # noqa
            en = err_enum(e)
            if en not in ("capacity",):
                vs.append((f"genai-edit-raises:{en}", f"re-pointing the job / changing the model raises: {str(e)[:160]}"))
    # … and the service moved to a GPU server with another amount of RAM per GPU (an input of the job's GPU need)
    if not vs:
        try:
            cur = job.service
            gpu2 = GPUServer.from_defaults("gpu2", storage=Storage.from_defaults("st2"), compute=SourceValue(16 * u.gpu),
                                           ram_per_gpu=SourceValue(rng.choice([40, 24, 141]) * u.GB / u.gpu))
            cur.server = gpu2
            act = phys(cur.active_params)[0]
            if not close_q(phys(job.compute_needed), (phys(cur.llm_memory_factor)[0] * act * phys(cur.nb_of_bits_per_parameter)[0] / phys(gpu2.ram_per_gpu)[0], (0, 0, 0, 0, 1))):
                vs.append(("genai-not-refreshed:service-server", "GPUs needed not refreshed after moving the service to a GPU server with another RAM per GPU"))
        except Exception as e:  # noqa
            en = err_enum(e)
            if en not in ("capacity",):
                vs.append((f"genai-edit-raises:service-server:{en}", f"moving the service to another GPU server raises: {str(e)[:160]}"))
    return vs, {"builder": "genai", "choice": [provider, name], "spec_for_model": genai_spec(system, job, svc, gpu, starts)}


def genai_spec(system, job, svc, gpu, starts):
    return None


def case_cloud(rng, choice=None):
    vs = []
    from efootprint.builders.hardware.boavizta_cloud_server import all_boavizta_cloud_providers, instance_types_conditional_list_values_dict
    provs = [p.value for p in all_boavizta_cloud_providers]
    if choice:
        provider, itype = choice
    else:
        provider = rng.choice(provs)
        itype = rng.choice([t.value for t in instance_types_conditional_list_values_dict["conditional_list_values"][SourceObject(provider)]])
    starts = [round(rng.uniform(1, 60), 2) for _ in range(rng.randint(3, 8))]
    mixed = rng.random() < 0.5

    def mk(plain):
        st = Storage.from_defaults("st")
        if plain is None:
            sv = BoaviztaCloudServer.from_defaults("cloud", storage=st, provider=SourceObject(provider), instance_type=SourceObject(itype))
        else:
            kw = {k: SourceValue(v) for k, v in plain.items()}
            d = BoaviztaCloudServer.default_values()
            sv = Server("cloud", server_type=ServerTypes.autoscaling(), storage=st, lifespan=d["lifespan"], idle_power=d["idle_power"],
                        power_usage_effectiveness=d["power_usage_effectiveness"], average_carbon_intensity=d["average_carbon_intensity"],
                        server_utilization_rate=d["server_utilization_rate"], base_ram_consumption=d["base_ram_consumption"],
                        base_compute_consumption=d["base_compute_consumption"], **kw)
        jobs = [Job.from_defaults("job", server=sv, ram_needed=SourceValue(5 * u.MB), compute_needed=SourceValue(0.01 * u.cpu_core))]
        if mixed:
            jobs.append(Job.from_defaults("job2", server=sv, ram_needed=SourceValue(2 * u.MB), compute_needed=SourceValue(0.02 * u.cpu_core)))
        return wrap(jobs, starts), sv
    try:
        sysA, svA = mk(None)
    except Exception as e:  # noqa
        import traceback
        in_api = any(fr.name == "update_api_call_response" for fr in traceback.extract_tb(e.__traceback__))
        sig = f"cloud-api-call-raises:{type(e).__name__}" if in_api else f"cloud-build-raises:{err_enum(e)}"
        return [(sig, f"{provider}/{itype}: {e}")], {"builder": "cloud", "choice": [provider, itype]}
    derived = {k: getattr(svA, k).value for k in ("carbon_footprint_fabrication", "power", "ram", "compute")}
    sysB, svB = mk(derived)
    why = sysoracles.obs_diff(footprints(sysA), footprints(sysB))
    if why:
        vs.append(("cloud-server-differs-from-plain-server", why))
    resp = svA.api_call_response.value
    if not close_q(phys(svA.compute), (frac(resp["verbose"]["vcpu"]["value"]), (0, 0, 0, 1, 0))):
        vs.append(("cloud-compute-rule", "compute ≠ vcpu of the API response"))
    if not close_q(phys(svA.ram), (frac(resp["verbose"]["memory"]["value"]) * 8 * 10 ** 9, (0, 0, 0, 0, 0))):
        vs.append(("cloud-ram-rule", "RAM ≠ memory of the API response"))
    if not close_q(phys(svA.power), (frac(resp["verbose"]["avg_power"]["value"]), (-3, 2, 1, 0, 0))):
        vs.append(("cloud-power-rule", "power ≠ avg_power of the API response"))
    if not close_q(phys(svA.carbon_footprint_fabrication), (frac(resp["impacts"]["gwp"]["embedded"]["value"]), (0, 0, 1, 0, 0))):
        vs.append(("cloud-fabrication-rule", "fabrication footprint ≠ embedded gwp of the API response"))
    return vs, {"builder": "cloud", "choice": [provider, itype], "mixed_with_plain_job": mixed}


DIS = []      # K-builders disagreements collected by the cases of the current shard

CASES = {"video": case_video, "web": case_web, "genai": case_genai, "cloud": case_cloud}


def shard(args):
    seed, jobs_list = args
    rng = random.Random(seed)
    out = {"cases": 0, "violations": [], "samples": [], "builders": {}, "disagreements": [], "corr": 0}
    for kind, choice in jobs_list:
        del DIS[:]
        if kind in ("video", "genai"):
            out["corr"] += 1
        try:
            with watchdog(120):
                vs, info = CASES[kind](rng, choice)
        except Exception as e:  # noqa
            vs, info = [(f"{kind}-oracle-raises:{type(e).__name__}", str(e)[:200])], {"builder": kind, "choice": choice}
        out["cases"] += 1
        out["disagreements"] += [{"why": d, "kind": kind, "choice": choice} for d in DIS]
        out["builders"][kind] = out["builders"].get(kind, 0) + 1
        for sig, detail in vs:
            out["violations"].append({"signature": f"C17:{sig}", "detail": f"{info.get('choice')}: {detail}", "replay": {"kind": kind, "choice": info.get("choice"), "seed": seed}})
        if len(out["samples"]) < 2:
            out["samples"].append({k: v for k, v in info.items() if k != "spec_for_model"})
    return out
